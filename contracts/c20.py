"""C20 - record identity.  RAW record model: every field of DNSEntry/DNSQuestion/DNSRecord and the six
record classes is an ordinary heap field; nothing about identity is assumed, it is proved here and
then licenses the abstract `ident` model used by every other property (DESIGN.md 3.1)."""
import ast

MODE = 'raw'
PROP = 'C20'

ENTRY_FIELDS = {'key': 'str', 'name': 'str', 'type': 'int', 'class_': 'int', 'unique': 'bool'}

# per class: rdata identity fields -> type, hash tuple text, extra ctor params, ctor ensures
RECORDS = {
    'DNSAddress': dict(
        fields={'address': 'bytes', 'scope_id': 'optint', '_hash': 'int'},
        ident=['address', 'scope_id'],
        params={'address': 'bytes', 'scope_id': 'optint'},
        ctor=['self.address == address', 'self.scope_id == scope_id',
              'self._hash == hash((self.key, type_, self.class_, address, scope_id))']),
    'DNSHinfo': dict(
        fields={'cpu': 'str', 'os': 'str', '_hash': 'int'},
        ident=['cpu', 'os'],
        params={'cpu': 'str', 'os': 'str'},
        ctor=['self.cpu == cpu', 'self.os == os', 'self._hash == hash((self.key, type_, self.class_, cpu, os))']),
    'DNSPointer': dict(
        fields={'alias': 'str', 'alias_key': 'str', '_hash': 'int'},
        ident=['alias_key'],
        params={'alias': 'str'},
        ctor=['self.alias == alias', 'self.alias_key == lower(alias)',
              'self._hash == hash((self.key, type_, self.class_, self.alias_key))']),
    'DNSText': dict(
        fields={'text': 'bytes', '_hash': 'int'},
        ident=['text'],
        params={'text': 'bytes'},
        ctor=['self.text == text', 'self._hash == hash((self.key, type_, self.class_, text))']),
    'DNSService': dict(
        fields={'priority': 'int', 'weight': 'int', 'port': 'int', 'server': 'str', 'server_key': 'str',
                '_hash': 'int'},
        ident=['priority', 'weight', 'port', 'server_key'],
        params={'priority': 'int', 'weight': 'int', 'port': 'int', 'server': 'str'},
        ctor=['self.priority == priority', 'self.weight == weight', 'self.port == port', 'self.server == server',
              'self.server_key == lower(server)',
              'self._hash == hash((self.key, type_, self.class_, priority, weight, port, self.server_key))']),
}
IDENTITY_FIELDS = {'key', 'type', 'class_', '_hash', 'address', 'scope_id', 'cpu', 'os', 'alias_key', 'text',
                   'priority', 'weight', 'port', 'server_key', 'next_name', 'rdtypes', 'name', 'alias', 'server'}


def build(R):
    R.shape('DNSEntry', ENTRY_FIELDS)
    R.shape('DNSQuestion', {'_hash': 'int'})
    R.shape('DNSRecord', {'ttl': 'real', 'created': 'real'})
    for cls, d in RECORDS.items():
        R.shape(cls, d['fields'])
    R.shape('DNSNsec', {'next_name': 'str', 'rdtypes': 'list[int]', '_hash': 'int'})

    entry_mod = ['self.name', 'self.key', 'self.type', 'self.class_', 'self.unique']
    entry_post = ['self.name == name', 'self.key == lower(name)', 'self.type == type_',
                  'self.class_ == mod(class_, 32768)', 'self.unique == (mod(div(class_, 32768), 2) == 1)']
    R.contract('zeroconf._dns', 'DNSEntry.__init__', PROP, params={'name': 'str', 'type_': 'int', 'class_': 'int'},
               modifies=entry_mod, ensures=entry_post)
    R.contract('zeroconf._dns', 'DNSEntry._dns_entry_matches', PROP, params={'other': 'DNSEntry'}, returns='bool',
               ensures=['result == (self.key == other.key and self.type == other.type and self.class_ == other.class_)'])
    R.contract('zeroconf._dns', 'DNSEntry.__eq__', PROP, params={'other': 'object'}, returns='bool',
               ensures=['result == (cls_is(other, DNSEntry) and self.key == as_(other, DNSEntry).key '
                        'and self.type == as_(other, DNSEntry).type and self.class_ == as_(other, DNSEntry).class_)'])
    # questions
    R.contract('zeroconf._dns', 'DNSQuestion.__init__', PROP,
               params={'name': 'str', 'type_': 'int', 'class_': 'int'},
               modifies=entry_mod + ['self._hash'],
               ensures=entry_post + ['self._hash == hash((self.key, type_, self.class_))'])
    R.contract('zeroconf._dns', 'DNSQuestion.__hash__', PROP, returns='int', ensures=['result == self._hash'])
    R.contract('zeroconf._dns', 'DNSQuestion.__eq__', PROP, params={'other': 'object'}, returns='bool',
               ensures=['result == (cls_is(other, DNSQuestion) and self.key == as_(other, DNSQuestion).key '
                        'and self.type == as_(other, DNSQuestion).type '
                        'and self.class_ == as_(other, DNSQuestion).class_)'])
    R.lemma('question_equal_hash', PROP, {'a': 'DNSQuestion', 'b': 'DNSQuestion'},
            ['a._hash == hash((a.key, a.type, a.class_))', 'b._hash == hash((b.key, b.type, b.class_))',
             'a.key == b.key and a.type == b.type and a.class_ == b.class_'],
            ['a._hash == b._hash'], note='equal questions hash equal')
    # record base
    rec_mod = entry_mod + ['self.ttl', 'self.created']
    R.contract('zeroconf._dns', 'DNSRecord.__init__', PROP,
               params={'name': 'str', 'type_': 'int', 'class_': 'int', 'ttl': 'real', 'created': 'real'},
               modifies=rec_mod,
               ensures=entry_post + ['self.ttl == ttl', 'implies(created != 0, self.created == created)'],
               note='created=None is modelled as 0.0 (both falsy): the clock value is then unconstrained')
    R.contract('zeroconf._dns', 'DNSRecord.set_created_ttl', PROP, params={'created': 'real', 'ttl': 'real'},
               modifies=['self.created', 'self.ttl'],
               ensures=['self.created == created', 'self.ttl == ttl'])
    R.contract('zeroconf._dns', 'DNSRecord.reset_ttl', PROP, params={'other': 'DNSRecord'},
               modifies=['self.created', 'self.ttl'],
               ensures=['self.created == old(other.created)', 'self.ttl == old(other.ttl)'])
    for cls, d in RECORDS.items():
        params = {'name': 'str', 'type_': 'int', 'class_': 'int', 'ttl': 'real'}
        params.update(d['params'])
        params['created'] = 'real'
        R.contract('zeroconf._dns', cls + '.__init__', PROP, params=params,
                   modifies=rec_mod + ['self.' + f for f in d['fields']],
                   ensures=entry_post + ['self.ttl == ttl'] + d['ctor'])
        same = ' and '.join(['self.%s == as_(other, %s).%s' % (f, cls, f) for f in d['ident'] + ['key', 'type', 'class_']])
        R.contract('zeroconf._dns', cls + '.__eq__', PROP, params={'other': 'object'}, returns='bool',
                   ensures=['result == (cls_is(other, %s) and %s)' % (cls, same)])
        same2 = ' and '.join(['self.%s == other.%s' % (f, f) for f in d['ident'] + ['key', 'type', 'class_']])
        R.contract('zeroconf._dns', cls + '._eq', PROP, params={'other': cls}, returns='bool',
                   ensures=['result == (%s)' % same2])
        R.contract('zeroconf._dns', cls + '.__hash__', PROP, returns='int', ensures=['result == self._hash'])
        tup = {'DNSAddress': '(x.key, x.type, x.class_, x.address, x.scope_id)',
               'DNSHinfo': '(x.key, x.type, x.class_, x.cpu, x.os)',
               'DNSPointer': '(x.key, x.type, x.class_, x.alias_key)',
               'DNSText': '(x.key, x.type, x.class_, x.text)',
               'DNSService': '(x.key, x.type, x.class_, x.priority, x.weight, x.port, x.server_key)'}[cls]
        R.lemma(cls + '_equal_hash', PROP, {'a': cls, 'b': cls},
                ['a._hash == hash(%s)' % tup.replace('x.', 'a.'), 'b._hash == hash(%s)' % tup.replace('x.', 'b.'),
                 ' and '.join('a.%s == b.%s' % (f, f) for f in d['ident'] + ['key', 'type', 'class_'])],
                ['a._hash == b._hash'], note='equal records hash equal; ttl/created/unique do not occur')


    # NSEC: rdtypes is a sorted list; the variable tail of the hash tuple enters through lhash (congruent for
    # element-wise equal lists of equal length)
    R.contract('zeroconf._dns', 'DNSNsec.__init__', PROP,
               params={'name': 'str', 'type_': 'int', 'class_': 'int', 'ttl': 'real', 'next_name': 'str',
                       'rdtypes': 'list[int]', 'created': 'real'},
               modifies=rec_mod + ['self.next_name', 'self.rdtypes', 'self._hash'],
               ensures=entry_post + ['self.ttl == ttl', 'self.next_name == next_name',
                                     'len(self.rdtypes) == len(rdtypes)',
                                     'forall("i:int, j:int", lambda i, j: implies(0 <= i and i < j and j < len(self.rdtypes), '
                                     'self.rdtypes[i] <= self.rdtypes[j]))',
                                     'self._hash == hash((self.key, type_, self.class_, next_name, *self.rdtypes))'])
    R.contract('zeroconf._dns', 'DNSNsec._eq', PROP, params={'other': 'DNSNsec'}, returns='bool',
               ensures=['result == (self.next_name == other.next_name and list_eq(self.rdtypes, other.rdtypes) '
                        'and self.key == other.key and self.type == other.type and self.class_ == other.class_)'])
    R.contract('zeroconf._dns', 'DNSNsec.__eq__', PROP, params={'other': 'object'}, returns='bool',
               ensures=['result == (cls_is(other, DNSNsec) and self.next_name == as_(other, DNSNsec).next_name '
                        'and list_eq(self.rdtypes, as_(other, DNSNsec).rdtypes) and self.key == as_(other, DNSNsec).key '
                        'and self.type == as_(other, DNSNsec).type and self.class_ == as_(other, DNSNsec).class_)'])
    R.contract('zeroconf._dns', 'DNSNsec.__hash__', PROP, returns='int', ensures=['result == self._hash'])
    R.lemma('DNSNsec_equal_hash', PROP, {'a': 'DNSNsec', 'b': 'DNSNsec'},
            ['a._hash == hash((a.key, a.type, a.class_, a.next_name, *a.rdtypes))',
             'b._hash == hash((b.key, b.type, b.class_, b.next_name, *b.rdtypes))',
             'a.next_name == b.next_name and list_eq(a.rdtypes, b.rdtypes) and a.key == b.key and a.type == b.type '
             'and a.class_ == b.class_'],
            ['a._hash == b._hash'])


def static_checks(repo):
    """Mechanical scans that complete the C20 argument (no SMT needed)."""
    out = []
    # 1. the six record classes are direct, mutually unrelated subclasses of DNSRecord
    six = ['DNSAddress', 'DNSHinfo', 'DNSPointer', 'DNSText', 'DNSService', 'DNSNsec']
    ok = all(repo.class_bases(c) == ['DNSRecord'] for c in six) and repo.class_bases('DNSRecord') == ['DNSEntry'] \
        and repo.class_bases('DNSQuestion') == ['DNSEntry']
    out.append(('C20/static/class-hierarchy', ok,
                'six record classes are direct subclasses of DNSRecord; DNSQuestion and DNSRecord of DNSEntry '
                '(so isinstance guards separate the kinds)'))
    # 2. identity fields are assigned only inside constructors (and _set_class, called only from __init__)
    bad = []
    allowed = {'__init__', '_set_class'}
    rec_classes = set(six) | {'DNSEntry', 'DNSQuestion', 'DNSRecord'}
    for mn, m in repo.modules.items():
        for q, f in m.funcs.items():
            for n in ast.walk(f.node):
                if isinstance(n, ast.Attribute) and isinstance(n.ctx, (ast.Store, ast.Del)) and n.attr in IDENTITY_FIELDS:
                    in_rec = f.cls in rec_classes
                    if in_rec and f.node.name in allowed:
                        continue
                    if not in_rec:
                        # same attribute names on other classes (ServiceInfo.port, ...) are other fields;
                        # flag only stores whose receiver is not 'self'
                        if isinstance(n.value, ast.Name) and n.value.id == 'self':
                            continue
                        # a receiver that is a parameter annotated with a non-record class (ServiceInfo)
                        if isinstance(n.value, ast.Name):
                            anns = {a.arg: ast.unparse(a.annotation) for a in f.node.args.args + f.node.args.kwonlyargs
                                    if a.annotation is not None}
                            ann = anns.get(n.value.id, '')
                            if ann and not any(rc in ann for rc in rec_classes) and 'Any' not in ann:
                                continue
                    bad.append('%s:%s line %d .%s' % (mn, q, n.lineno, n.attr))
    out.append(('C20/static/identity-fields-immutable', not bad,
                'no function outside the record constructors assigns an identity field' +
                ('; offending: ' + '; '.join(bad) if bad else '')))
    # 3. _set_class is called only from DNSEntry.__init__
    callers = []
    for mn, m in repo.modules.items():
        for q, f in m.funcs.items():
            for n in ast.walk(f.node):
                if isinstance(n, ast.Call) and isinstance(n.func, ast.Attribute) and n.func.attr == '_set_class':
                    callers.append('%s:%s' % (mn, q))
    out.append(('C20/static/set_class-callers', callers == ['zeroconf._dns:DNSEntry.__init__'],
                '_set_class is called from: %s' % callers))
    return out
