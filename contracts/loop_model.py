"""Event loop, clock and send log as ghost state (DESIGN.md 3.4, assumption A5: code between awaits and every timer
callback is atomic; inside one atomic step the clock does not move; loop.time() and current_time_millis() are the same
clock)."""
import z3
from pyvc.core import Sc, RefV, NoneV, PyConst, FuncV, Cont, TupleV, FieldLoc, VCError, fresh
from pyvc.types import T, INT, REAL, BOOL, Ref, NONE, ref

# timer event: (due in ms, target object, method id, handle)
TEV = 'tuple[real, object, int, TimerHandle]'
METHODS = {}


def method_id(name):
    if name not in METHODS:
        METHODS[name] = len(METHODS) + 1
    return METHODS[name]


def _field_cont(ex, objname, cls, attr, st):
    o = ex.ctx.ghost_objects[objname]
    fs = ex.ctx.shapes.field(cls, attr)
    return Cont(FieldLoc(o.term, fs.fid, fs.t.sort()), fs.t)


def _clock_now(ex, st):
    o = ex.ctx.ghost_objects['CLOCK']
    fs = ex.ctx.shapes.field('VClock', 'now')
    return z3.Select(st.heap_arr(fs.fid, fs.t.sort()), o.term)


def _current_time_millis(ex, args, kwargs, st, frame, node):
    ex.ctx.assumed.add('A5-clock: inside one atomic step the clock is constant; current_time_millis() == CLOCK.now')
    yield st, Sc(_clock_now(ex, st), REAL)


def _loop_time(ex, recv, args, kwargs, st, frame, node):
    ex.ctx.assumed.add('A5-clock: loop.time() * 1000 == current_time_millis()')
    yield st, Sc(_clock_now(ex, st) / 1000, REAL)


def _arm(ex, recv, due_ms, cb, st):
    if not (isinstance(cb, FuncV) and cb.kind == 'method'):
        raise VCError('timer callback must be a bound method, got %r' % (cb,))
    h = fresh('new_TimerHandle', Ref)
    st.assume(h != NONE)
    st.assume(ex.ctx.shapes.exact_class_term(h, 'TimerHandle'))
    st.allocate(h)
    fs = ex.ctx.shapes.field('TimerHandle', 'cancelled')
    st.heap[fs.fid] = z3.Store(st.heap_arr(fs.fid, z3.BoolSort()), h, False)
    ev = _field_cont(ex, 'TIMERS', 'VTimers', 'events', st)
    et = ev.t.args[0]
    ex.l_append(ev, Sc(et.mk(due_ms, cb.recv.term, z3.IntVal(method_id(cb.name)), h), et), st)
    return RefV(h, ref('TimerHandle'), False)


def _call_at(ex, recv, args, kwargs, st, frame, node):
    when = ex.term(args[0], st, REAL)
    yield st, _arm(ex, recv, when * 1000, args[1], st)


def _call_later(ex, recv, args, kwargs, st, frame, node):
    delay = ex.term(args[0], st, REAL)
    yield st, _arm(ex, recv, _clock_now(ex, st) + delay * 1000, args[1], st)


def _cancel(ex, recv, args, kwargs, st, frame, node):
    fs = ex.ctx.shapes.field('TimerHandle', 'cancelled')
    st.heap[fs.fid] = z3.Store(st.heap_arr(fs.fid, z3.BoolSort()), recv.term, True)
    yield st, NoneV()


def _async_send(ex, recv, args, kwargs, st, frame, node):
    """Zeroconf.async_send(out, ...): ghost send log entry (builder object, clock)"""
    ev = _field_cont(ex, 'SENT', 'VSent', 'events', st)
    et = ev.t.args[0]
    out = args[0]
    # async_send(out, addr=None, port=_MDNS_PORT, v6_flow_scope=(), transport=None)
    names = ['out', 'addr', 'port', 'v6_flow_scope', 'transport']
    b = dict(zip(names, args))
    b.update(kwargs)
    addr = b.get('addr')
    from pyvc.types import STR as _STR, Str as _Str
    if addr is None or isinstance(addr, NoneV):
        has_t, addr_t = z3.BoolVal(False), ex.term(PyConst(''), st, _STR)
    elif isinstance(addr, RefV):
        # an Optional[str] parameter modelled as an opaque object: destination present iff not None, spelling unknown
        has_t, addr_t = addr.term != NONE, fresh('addr', _Str)
    else:
        has_t, addr_t = z3.BoolVal(True), ex.term(addr, st, _STR)
    port = b.get('port')
    port_t = ex.num(port, st)[0] if port is not None else z3.IntVal(5353)
    tr = b.get('transport')
    tr_t = tr.term if (tr is not None and not isinstance(tr, NoneV)) else NONE
    ex.l_append(ev, Sc(et.mk(_clock_now(ex, st), out.term, has_t, addr_t, port_t, tr_t), et), st)
    yield st, NoneV()


def install(R, send_stub=True):
    from pyvc import concrete as _conc
    _conc.MODEL_CLASSES.update({'TimerHandle': CHandle, 'EventLoop': CLoop})
    R.shape('VClock', {'now': 'real'}, bases=[])
    R.shape('VTimers', {'events': 'list[%s]' % TEV}, bases=[])
    # send event: (time, builder, has destination address, address, port, transport or None = every socket)
    R.shape('VSent', {'events': 'list[tuple[real, DNSOutgoing, bool, str, int, object]]'}, bases=[])
    R.shape('TimerHandle', {'cancelled': 'bool'}, bases=[])
    R.shape('EventLoop', {}, bases=[])
    R.ghost_objects['CLOCK'] = 'VClock'
    R.ghost_objects['TIMERS'] = 'VTimers'
    R.ghost_objects['SENT'] = 'VSent'
    from contracts.common import stub
    for key in list(R.stubs):
        if key.endswith(':current_time_millis'):
            del R.stubs[key]
    R.stubs['zeroconf._utils.time:current_time_millis'] = stub(_current_time_millis)
    R.stubs['method:EventLoop.time'] = _loop_time
    R.stubs['method:EventLoop.call_at'] = _call_at
    R.stubs['method:EventLoop.call_later'] = _call_later
    R.stubs['method:TimerHandle.cancel'] = _cancel
    if send_stub:
        R.stubs['method:Zeroconf.async_send'] = _async_send
    R.spec('mid', [('name', 'str')], 'int', lambda ex, st, name: PyConst(method_id(name.v)), concrete=lambda name: method_id(name))


# ---- concrete counterparts -------------------------------------------------------------------------------------
class CObj:
    pass


class CHandle:
    def __init__(self):
        self.cancelled = False

    def cancel(self):
        self.cancelled = True


class CLoop:
    def __init__(self, clock, timers):
        self.clock = clock
        self.timers = timers

    def time(self):
        return self.clock.now / 1000.0

    def call_at(self, when, cb, *args):
        h = CHandle()
        self.timers.events.append((round(when * 1000.0, 6), cb.__self__, method_id(cb.__name__), h))
        return h

    def call_later(self, delay, cb, *args):
        return self.call_at(self.time() + delay, cb, *args)


def concrete_world(now):
    clock, timers, sent = CObj(), CObj(), CObj()
    clock.now = now
    timers.events = []
    sent.events = []
    loop = CLoop(clock, timers)
    return clock, timers, sent, loop
