"""C17 - shutdown is complete and quiet.

The property is carried by a small number of per-function obligations:

  * every transmission goes through Zeroconf.async_send (static scan of sendto / async_send_with_transport call sites) and
    async_send does NOTHING once `done` is set (frame obligation on the real body) - so whatever timer or task is left
    behind (reply queues, deferred truncated queries, browser passes, announcements) cannot transmit after close;
  * `done` is only ever set, never reset (static scan of the assignments), _close is idempotent, _async_close sets `done`
    BEFORE the engine is shut down;
  * AsyncEngine._async_close cancels the cleanup timer that is current AFTER its flush await (the purge re-arms itself, so the
    handle read before the await may be stale) - with the await model of contracts/await_model.py;
  * async_unregister_all_services sends the goodbye builder three times 125 ms apart and RETURNS AT THE INSTANT OF THE LAST
    SEND (no window in which an in-flight announcement could follow the last goodbye before `done` is set);
  * AsyncZeroconf.async_close: browsers cancelled, then goodbyes, then _async_close - in that order (call-site obligations);
  * timer callbacks: a mechanical scan lists every call_later / call_at / call_soon* / ensure_future / create_task site of the
    package; each target must be a function whose quiet-when-done contract is discharged here or in the named property;
    _set_future_none_if_not_done (the only callback that touches a Future) is proved never to raise, and
    wait_for_future_set_or_timeout always cancels its handle and withdraws its future (try/finally across the await).
The browser passes' own `done` guards are the C10 obligations (re-verified here)."""
import ast
import z3
from pyvc.contracts import Loop
from pyvc.core import Sc, RefV, NoneV, Cont, FieldLoc, PyConst, FuncV, VCError, fresh
from pyvc.types import Ref, NONE, ref, BOOL, INT, REAL
from contracts import records, loop_model, await_model, c10

PROP = 'C17'
CORE = 'zeroconf._core'
ASSUMPTIONS = [
    'A5 await model (contracts/await_model.py): whole heap havocked at every await; ideal clock; logs only grow; a cancelled '
    'handle stays cancelled; plus the rely clauses named in the contracts below',
    'close() from a non-loop thread (run_coro_with_timeout, _shutdown_threads, thread join) involves real threads and is outside '
    'the family: only its loop-side coroutines are covered',
    'a closed transport delivers no further datagrams (asyncio) - so no record-manager / listener callback originates from the '
    'network after AsyncEngine._async_shutdown',
    'Zeroconf.remove_all_service_listeners / AsyncZeroconf.async_remove_all_service_listeners cancel every browser '
    '(_ServiceBrowserBase._async_cancel: scheduler stopped, listener removed - C10 stop contract) - assumed here',
    'DNSOutgoing.packets() (C14) and async_send_with_transport (destination choice) are abstracted: the latter is the ghost wire log',
]
QUIET_ELSEWHERE = {
    # target expression text -> where its quiet-when-done behaviour is discharged
    'self._process_startup_queries': 'C10/C17 QueryScheduler._process_startup_queries (done guard, re-verified here)',
    'self._process_ready_types': 'C10/C17 QueryScheduler._process_ready_types (done guard, re-verified here)',
    'self.async_ready': 'C12 MulticastOutgoingQueue.async_ready: transmits only through Zeroconf.async_send (no-op when done, here)',
    'self._respond_query': 'C12 AsyncListener._respond_query: transmits only through Zeroconf.async_send (no-op when done, here)',
    'self._async_cache_cleanup': 'C04 AsyncEngine._async_cache_cleanup; cancelled by AsyncEngine._async_close (here)',
    '_set_future_none_if_not_done': 'here: never raises',
    'self.async_notify_all': 'resolves waiters through _set_future_none_if_not_done (here)',
    'self.async_send': 'here: no-op when done',
    'self.record_manager.async_add_listener': 'C06 (listener registration); no transmission',
    'self.record_manager.async_remove_listener': 'C06; no transmission',
    'self._async_start': 'browser start: raises/announces nothing itself; queries go through async_send',
    'self._async_cancel': 'C10 QueryScheduler.stop + listener removal',
    'loop.stop': 'asyncio',
    'self._async_broadcast_service(info, _REGISTER_TIME, None)': 'announcement task: transmits only through async_send (no-op when done)',
    'self._async_broadcast_service(info, _UNREGISTER_TIME, 0, broadcast_addresses)': 'goodbye task: transmits only through async_send',
    'self._async_start_query_sender()': 'starts the scheduler (C10 start)',
    'self._async_setup(loop_thread_ready)': 'engine set-up (before running)',
}


def _future_done(ex, recv, args, kwargs, st, frame, node):
    fs = ex.ctx.shapes.field('Future', 'done_')
    yield st, Sc(z3.Select(st.heap_arr(fs.fid, z3.BoolSort()), recv.term), BOOL)


def _future_set_result(ex, recv, args, kwargs, st, frame, node):
    fs = ex.ctx.shapes.field('Future', 'done_')
    arr = st.heap_arr(fs.fid, z3.BoolSort())
    ex.pend_raise(st, z3.Select(arr, recv.term), 'asyncio.InvalidStateError', frame, node)
    st.heap[fs.fid] = z3.Store(arr, recv.term, True)
    yield st, NoneV()


def _create_future(ex, recv, args, kwargs, st, frame, node):
    o = fresh('new_Future', Ref)
    st.assume(o != NONE)
    st.assume(ex.ctx.shapes.exact_class_term(o, 'Future'))
    st.allocate(o)
    fs = ex.ctx.shapes.field('Future', 'done_')
    st.heap[fs.fid] = z3.Store(st.heap_arr(fs.fid, z3.BoolSort()), o, False)
    yield st, RefV(o, ref('Future'), False)


def _await(ex, v, st, frame, node):
    """await <Future>: an await point that returns once the future is done; anything else was applied at the call"""
    if isinstance(v, RefV) and v.t.cls == 'Future':
        await_model.await_point(ex, st, frame, node)
        fs = ex.ctx.shapes.field('Future', 'done_')
        st.assume(z3.Select(st.heap_arr(fs.fid, z3.BoolSort()), v.term))
        yield st, NoneV()
        return
    yield st, v


def _wire(ex, args, kwargs, st, frame, node):
    """async_send_with_transport(log_debug, transport, packet, ...): ghost wire log entry (length of the datagram)"""
    o = ex.ctx.ghost_objects['WIRE']
    fs = ex.ctx.shapes.field('VWire', 'events')
    ev = Cont(FieldLoc(o.term, fs.fid, fs.t.sort()), fs.t)
    from pyvc.types import BYTES, blen
    ex.l_append(ev, Sc(blen(ex.term(args[2], st, BYTES)), INT), st)
    yield st, NoneV()


def _wait_for(ex, args, kwargs, st, frame, node):
    """asyncio.wait_for(aw, timeout): the awaitable was applied at its call; an await point; may time out"""
    await_model.await_point(ex, st, frame, node)
    s2 = st.fork()
    ex.pend_raise(s2, z3.BoolVal(True), 'asyncio.TimeoutError', frame, node)
    yield st, NoneV()


def _arm_any(orig):
    """call_later / call_at with a plain function as callback (loop_model handles bound methods)"""
    def f(ex, recv, args, kwargs, st, frame, node):
        cb = args[1]
        if isinstance(cb, FuncV) and cb.kind == 'function':
            c = ex.ctx.contracts.get((cb.module, cb.qualname))
            quiet = c is not None and not c.raises and not c.trusted
            ex.oblige(st, z3.BoolVal(bool(quiet)), 'timer-callback-quiet', frame, node,
                      'the callback handed to the loop must have a verified contract that raises nothing')
            fake = FuncV('method', recv=RefV(NONE, ref('object'), True), name=cb.qualname)
            yield from orig(ex, recv, [args[0], fake] + list(args[2:]), kwargs, st, frame, node)
            return
        if not (isinstance(cb, FuncV) and cb.kind == 'method'):
            ex.oblige(st, z3.BoolVal(False), 'timer-callback-quiet', frame, node,
                      'the callback handed to the loop is not a function of the package with a contract: %r' % (cb,))
            fake = FuncV('method', recv=RefV(NONE, ref('object'), True), name='unknown')
            yield from orig(ex, recv, [args[0], fake] + list(args[2:]), kwargs, st, frame, node)
            return
        yield from orig(ex, recv, args, kwargs, st, frame, node)
    return f


# what no interleaved step changes (environment stability, assumed across awaits and promised by every coroutine here):
# an instance keeps its engine, an engine its start event, the async wrapper its instance (assigned in constructors / set-up
# only: static scan below); `done` is never reset (static scan); the purge timer field always holds a handle once armed
STABLE = [
    'forall("z:Zeroconf", lambda z: implies(old(allocated(z)), z.engine is old(z.engine) and implies(old(z.done), z.done)))',
    'forall("e:AsyncEngine", lambda e: implies(old(allocated(e)), e.running_event is old(e.running_event) '
    '   and implies(old(e._cleanup_timer) is not None, e._cleanup_timer is not None and cls_is(e._cleanup_timer, TimerHandle))))',
    'forall("a:AsyncZeroconf", lambda a: implies(old(allocated(a)), a.zeroconf is old(a.zeroconf)))',
]


def build(R):
    c10.build(R)                 # records, loop model, scheduler contracts
    await_model.install(R)
    from contracts.common import stub
    R.stubs['method:EventLoop.call_later'] = _arm_any(loop_model._call_later)
    R.stubs['method:EventLoop.call_at'] = _arm_any(loop_model._call_at)
    R.stubs['method:EventLoop.create_future'] = _create_future
    R.stubs['method:Future.done'] = _future_done
    R.stubs['method:Future.set_result'] = _future_set_result
    R.stubs['asyncio.wait_for'] = stub(_wait_for)
    R.stubs[CORE + ':async_send_with_transport'] = stub(_wire)
    R.shape('Future', {'done_': 'bool'}, bases=[])
    R.shape('VWire', {'events': 'list[int]'}, bases=[])
    R.ghost_objects['WIRE'] = 'VWire'
    R.shape('_WrappedTransport', {}, bases=[])
    R.shape('Event', {}, bases=[])
    R.shape('ServiceRegistry', {}, bases=[])
    R.shape('AsyncEngine', {'zc': 'Zeroconf', 'loop': 'opt[EventLoop]', '_cleanup_timer': 'opt[TimerHandle]', 'running_event': 'opt[Event]',
                            'senders': 'list[_WrappedTransport]', 'readers': 'list[_WrappedTransport]', 'g_shut': 'bool'})
    R.shape('Zeroconf', {'done': 'bool', 'engine': 'AsyncEngine', 'loop': 'opt[EventLoop]', 'registry': 'ServiceRegistry',
                         'g_listeners_removed': 'bool'})
    R.shape('AsyncZeroconf', {'zeroconf': 'Zeroconf'})
    R.shape('DNSOutgoing', {'multicast': 'bool', 'flags': 'int'})
    # the scheduler passes: their done guards are C10 obligations, re-verified under C17
    for q in ('QueryScheduler._process_startup_queries', 'QueryScheduler._process_ready_types', 'QueryScheduler.stop'):
        R.contracts[(c10.B, q)].props.append(PROP)

    # ---- nothing is transmitted once done ----------------------------------------------------------------------------------
    W0 = 'old(len(WIRE.events))'
    R.contract('zeroconf._protocol.outgoing', 'DNSOutgoing.packets', 'C14', returns='list[bytes]', trusted=True,
               modifies=['DNSOutgoing.state[*]'], note='C14 (verified there): the datagrams of the builder')
    R.shape('DNSOutgoing', {'state': 'int'})
    R.contract('zeroconf._logger', 'QuietLogger.log_warning_once', 'T5', trusted=True, modifies=[], note='logging')
    R.contract(CORE, 'Zeroconf.async_send', PROP,
               params={'out': 'DNSOutgoing', 'addr': 'object', 'port': 'int', 'v6_flow_scope': 'object', 'transport': 'opt[_WrappedTransport]'},
               requires=['out is not None', 'self.engine is not None'],
               modifies=['WIRE.events', 'DNSOutgoing.state[*]'],
               ensures=[
                   # done: frame is empty - nothing is built, nothing reaches a socket
                   'implies(old(self.done), heap_unchanged())',
                   # never an over-sized datagram (C14's last clause): everything handed to a transport is <= 8966 bytes
                   'forall("p:int", lambda p: implies(%s <= p and p < len(WIRE.events), WIRE.events[p] <= 8966))' % W0,
                   'forall("p:int", lambda p: implies(0 <= p and p < %s, WIRE.events[p] == old(WIRE.events[p])))' % W0],
               loops={0: Loop(inv=['not old(self.done)', 'len(WIRE.events) >= %s' % W0,
                                   'forall("p:int", lambda p: implies(%s <= p and p < len(WIRE.events), WIRE.events[p] <= 8966))' % W0,
                                   'forall("p:int", lambda p: implies(0 <= p and p < %s, WIRE.events[p] == old(WIRE.events[p])))' % W0],
                              modifies=['WIRE.events']),
                      1: Loop(inv=['not old(self.done)', 'len(WIRE.events) >= %s' % W0, 'blen(packet) <= 8966',
                                   'forall("p:int", lambda p: implies(%s <= p and p < len(WIRE.events), WIRE.events[p] <= 8966))' % W0,
                                   'forall("p:int", lambda p: implies(0 <= p and p < %s, WIRE.events[p] == old(WIRE.events[p])))' % W0],
                              modifies=['WIRE.events'])})
    # ---- done is set once, by _close, idempotently ----------------------------------------------------------------------------
    R.contract(CORE, 'Zeroconf.remove_all_service_listeners', PROP, trusted=True, modifies=['self.g_listeners_removed'],
               ensures=['self.g_listeners_removed'],
               note='cancels every browser of the instance (ghost flag); browsers are C10/C04')
    R.contract(CORE, 'Zeroconf._close', PROP,
               modifies=['self.done', 'self.g_listeners_removed'],
               ensures=['self.done', 'implies(old(self.done), heap_unchanged())', 'implies(not old(self.done), self.g_listeners_removed)'])
    R.contract(CORE, 'Zeroconf._shutdown_threads', PROP, trusted=True, modifies=[],
               note='notify_all + (only for an instance that owns a loop thread) loop shutdown: threads are outside the family')
    # ---- the engine: the purge timer that is current after the flush is the one cancelled -------------------------------------------
    E = 'zeroconf._engine'
    R.contract(E, 'AsyncEngine._async_shutdown', PROP, trusted=True, modifies=['self.g_shut'], ensures=['self.g_shut'],
               note='closes every transport (ghost flag): a closed transport delivers nothing further')
    R.contract(E, 'AsyncEngine._async_close', PROP,
               requires=['self._cleanup_timer is not None', 'self.running_event is not None'],
               # the purge may run during the flush and re-arm itself: the field may change, but it always holds a handle
               modifies=['*'],
               ensures=['self._cleanup_timer is not None and self._cleanup_timer.cancelled'] + STABLE)
    R.contracts[(E, 'AsyncEngine._async_close')].rely = list(STABLE)
    R.contract(CORE, 'Zeroconf._async_close', PROP,
               requires=['self.engine is not None and self.engine._cleanup_timer is not None and self.engine.running_event is not None',
                         'allocated(self.engine) and cls_is(self.engine, AsyncEngine)'],
               modifies=['*'],
               at_calls={'self.engine._async_close': ['self.done']},          # done BEFORE the sockets go away
               ensures=['self.done'] + STABLE)
    R.contracts[(CORE, 'Zeroconf._async_close')].rely = list(STABLE)
    # ---- goodbyes ------------------------------------------------------------------------------------------------------------
    S0 = 'old(len(SENT.events))'
    R.contract(CORE, 'Zeroconf.generate_unregister_all_services', 'C08', returns='opt[DNSOutgoing]', trusted=True, modifies=['*'],
               ensures=['implies(result is not None, fresh_obj(result))', 'heap_eq("VSent.events")', 'heap_eq("VClock.now")'] + STABLE,
               note='C08 scope (which goodbye records): a fresh builder, or None when nothing is registered; the registry is emptied')
    R.contract(CORE, 'Zeroconf.async_unregister_all_services', PROP,
               modifies=['*'], ghost_out={'out': 'opt[DNSOutgoing]'},
               ensures=[
                   'implies(out is None, len(SENT.events) == %s)' % S0,
                   # the coroutine returns at the instant of its last goodbye: that send is the newest entry of the log
                   'implies(out is not None, len(SENT.events) > %s and SENT.events[len(SENT.events) - 1][1] is out '
                   '   and SENT.events[len(SENT.events) - 1][0] == CLOCK.now and not SENT.events[len(SENT.events) - 1][2])' % S0,
                   # three multicasts of the one goodbye builder, 125 ms apart, and the coroutine returns at the instant of the last
                   'implies(out is not None, exists("a:int, b:int, c:int", lambda a, b, c: %s <= a and a < b and b < c and c < len(SENT.events) '
                   '   and SENT.events[a][1] is out and SENT.events[b][1] is out and SENT.events[c][1] is out '
                   '   and not SENT.events[a][2] and not SENT.events[b][2] and not SENT.events[c][2] '
                   '   and SENT.events[b][0] == SENT.events[a][0] + 125 and SENT.events[c][0] == SENT.events[b][0] + 125 '
                   '   and SENT.events[c][0] == CLOCK.now and SENT.events[a][0] == old(CLOCK.now)))' % S0] + STABLE)
    R.contracts[(CORE, 'Zeroconf.async_unregister_all_services')].rely = list(STABLE)
    # ---- AsyncZeroconf.async_close: browsers, goodbyes, then close -----------------------------------------------------------------
    AZ = 'zeroconf.asyncio'
    R.contract(CORE, 'Zeroconf.async_wait_for_start', PROP, trusted=True, modifies=[], raises={'NotRunningException': 'self.done'},
               note='waits for the engine start event (await point applied by asyncio.wait_for)')
    R.contract(AZ, 'AsyncZeroconf.async_remove_all_service_listeners', PROP, trusted=True, modifies=['*'], ensures=list(STABLE),
               note='cancels every async browser (asyncio.gather over a generator: out of reach); an await point')
    R.contract(AZ, 'AsyncZeroconf.async_unregister_all_services', PROP, modifies=['*'], ensures=list(STABLE))
    R.contracts[(AZ, 'AsyncZeroconf.async_unregister_all_services')].rely = list(STABLE)
    R.contract(AZ, 'AsyncZeroconf.async_close', PROP,
               requires=['self.zeroconf is not None and self.zeroconf.engine is not None and self.zeroconf.engine._cleanup_timer is not None '
                         'and self.zeroconf.engine.running_event is not None', 'not browsers_gone and not withdrawn',
                         'allocated(self.zeroconf) and cls_is(self.zeroconf, Zeroconf) and allocated(self.zeroconf.engine) '
                         'and cls_is(self.zeroconf.engine, AsyncEngine)'],
               ghost={'browsers_gone': 'bool', 'withdrawn': 'bool'},
               modifies=['*'],
               at_calls={'self.async_remove_all_service_listeners': ['ghost: browsers_gone = True'],
                         'self.async_unregister_all_services': ['browsers_gone', 'ghost: withdrawn = True'],
                         'self.zeroconf._async_close': ['browsers_gone and withdrawn']},
               ensures=['self.zeroconf.done'])
    R.contracts[(AZ, 'AsyncZeroconf.async_close')].rely = list(STABLE)
    # ---- futures and the timeout helper -----------------------------------------------------------------------------------------------
    U = 'zeroconf._utils.asyncio'
    R.contract(U, '_set_future_none_if_not_done', PROP, params={'fut': 'Future'}, requires=['fut is not None'],
               modifies=['fut.done_'], ensures=['fut.done_'])
    R.contract(U, 'wait_for_future_set_or_timeout', PROP,
               params={'loop': 'EventLoop', 'future_set': 'set[Future]', 'timeout': 'real'},
               requires=['loop is not None'],
               modifies=['*'], ghost_out={'handle': 'TimerHandle', 'future': 'Future'},
               ensures=['handle is not None and handle.cancelled', 'not future_set.has(future)'])


def configure(ctx, R):
    records.configure(ctx)
    await_model.configure(ctx)
    ctx.await_hook = _await


# ---- static scans ---------------------------------------------------------------------------------------------------------
def static_checks(repo):
    out = []
    sched = []
    sendto = []
    wire_calls = []
    done_writes = []
    for mname, m in repo.modules.items():
        for node in ast.walk(m.tree):
            if isinstance(node, ast.Call) and isinstance(node.func, ast.Attribute):
                a = node.func.attr
                if a in ('call_later', 'call_at', 'call_soon', 'call_soon_threadsafe'):
                    cb = node.args[1] if a in ('call_later', 'call_at') else node.args[0]
                    sched.append((mname, node.lineno, ast.unparse(cb)))
                elif a in ('ensure_future', 'create_task'):
                    sched.append((mname, node.lineno, ast.unparse(node.args[0])))
                elif a == 'sendto':
                    sendto.append((mname, node.lineno))
            if isinstance(node, ast.Call) and isinstance(node.func, ast.Name) and node.func.id == 'async_send_with_transport':
                wire_calls.append((mname, node.lineno))
            if isinstance(node, (ast.Assign, ast.AugAssign)):
                tg = node.targets if isinstance(node, ast.Assign) else [node.target]
                for t in tg:
                    if isinstance(t, ast.Attribute) and t.attr == 'done' and isinstance(t.value, ast.Name) and t.value.id == 'self':
                        done_writes.append((mname, node.lineno, ast.unparse(node.value)))
    bad = [s for s in sched if s[2] not in QUIET_ELSEWHERE]
    out.append(('C17/scan/every-scheduled-callback-has-a-quiet-contract', not bad and len(sched) > 0,
                '%d scheduling sites; targets without a quiet-when-done contract: %s' % (len(sched), bad)))
    ok = all(m == 'zeroconf._core' for m, _ in sendto) and len(sendto) == 1
    out.append(('C17/scan/sendto-only-in-async_send_with_transport', ok, 'sendto call sites: %s' % sendto))
    ok = all(m == 'zeroconf._core' for m, _ in wire_calls) and len(wire_calls) == 1
    out.append(('C17/scan/async_send_with_transport-only-called-from-async_send', ok, 'call sites: %s' % wire_calls))
    zc_writes = [w for w in done_writes if w[0] == 'zeroconf._core']
    ok = bool(zc_writes) and all(w[2] in ('True', 'False') for w in zc_writes) and sum(1 for w in zc_writes if w[2] == 'False') == 1
    out.append(('C17/scan/zeroconf-done-only-set-true', ok,
                'assignments to self.done in _core.py: %s (one initialisation to False, otherwise only True)' % zc_writes))
    return out


NO_CONCRETE = {'Zeroconf.async_send', 'Zeroconf._close', 'AsyncEngine._async_close', 'Zeroconf._async_close',
               'Zeroconf.async_unregister_all_services', 'AsyncZeroconf.async_unregister_all_services', 'AsyncZeroconf.async_close',
               '_set_future_none_if_not_done', 'wait_for_future_set_or_timeout', 'QueryScheduler._process_startup_queries',
               'QueryScheduler._process_ready_types', 'QueryScheduler.stop'}
