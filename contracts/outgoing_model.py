"""DNSOutgoing: shapes, trusted packer models, and the size-bookkeeping contracts (C14; reused by C01/C11/C13).

wf_out(o):  o.size == 12 + bsum(o.data, len(o.data))
  bsum(l, k) is the total byte length of the first k chunks of l.  `size` therefore is the true wire offset of
  the next byte (the 12 header bytes are inserted at index 0 by packets() later).
"""
import z3
from pyvc.contracts import Loop, View
from pyvc.core import Sc, RefV, NoneV, PyConst, FuncV, Cont, TupleV, VCError, fresh
from pyvc.types import T, INT, REAL, BOOL, STR, BYTES, Ref, Str, Bytes, blen, bat, ref, parse_type

P = 'C14'
M = 'zeroconf._protocol.outgoing'

pack1 = z3.Function('pack1', z3.IntSort(), Bytes)
pack2 = z3.Function('pack2', z3.IntSort(), Bytes)
pack4 = z3.Function('pack4', z3.IntSort(), Bytes)


def packer_axioms(ctx):
    v = z3.Int('v')
    return [
        z3.ForAll([v], z3.And(blen(pack1(v)) == 1, bat(pack1(v), 0) == v % 256), patterns=[pack1(v)]),
        z3.ForAll([v], z3.And(blen(pack2(v)) == 2, bat(pack2(v), 0) == (v / 256) % 256, bat(pack2(v), 1) == v % 256),
                  patterns=[pack2(v)]),
        z3.ForAll([v], z3.And(blen(pack4(v)) == 4, bat(pack4(v), 0) == (v / 16777216) % 256,
                              bat(pack4(v), 1) == (v / 65536) % 256, bat(pack4(v), 2) == (v / 256) % 256,
                              bat(pack4(v), 3) == v % 256), patterns=[pack4(v)]),
    ]


def _byte_table(ex, st, frame):
    def index(ex_, k, st_, frame_, node):
        i = ex_.num(k, st_)[0]
        # tuple of 256 one-byte strings: IndexError outside [-256, 256)
        ex_.pend_raise(st_, z3.Or(i >= 256, i < -256), 'IndexError', frame_, node)
        ex_.ctx.assumed.add('T3-struct')
        return Sc(pack1(z3.If(i < 0, i + 256, i)), BYTES)
    return FuncV('subscriptable', fn=index)


def _short_lookup(ex, st, frame):
    def index(ex_, k, st_, frame_, node):
        i = ex_.num(k, st_)[0]
        ex_.pend_raise(st_, z3.Or(i >= 128, i < -128), 'IndexError', frame_, node)
        ex_.ctx.assumed.add('T3-struct')
        return Sc(pack2(z3.If(i < 0, i + 128, i)), BYTES)
    return FuncV('subscriptable', fn=index)


def _pack(fn, lo, hi):
    def stub(ex, args, kwargs, st, frame, node):
        v = ex.num(args[0], st)[0]
        ex.pend_raise(st, z3.Or(v < lo, v >= hi), 'struct.error', frame, node)
        ex.ctx.assumed.add('T3-struct')
        yield st, Sc(fn(v), BYTES)
    return lambda ex, st, frame: FuncV('stub', fn=stub)


def _long_lookup(ex, st, frame):
    class LL(FuncV):
        pass

    def get(ex_, recv, args, kwargs, st_, frame_, node):
        v = ex_.num(args[0], st_)[0]
        hit = z3.Or(v == 4500, v == 120, v == 0)
        s1 = st_.fork()
        s1.assume(hit)
        yield s1, Sc(pack4(v), BYTES)
        s2 = st_.fork()
        s2.assume(z3.Not(hit))
        yield s2, NoneV()
    return FuncV('dictconst', get=get)


def _bytes_join(ex, s, args, kw, st, frame, node):
    """b''.join(chunks): a byte string whose length is the sum of the chunk lengths (content: C01)."""
    lst = args[0]
    if not (isinstance(lst, Cont) and lst.t.kind == 'list' and lst.t.args[0].kind == 'bytes'):
        raise VCError('join of %r' % (lst,))
    from pyvc.execcont import bsum_fn
    cur = ex.c_term(lst, st)
    arr, n = lst.t.acc('arr')(cur), lst.t.acc('len')(cur)
    f = z3.Function('bjoin', arr.sort(), z3.IntSort(), Bytes)
    r = f(arr, n)
    st.assume(blen(r) == bsum_fn(arr, n))
    yield st, Sc(r, BYTES)


def install_shapes(R):
    R.shape('DNSOutgoing', {'flags': 'int', 'finished': 'bool', 'id': 'int', 'multicast': 'bool',
                            'packets_data': 'list[bytes]', 'names': 'dict[str, int]', 'data': 'list[bytes]',
                            'size': 'int', 'allow_long': 'bool', 'state': 'int',
                            'questions': 'list[DNSQuestion]', 'answers': 'list[tuple[DNSRecord, real]]',
                            'authorities': 'list[DNSPointer]', 'additionals': 'list[DNSRecord]'})
    R.stubs[M + ':BYTE_TABLE'] = _byte_table
    R.stubs[M + ':SHORT_LOOKUP'] = _short_lookup
    R.stubs[M + ':PACK_SHORT'] = _pack(pack2, 0, 65536)
    R.stubs[M + ':PACK_LONG'] = _pack(pack4, 0, 4294967296)
    R.stubs[M + ':PACK_BYTE'] = _pack(pack1, 0, 256)
    R.stubs[M + ':LONG_LOOKUP'] = _long_lookup
    R.stubs[M + ':STATE_INIT'] = lambda ex, st, frame: PyConst(0)
    R.stubs[M + ':STATE_FINISHED'] = lambda ex, st, frame: PyConst(1)
    R.stubs[M + ':SHORT_CACHE_MAX'] = lambda ex, st, frame: PyConst(128)
    R.stubs['bytes.join'] = _bytes_join
    R.axioms.append(packer_axioms)
    R.spec('wf_out', [('o', 'DNSOutgoing')], 'bool', 'o.size == 12 + bsum(o.data, len(o.data))')
    # data grew (or stayed) and nothing already written changed
    R.spec('data_prefix_kept', [('o', 'DNSOutgoing')], 'bool',
           'len(o.data) >= old(len(o.data)) and forall("i:int", lambda i: implies(0 <= i and i < old(len(o.data)), o.data[i] == old(o.data[i]))) '
           'and forall("k:int", lambda k: implies(0 <= k and k <= old(len(o.data)), bsum(o.data, k) == old(bsum(o.data, k))))')


GROW = ['wf_out(self)', 'data_prefix_kept(self)', 'self.size >= old(self.size)']
SAME = ['self.size == old(self.size)', 'len(self.data) == old(len(self.data))', 'data_prefix_kept(self)', 'wf_out(self)']


def same_on(*excs):
    return {e: SAME for e in excs}


def install_primitives(R):
    R.contract(M, 'DNSOutgoing._write_byte', P, params={'value': 'int'}, requires=['wf_out(self)'],
               raises={'IndexError': 'value >= 256 or value < -256'}, raises_exact=['IndexError'],
               modifies=['self.data', 'self.size'], ensures_raise=same_on('IndexError'),
               ensures=GROW + ['self.size == old(self.size) + 1', 'len(self.data) == old(len(self.data)) + 1'])
    R.contract(M, 'DNSOutgoing._get_short', P, params={'value': 'int'}, returns='bytes',
               raises={'struct.error': 'value >= 65536', 'IndexError': 'value < -128'},
               raises_exact=['struct.error', 'IndexError'],
               ensures=['blen(result) == 2', 'implies(0 <= value, result == pack2v(value))'])
    R.contract(M, 'DNSOutgoing.write_short', P, params={'value': 'int'}, requires=['wf_out(self)'],
               raises={'struct.error': 'value >= 65536', 'IndexError': 'value < -128'},
               raises_exact=['struct.error', 'IndexError'],
               modifies=['self.data', 'self.size'], ensures_raise=same_on('struct.error', 'IndexError'),
               ensures=GROW + ['self.size == old(self.size) + 2', 'len(self.data) == old(len(self.data)) + 1',
                               'blen(self.data[len(self.data) - 1]) == 2'])
    R.contract(M, 'DNSOutgoing._write_int', P, params={'value': 'real'}, requires=['wf_out(self)'],
               raises={'struct.error': 'value <= -1 or value >= 4294967296'}, raises_exact=['struct.error'],
               modifies=['self.data', 'self.size'], ensures_raise=same_on('struct.error'),
               ensures=GROW + ['self.size == old(self.size) + 4', 'len(self.data) == old(len(self.data)) + 1'])
    R.contract(M, 'DNSOutgoing.write_string', P, params={'value': 'bytes'}, requires=['wf_out(self)'],
               modifies=['self.data', 'self.size'],
               ensures=GROW + ['self.size == old(self.size) + blen(value)', 'len(self.data) == old(len(self.data)) + 1'])
    R.contract(M, 'DNSOutgoing._replace_short', P, params={'index': 'int', 'value': 'int'},
               requires=['0 <= index and index < len(self.data)', 'blen(self.data[index]) == 2'],
               raises={'struct.error': 'value >= 65536', 'IndexError': 'value < -128'},
               raises_exact=['struct.error', 'IndexError'],
               modifies=['self.data'],
               ensures=['len(self.data) == old(len(self.data))',
                        'forall("k:int", lambda k: bsum(self.data, k) == old(bsum(self.data, k)))',
                        'forall("i:int", lambda i: implies(0 <= i and i < len(self.data) and i != index, self.data[i] == old(self.data[i])))'])
    R.contract(M, 'DNSOutgoing._insert_short_at_start', P, params={'value': 'int'},
               raises={'struct.error': 'value >= 65536', 'IndexError': 'value < -128'},
               raises_exact=['struct.error', 'IndexError'],
               modifies=['self.data'],
               ensures=['len(self.data) == old(len(self.data)) + 1',
                        'forall("k:int", lambda k: implies(k >= 1, bsum(self.data, k) == 2 + old(bsum(self.data, k - 1))))',
                        'implies(0 <= value and value < 65536, self.data[0] == pack2v(value))',
                        'forall("i:int", lambda i: implies(1 <= i and i < len(self.data), self.data[i] == old(self.data[i - 1])))'])


# ---- uninterpreted string operations (only chunk lengths matter for C14) -----------------------------------
def _str_slice_uninterp(ex, v, lo, hi, st, frame, node):
    return Sc(fresh('sslice', Str), STR)


def _str_join_uninterp(ex, s, args, kw, st, frame, node):
    yield st, Sc(fresh('sjoin', Str), STR)


def install_uninterpreted_strings(R):
    R.stubs['str.slice'] = _str_slice_uninterp
    R.stubs['str.join'] = _str_join_uninterp


def install_writers(R):
    NP = 'NamePartTooLongException'
    R.contract(M, 'DNSOutgoing._write_utf', P, params={'s': 'str'}, requires=['wf_out(self)'],
               raises={NP: 'ulen(s) > 63'}, raises_exact=[NP], ensures_raise=same_on(NP),
               modifies=['self.data', 'self.size'],
               ensures=GROW + ['self.size == old(self.size) + 1 + ulen(s)', 'len(self.data) == old(len(self.data)) + 2'])
    R.contract(M, 'DNSOutgoing.write_character_string', P, params={'value': 'bytes'}, requires=['wf_out(self)'],
               raises={NP: 'blen(value) > 256', 'IndexError': 'blen(value) == 256'}, raises_exact=[NP, 'IndexError'],
               ensures_raise=same_on(NP, 'IndexError'),
               modifies=['self.data', 'self.size'],
               ensures=GROW + ['self.size == old(self.size) + 1 + blen(value)'])
    R.contract(M, 'DNSOutgoing._write_link_to_name', P, params={'index': 'int'}, requires=['wf_out(self)'],
               raises={'IndexError': 'index >= 16384 or index < -65536'}, ensures_raise={'IndexError': GROW},
               modifies=['self.data', 'self.size'],
               ensures=GROW + ['self.size == old(self.size) + 2'])
    R.contract(M, 'DNSOutgoing.write_name', P, params={'name': 'str'}, requires=['wf_out(self)'],
               raises={NP: 'True', 'IndexError': 'True'},
               modifies=['self.data', 'self.size', 'self.names'],
               ensures=GROW,
               ensures_raise={NP: GROW, 'IndexError': GROW},
               loops={0: Loop(inv=['wf_out(self)', 'data_prefix_kept(self)', 'self.size >= old(self.size)'])},
               note='C14 view: string operations uninterpreted; the name table and byte forms are C01')
    R.contract(M, 'DNSOutgoing._write_record_class', P, params={'record': 'DNSEntry'},
               requires=['wf_out(self)', 'record is not None'],
               raises={'struct.error': 'record.class_ >= 32768 or record.class_ < 0', 'IndexError': 'record.class_ < 0'},
               ensures_raise=same_on('struct.error', 'IndexError'),
               modifies=['self.data', 'self.size'],
               ensures=GROW + ['self.size == old(self.size) + 2'])
    R.contract(M, 'DNSOutgoing._write_ttl', P, params={'record': 'DNSRecord', 'now': 'real'},
               requires=['wf_out(self)', 'record is not None'],
               raises={'struct.error': '(now == 0 and (record.ttl <= -1 or record.ttl >= 4294967296)) or '
                                       '(now != 0 and (record.created + 1000 * record.ttl - now) / 1000 >= 4294967296)'},
               ensures_raise=same_on('struct.error'),
               modifies=['self.data', 'self.size'],
               ensures=GROW + ['self.size == old(self.size) + 4'])
    # record bodies
    D = 'zeroconf._dns'
    W = dict(requires=['wf_out(out)', 'out is not None'], modifies=['out.data', 'out.size', 'out.names'])
    GO = [g.replace('self', 'out') for g in GROW]
    R.contract(D, 'DNSAddress.write', P, params={'out': 'DNSOutgoing'}, ensures=GO, **W)
    R.contract(D, 'DNSText.write', P, params={'out': 'DNSOutgoing'}, ensures=GO, **W)
    R.contract(D, 'DNSPointer.write', P, params={'out': 'DNSOutgoing'}, ensures=GO,
               raises={NP: 'True', 'IndexError': 'True'}, ensures_raise={NP: GO, 'IndexError': GO}, **W)
    R.contract(D, 'DNSHinfo.write', P, params={'out': 'DNSOutgoing'}, ensures=GO,
               raises={NP: 'True', 'IndexError': 'True'}, ensures_raise={NP: GO, 'IndexError': GO}, **W)
    R.contract(D, 'DNSService.write', P, params={'out': 'DNSOutgoing'}, ensures=GO,
               raises={NP: 'True', 'IndexError': 'True',
                       'struct.error': 'self.priority >= 65536 or self.weight >= 65536 or self.port >= 65536'},
               ensures_raise={NP: GO, 'IndexError': GO, 'struct.error': GO}, **W)
    R.contract(D, 'DNSNsec.write', P, params={'out': 'DNSOutgoing'}, ensures=GO,
               raises={NP: 'True', 'IndexError': 'True', 'ValueError': 'True'},
               ensures_raise={NP: GO, 'IndexError': GO, 'ValueError': GO}, trusted=True,
               note='NSEC bitmap construction (bytearray bit operations) is outside the engine: assumed to append chunks '
                    'with correct size bookkeeping, like every other write(); byte content is C01 K9', **W)


LIM = 'ite(old(self.allow_long), 8966, 1460)'
ENTRY_RAISES = {'NamePartTooLongException': 'True', 'IndexError': 'True', 'struct.error': 'True', 'ValueError': 'True'}
# after one entry write: either it fits (appended, within the limit that applied) or everything is as before
ENTRY_POST = [
    'self.allow_long == False',
    'wf_out(self)',
    'implies(result, self.size <= %s and self.size >= old(self.size) and data_prefix_kept(self) '
    '        and len(self.data) > old(len(self.data)))' % LIM,
    'implies(not result, self.size == old(self.size) and len(self.data) == old(len(self.data)) and data_prefix_kept(self))',
    'result == (self.size != old(self.size) or len(self.data) != old(len(self.data))) or not result',
]
# a whole section: w entries written; the size law that makes "more than 1460 only with a single entry" hold
SECTION_POST = [
    'wf_out(self)', 'data_prefix_kept(self)', 'self.size >= old(self.size)', 'result >= 0',
    'self.size <= 1460 or (old(self.allow_long) and result == 1 and self.size <= 8966) or (result == 0 and self.size == old(self.size))',
    'implies(result == 0, self.size == old(self.size) and len(self.data) == old(len(self.data)))',
    'implies(result > 0, not self.allow_long)',
    'implies(not old(self.allow_long), not self.allow_long)',
    'implies(result > 0, len(self.data) > old(len(self.data)))',
]


def install_entries(R):
    R.contract(M, 'DNSOutgoing._check_data_limit_or_rollback', P,
               params={'start_data_length': 'int', 'start_size': 'int'}, returns='bool',
               requires=['wf_out(self)', '0 <= start_data_length and start_data_length <= len(self.data)',
                         'start_size == 12 + bsum(self.data, start_data_length)'],
               modifies=['self.data', 'self.size', 'self.names', 'self.allow_long'],
               ensures=['self.allow_long == False', 'wf_out(self)',
                        'result == (old(self.size) <= %s)' % LIM,
                        'implies(result, self.size == old(self.size) and len(self.data) == old(len(self.data)) and data_prefix_kept(self))',
                        'implies(not result, self.size == start_size and len(self.data) == start_data_length)',
                        'forall("i:int", lambda i: implies(0 <= i and i < len(self.data), self.data[i] == old(self.data[i])))',
                        'forall("k:int", lambda k: implies(0 <= k and k <= len(self.data), bsum(self.data, k) == old(bsum(self.data, k))))',
                        # the name table keeps exactly the entries that point below the rollback point
                        'implies(not result, forall("n:str", lambda n: self.names.has(n) == (old(self.names.has(n)) and old(self.names[n]) < start_size)))',
                        'implies(result, forall("n:str", lambda n: self.names.has(n) == old(self.names.has(n))))',
                        'forall("n:str", lambda n: implies(self.names.has(n), self.names[n] == old(self.names[n])))'],
               loops={0: Loop(inv=[
                   'forall("j:int", lambda j: implies(_k <= j and j < len(_it), self.names.has(_it[j])))',
                   'forall("j:int, m:int", lambda j, m: implies(0 <= j and j < m and m < len(_it), _it[j] != _it[m]))',
                   'forall("n:str", lambda n: self.names.has(n) == (old(self.names.has(n)) and not exists("j:int", lambda j: 0 <= j and j < _k and _it[j] == n)))',
                   'forall("n:str", lambda n: implies(self.names.has(n), self.names[n] == old(self.names[n])))',
                   'forall("j:int", lambda j: implies(0 <= j and j < len(_it), old(self.names.has(_it[j])) and old(self.names[_it[j]]) >= start_size))',
                   'forall("n:str", lambda n: implies(old(self.names.has(n)) and old(self.names[n]) >= start_size, exists("j:int", lambda j: 0 <= j and j < len(_it) and _it[j] == n)))',
               ], modifies=['self.names'])})
    R.contract(M, 'DNSOutgoing._write_question', P, params={'question': 'DNSQuestion'}, returns='bool',
               requires=['wf_out(self)', 'question is not None'],
               raises=ENTRY_RAISES, modifies=['self.data', 'self.size', 'self.names', 'self.allow_long'],
               ensures=ENTRY_POST[:4])
    R.contract(M, 'DNSOutgoing._write_record', P, params={'record': 'DNSRecord', 'now': 'real'}, returns='bool',
               requires=['wf_out(self)', 'record is not None'],
               raises=ENTRY_RAISES, modifies=['self.data', 'self.size', 'self.names', 'self.allow_long'],
               ensures=ENTRY_POST[:4],
               loops={0: Loop(inv=['length == bsum(self.data, index + 1 + _k) - bsum(self.data, index + 1)',
                                   'forall("j:int", lambda j: implies(0 <= j and j < len(_it), _it[j] == self.data[index + 1 + j]))',
                                   'len(_it) == len(self.data) - (index + 1)', 'index >= 0'],
                              lemmas=['bsum_unfold(self.data, index + 1 + _k)'], modifies=[])})
    sect = dict(returns='int', raises=ENTRY_RAISES,
                modifies=['self.data', 'self.size', 'self.names', 'self.allow_long'], ensures=SECTION_POST)
    INV = ['wf_out(self)', 'data_prefix_kept(self)', 'self.size >= old(self.size)',
           'self.size <= 1460 or (old(self.allow_long) and %s == 1 and self.size <= 8966) or (%s == 0 and self.size == old(self.size))',
           'implies(%s == 0, self.size == old(self.size) and len(self.data) == old(len(self.data)) and self.allow_long == old(self.allow_long))',
           'implies(%s > 0, not self.allow_long)', 'implies(not old(self.allow_long), not self.allow_long)', '%s == _k',
           'implies(%s > 0, len(self.data) > old(len(self.data)))']
    R.contract(M, 'DNSOutgoing._write_questions_from_offset', P, params={'questions_offset': 'int'},
               requires=['wf_out(self)', 'forall("j:int", lambda j: implies(0 <= j and j < len(self.questions), self.questions[j] is not None))'],
               loops={0: Loop(inv=[i.replace('%s', 'questions_written') for i in INV])}, **sect)
    R.contract(M, 'DNSOutgoing._write_answers_from_offset', P, params={'answer_offset': 'int'},
               requires=['wf_out(self)', 'forall("j:int", lambda j: implies(0 <= j and j < len(self.answers), self.answers[j][0] is not None))'],
               loops={0: Loop(inv=[i.replace('%s', 'answers_written') for i in INV])}, **sect)
    R.contract(M, 'DNSOutgoing._write_records_from_offset', P, params={'records': 'list[DNSRecord]', 'offset': 'int'},
               requires=['wf_out(self)', 'forall("j:int", lambda j: implies(0 <= j and j < len(records), records[j] is not None))'],
               loops={0: Loop(inv=[i.replace('%s', 'records_written') for i in INV])}, **sect)


# ---- packets() ------------------------------------------------------------------------------------------------
# ghost G: one tuple per datagram produced by this call:
#   (q_off, q_n, a_off, a_n, ns_off, ns_n, ar_off, ar_n, size, flags_written, more_to_add, id_written)
GT = 'tuple[int,int,int,int,int,int,int,int,int,int,int,int]'
TOT = 'G[p][1] + G[p][3] + G[p][5] + G[p][7]'


def install_packets(R):
    g0 = 'old(len(G))'
    pd0 = 'old(len(self.packets_data))'
    R.contract(M, 'DNSOutgoing._has_more_to_add', P,
               params={'questions_offset': 'int', 'answer_offset': 'int', 'authority_offset': 'int', 'additional_offset': 'int'},
               returns='bool',
               ensures=['result == (questions_offset < len(self.questions) or answer_offset < len(self.answers) '
                        'or authority_offset < len(self.authorities) or additional_offset < len(self.additionals))'])
    R.contract(M, 'DNSOutgoing._reset_for_next_packet', P, modifies=['self.names', 'self.data', 'self.size', 'self.allow_long'],
               ensures=['len(self.data) == 0', 'self.size == 12', 'self.allow_long', 'wf_out(self)',
                        'forall("n:str", lambda n: not self.names.has(n))'])
    R.contract(M, 'DNSOutgoing.is_query', P, returns='bool', ensures=['result == (mod(div(self.flags, 32768), 2) == 0)'])
    inv = [
        'packets_data is self.packets_data' if False else 'len(self.packets_data) == %s + len(G) - %s' % (pd0, g0),
        'len(G) >= %s' % g0,
        'forall("p:int", lambda p: implies(0 <= p and p < %s, G[p] == old(G[p])))' % g0,
        'forall("p:int", lambda p: implies(0 <= p and p < %s, self.packets_data[p] == old(self.packets_data[p])))' % pd0,
        # offsets: start at zero, each datagram continues where the previous one stopped
        'implies(len(G) == %s, questions_offset == 0 and answer_offset == 0 and authority_offset == 0 and additional_offset == 0)' % g0,
        'implies(len(G) > %s, G[%s][0] == 0 and G[%s][2] == 0 and G[%s][4] == 0 and G[%s][6] == 0)' % (g0, g0, g0, g0, g0),
        'forall("p:int", lambda p: implies(%s <= p and p + 1 < len(G), G[p + 1][0] == G[p][0] + G[p][1] and G[p + 1][2] == G[p][2] + G[p][3] '
        '   and G[p + 1][4] == G[p][4] + G[p][5] and G[p + 1][6] == G[p][6] + G[p][7]))' % g0,
        'implies(len(G) > %s, questions_offset == G[len(G) - 1][0] + G[len(G) - 1][1] and answer_offset == G[len(G) - 1][2] + G[len(G) - 1][3] '
        '   and authority_offset == G[len(G) - 1][4] + G[len(G) - 1][5] and additional_offset == G[len(G) - 1][6] + G[len(G) - 1][7])' % g0,
        '0 <= questions_offset and 0 <= answer_offset and 0 <= authority_offset and 0 <= additional_offset',
        # every datagram so far: its length, the size law, counts are non-negative, header words
        'forall("p:int", lambda p: implies(%s <= p and p < len(G), blen(self.packets_data[%s + p - %s]) == G[p][8] '
        '   and (G[p][8] <= 1460 or (%s == 1 and G[p][8] <= 8966)) and G[p][8] >= 12 '
        '   and G[p][1] >= 0 and G[p][3] >= 0 and G[p][5] >= 0 and G[p][7] >= 0))' % (g0, pd0, g0, TOT),
        # TC: set exactly on query datagrams that are followed by more, never on responses; all but the last are followed by more
        'forall("p:int", lambda p: implies(%s <= p and p < len(G), '
        '   G[p][9] == ite(G[p][10] == 1 and mod(div(self.flags, 32768), 2) == 0, self.flags + 512 * (1 - mod(div(self.flags, 512), 2)), self.flags) '
        '   and G[p][11] == ite(self.multicast, 0, self.id)))' % g0,
        'forall("p:int", lambda p: implies(%s <= p and p + 1 < len(G), G[p][10] == 1))' % g0,
        'implies(len(G) > %s and has_more_to_add, G[len(G) - 1][10] == 1)' % g0,
        'implies(len(G) > %s and not has_more_to_add, G[len(G) - 1][10] == 0)' % g0,
        # the builder is clean at the head of every iteration
        'implies(has_more_to_add, len(self.data) == 0 and self.size == 12 and self.allow_long and wf_out(self))',
        'implies(not has_more_to_add, questions_offset >= len(self.questions) and answer_offset >= len(self.answers) '
        '   and authority_offset >= len(self.authorities) and additional_offset >= len(self.additionals))',
        'packets_data_is_field',
    ]
    inv = [i for i in inv if i != 'packets_data_is_field']
    R.contract(M, 'DNSOutgoing.packets', P, returns='list[bytes]', result_alias=None,
               ghost={'G': 'list[%s]' % GT},
               requires=['forall("j:int", lambda j: implies(0 <= j and j < len(self.questions), self.questions[j] is not None))',
                         'forall("j:int", lambda j: implies(0 <= j and j < len(self.answers), self.answers[j][0] is not None))',
                         'forall("j:int", lambda j: implies(0 <= j and j < len(self.authorities), self.authorities[j] is not None))',
                         'forall("j:int", lambda j: implies(0 <= j and j < len(self.additionals), self.additionals[j] is not None))',
                         'len(self.questions) < 65536 and len(self.answers) < 65536 and len(self.authorities) < 65536 and len(self.additionals) < 65536',
                         '0 <= self.flags and self.flags < 65536 and 0 <= self.id and self.id < 65536',
                         # a builder that has not been finished is clean (constructor state)
                         'implies(self.state != 1, len(self.data) == 0 and self.size == 12 and self.allow_long and len(self.packets_data) == 0)'],
               raises=ENTRY_RAISES,
               modifies=['self.data', 'self.size', 'self.names', 'self.allow_long', 'self.state', 'self.packets_data', 'G'],
               at_calls={'packets_data.append': [
                   'len(self.data) >= 6',
                   'self.data[0] == pack2v(ite(self.multicast, 0, self.id))',
                   # TC only on queries that continue; never on responses
                   'self.data[1] == pack2v(ite(has_more_to_add and mod(div(self.flags, 32768), 2) == 0, '
                   '                           self.flags + 512 * (1 - mod(div(self.flags, 512), 2)), self.flags))',
                   'self.data[2] == pack2v(questions_written) and self.data[3] == pack2v(answers_written) '
                   'and self.data[4] == pack2v(authorities_written) and self.data[5] == pack2v(additionals_written)',
                   'ghost: G.append((questions_offset - questions_written, questions_written, answer_offset - answers_written, answers_written, '
                   'authority_offset - authorities_written, authorities_written, additional_offset - additionals_written, additionals_written, '
                   'self.size, (self.flags | 512) if (has_more_to_add and self.is_query()) else self.flags, 1 if has_more_to_add else 0, '
                   '0 if self.multicast else self.id))']},
               loops={0: Loop(inv=inv, modifies=['self.data', 'self.size', 'self.names', 'self.allow_long', 'self.packets_data', 'G'])},
               ensures=[
                   'implies(old(self.state) == 1, len(G) == %s)' % g0,
                   'self.state == 1',
                   # the size law for every datagram produced
                   'forall("p:int", lambda p: implies(%s <= p and p < len(G), blen(self.packets_data[%s + p - %s]) == G[p][8] '
                   '   and (G[p][8] <= 1460 or (%s == 1 and G[p][8] <= 8966))))' % (g0, pd0, g0, TOT),
                   'len(self.packets_data) == %s + len(G) - %s' % (pd0, g0),
                   # consecutive ranges starting at zero ...
                   'implies(len(G) > %s, G[%s][0] == 0 and G[%s][2] == 0 and G[%s][4] == 0 and G[%s][6] == 0)' % (g0, g0, g0, g0, g0),
                   'forall("p:int", lambda p: implies(%s <= p and p + 1 < len(G), G[p + 1][0] == G[p][0] + G[p][1] and G[p + 1][2] == G[p][2] + G[p][3] '
                   '   and G[p + 1][4] == G[p][4] + G[p][5] and G[p + 1][6] == G[p][6] + G[p][7]))' % g0,
                   # ... ending at the section lengths unless a single entry could not be written at all
                   'implies(len(G) > %s and G[len(G) - 1][10] == 0, G[len(G) - 1][0] + G[len(G) - 1][1] >= len(self.questions) '
                   '   and G[len(G) - 1][2] + G[len(G) - 1][3] >= len(self.answers) and G[len(G) - 1][4] + G[len(G) - 1][5] >= len(self.authorities) '
                   '   and G[len(G) - 1][6] + G[len(G) - 1][7] >= len(self.additionals))' % g0,
                   'implies(len(G) > %s and G[len(G) - 1][10] == 1, %s == 0)' % (g0, TOT.replace('[p]', '[len(G) - 1]')),
                   # TC flag and message id
                   'forall("p:int", lambda p: implies(%s <= p and p < len(G), '
                   '   G[p][9] == ite(G[p][10] == 1 and mod(div(self.flags, 32768), 2) == 0, self.flags + 512 * (1 - mod(div(self.flags, 512), 2)), self.flags) '
                   '   and G[p][11] == ite(self.multicast, 0, self.id)))' % g0,
                   'forall("p:int", lambda p: implies(%s <= p and p + 1 < len(G), G[p][10] == 1))' % g0,
               ])
    R.spec('pack2v', [('v', 'int')], 'bytes', lambda ex, st, v: Sc(pack2(ex.num(v, st)[0]), BYTES))


# ---- concrete harness ------------------------------------------------------------------------------------------
def _mk_out(g, big=False):
    from zeroconf._protocol.outgoing import DNSOutgoing
    from zeroconf._dns import DNSText, DNSQuestion
    from zeroconf import const as c
    r = g.rng
    flags = r.choice([0, 0x8400, 0x0400, 0x8000, 0x0200])
    out = DNSOutgoing(flags, r.random() < 0.6, r.choice([0, 1, 0x1234]))
    for _ in range(r.randint(0, 3)):
        out.add_question(g.question())
    for _ in range(r.randint(0, 3)):
        out.add_answer_at_time(g.record(), r.choice([0, 0, 1000.0]))
    for _ in range(r.randint(0, 2)):
        out.add_authorative_answer(g.record(['PTR']))
    for _ in range(r.randint(0, 2)):
        out.add_additional_answer(g.record())
    if big or r.random() < 0.35:
        n = r.choice([1300, 1500, 5000, 8900, 9100])
        rec = DNSText(r.choice(['big.local.', 'a.local.']), c._TYPE_TXT, c._CLASS_IN, 120, b'x' * n, 1000.0)
        where = r.choice(['answers', 'additionals', 'first'])
        if where == 'first':
            out.answers.insert(0, (rec, 0))
        elif where == 'answers':
            out.answers.append((rec, 0))
        else:
            out.additionals.append(rec)
    return out


def _partially_written(g):
    """a builder in the middle of a packet: some entries already written by the real code"""
    out = _mk_out(g)
    for q in out.questions[: g.rng.randint(0, 2)]:
        out._write_question(q)
    if g.rng.random() < 0.5:
        for a, t in out.answers[:1]:
            out._write_record(a, t)
    return out


def _g_self_only(g):
    return {'self': _partially_written(g)}


def install_generators(R):
    def gen_with(**fixed):
        def f(g):
            d = {'self': _partially_written(g)}
            for k, v in fixed.items():
                d[k] = v(g)
            return d
        return f
    names = ['a.local.', 'A.local.', 'inst._x._tcp.local.', 'x' * 64 + '.local.', 'x' * 65 + '.local.', 'local.', 'é.local.']
    G = R.generators
    G[(M, 'DNSOutgoing._write_byte')] = gen_with(value=lambda g: g.rng.choice([0, 1, 255, 256, -1, -256, -257, 192]))
    G[(M, 'DNSOutgoing._get_short')] = gen_with(value=lambda g: g.rng.choice([0, 1, 127, 128, 65535, 65536, -1, -128, -129]))
    G[(M, 'DNSOutgoing.write_short')] = gen_with(value=lambda g: g.rng.choice([0, 1, 127, 128, 65535, 65536, -1, -128, -129]))
    G[(M, 'DNSOutgoing._write_int')] = gen_with(value=lambda g: g.rng.choice([0, 120, 4500, 1, 0.5, -0.5, -1, 4294967295, 4294967296, 77.9]))
    G[(M, 'DNSOutgoing.write_string')] = gen_with(value=lambda g: g.rng.choice([b'', b'abc', b'x' * 300]))
    G[(M, 'DNSOutgoing._write_utf')] = gen_with(s=lambda g: g.rng.choice(['', 'a', 'x' * 63, 'x' * 64, 'x' * 65, 'é' * 32, 'é' * 33]))
    G[(M, 'DNSOutgoing.write_character_string')] = gen_with(value=lambda g: g.rng.choice([b'', b'a', b'x' * 255, b'x' * 256, b'x' * 257]))
    G[(M, 'DNSOutgoing._write_link_to_name')] = gen_with(index=lambda g: g.rng.choice([12, 13, 255, 256, 16383, 16384, 20000]))
    G[(M, 'DNSOutgoing.write_name')] = gen_with(name=lambda g: g.rng.choice(names))
    G[(M, 'DNSOutgoing._write_record_class')] = gen_with(record=lambda g: g.record())
    G[(M, 'DNSOutgoing._write_ttl')] = gen_with(record=lambda g: g.record(), now=lambda g: g.rng.choice([0, 0.0, 1000.0, 500000.0]))
    G[(M, 'DNSOutgoing._write_question')] = gen_with(question=lambda g: g.question())
    G[(M, 'DNSOutgoing._write_record')] = gen_with(record=lambda g: g.record(), now=lambda g: g.rng.choice([0, 1000.0]))
    G[(M, 'DNSOutgoing._replace_short')] = lambda g: _gen_replace(g)
    G[(M, 'DNSOutgoing._insert_short_at_start')] = gen_with(value=lambda g: g.rng.choice([0, 5, 65535, 65536, -1]))
    G[(M, 'DNSOutgoing._check_data_limit_or_rollback')] = _gen_rollback
    G[(M, 'DNSOutgoing._write_questions_from_offset')] = lambda g: {'self': _fresh_or_partial(g), 'questions_offset': g.rng.randint(0, 3)}
    G[(M, 'DNSOutgoing._write_answers_from_offset')] = lambda g: {'self': _fresh_or_partial(g), 'answer_offset': g.rng.randint(0, 3)}
    G[(M, 'DNSOutgoing._write_records_from_offset')] = _gen_records_from
    G[(M, 'DNSOutgoing._has_more_to_add')] = lambda g: dict(self=_mk_out(g), questions_offset=g.rng.randint(0, 3), answer_offset=g.rng.randint(0, 4),
                                                           authority_offset=g.rng.randint(0, 2), additional_offset=g.rng.randint(0, 3))
    G[(M, 'DNSOutgoing._reset_for_next_packet')] = _g_self_only
    G[(M, 'DNSOutgoing.is_query')] = lambda g: {'self': _mk_out(g)}
    G[(M, 'DNSOutgoing.packets')] = _gen_packets
    for cls in ('DNSAddress', 'DNSText', 'DNSPointer', 'DNSHinfo', 'DNSService', 'DNSNsec'):
        kinds = {'DNSAddress': ['A', 'AAAA'], 'DNSText': ['TXT'], 'DNSPointer': ['PTR'], 'DNSHinfo': ['HINFO'],
                 'DNSService': ['SRV'], 'DNSNsec': ['NSEC']}[cls]
        G[('zeroconf._dns', cls + '.write')] = (lambda kinds: lambda g: {'self': g.record(kinds), 'out': _partially_written(g)})(kinds)


def _fresh_or_partial(g):
    return _mk_out(g) if g.rng.random() < 0.6 else _partially_written(g)


def _gen_replace(g):
    out = _partially_written(g)
    out.write_short(0)
    idx = len(out.data) - 1
    out.write_string(b'abc')
    return {'self': out, 'index': idx, 'value': g.rng.choice([0, 3, 65535, 65536])}


def _gen_rollback(g):
    out = _partially_written(g)
    sdl, ss = len(out.data), out.size
    out.allow_long = g.rng.random() < 0.5
    if g.rng.random() < 0.8:
        out.write_name(g.rng.choice(['a.local.', 'q.x.local.']))
        out.write_string(b'y' * g.rng.choice([1, 1400, 1500, 9000]))
    return {'self': out, 'start_data_length': sdl, 'start_size': ss}


def _gen_records_from(g):
    out = _fresh_or_partial(g)
    recs = out.additionals if g.rng.random() < 0.5 else out.authorities
    return {'self': out, 'records': recs, 'offset': g.rng.randint(0, 2)}


def _gen_packets(g):
    out = _mk_out(g, big=g.rng.random() < 0.3)
    G_ = []

    def ghost(kw, res):
        o = kw['self']
        qo = ao = no = do = 0
        n = len(o.packets_data)
        for k, pkt in enumerate(o.packets_data):
            u16 = lambda i: (pkt[i] << 8) | pkt[i + 1]
            q, a, ns, ar = u16(4), u16(6), u16(8), u16(10)
            more = 1 if k + 1 < n else (1 if (qo + q < len(o.questions) or ao + a < len(o.answers) or no + ns < len(o.authorities)
                                             or do + ar < len(o.additionals)) else 0)
            G_.append((qo, q, ao, a, no, ns, do, ar, len(pkt), u16(2), more, u16(0)))
            qo, ao, no, do = qo + q, ao + a, no + ns, do + ar
        return {}
    return {'self': out, '__env__': {'G': G_}, '__ghost_out__': ghost}
