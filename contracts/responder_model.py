"""Query handler (responder) contracts: strategies, known-answer suppression, additionals (C03; reused by C11/C12)."""
import z3
from pyvc.contracts import Loop, View
from pyvc.core import Sc, RefV, NoneV, PyConst, FuncV, Cont, TupleV, fresh
from pyvc.types import T, INT, REAL, BOOL, STR, Ref, ref

P = 'C03'
Q = 'zeroconf._handlers.query_handler'
ENUM = '"_services._dns-sd._udp.local."'


def _empty_list(tstr):
    from pyvc.types import parse_type

    def mk(ex, st, frame):
        t = parse_type(tstr)
        return ex.new_cont(t, st)
    return mk


def install_strategies(R):
    R.shape('QueryHandler', {'zc': 'Zeroconf', 'registry': 'ServiceRegistry', 'cache': 'DNSCache'})
    R.shape('_AnswerStrategy', {'question': 'DNSQuestion', 'strategy_type': 'int', 'types': 'list[str]',
                                'services': 'list[ServiceInfo]'})
    R.shape('Zeroconf', {})
    R.stubs[Q + ':_EMPTY_SERVICES_LIST'] = _empty_list('list[ServiceInfo]')
    R.stubs[Q + ':_EMPTY_TYPES_LIST'] = _empty_list('list[str]')
    g = 'self.registry'
    n = 'lower(question.name)'
    t = 'question.type'
    hasP = '((%s == 12 or %s == 255) and exists("k:str", lambda k: %s._services.has(k) and lower(%s._services[k].type) == %s))' % (t, t, g, g, n)
    hasA = '((%s == 1 or %s == 28 or %s == 255) and exists("k:str", lambda k: %s._services.has(k) and %s._services[k].server_key == %s))' % (t, t, t, g, g, n)
    hasS = '((%s == 33 or %s == 255) and %s._services.has(%s))' % (t, t, g, n)
    hasT = '((%s == 16 or %s == 255) and %s._services.has(%s))' % (t, t, g, n)
    enum = '(%s == 12 and %s == %s)' % (t, n, ENUM)
    b = lambda e: 'ite(%s, 1, 0)' % e
    R.contract(Q, 'QueryHandler._get_answer_strategies', P, params={'question': 'DNSQuestion'},
               returns='list[_AnswerStrategy]',
               requires=['wf_reg(self.registry)', 'self.registry is not None', 'question is not None'],
               modifies=['_AnswerStrategy.question[*]', '_AnswerStrategy.strategy_type[*]', '_AnswerStrategy.types[*]',
                         '_AnswerStrategy.services[*]'],
               ensures=[
                   'forall("j:int", lambda j: implies(0 <= j and j < len(result), result[j] is not None and fresh_obj(result[j]) '
                   '   and result[j].question is question))',
                   # type enumeration: one strategy listing every registered type, or none when nothing is registered
                   'implies(%s, len(result) == ite(card(%s.types) > 0, 1, 0))' % (enum, g),
                   'implies(%s and len(result) == 1, result[0].strategy_type == 0 and len(result[0].services) == 0 '
                   '   and forall("j:int", lambda j: implies(0 <= j and j < len(result[0].types), %s.types.has(result[0].types[j]))) '
                   '   and forall("s:str", lambda s: implies(%s.types.has(s), exists("j:int", lambda j: 0 <= j and j < len(result[0].types) and result[0].types[j] == s))))' % (enum, g, g),
                   # every other question: one strategy per (question type, non-empty index hit), in this order
                   'implies(not %s, len(result) == %s + %s + %s + %s)' % (enum, b(hasP), b(hasA), b(hasS), b(hasT)),
                   'implies(not %s, forall("j:int", lambda j: implies(0 <= j and j < len(result), '
                   '   (result[j].strategy_type == 1 and %s) or (result[j].strategy_type == 2 and %s) '
                   '   or (result[j].strategy_type == 3 and %s) or (result[j].strategy_type == 4 and %s))))' % (enum, hasP, hasA, hasS, hasT),
                   'implies(not %s, forall("j:int, m:int", lambda j, m: implies(0 <= j and j < m and m < len(result), '
                   '   result[j].strategy_type < result[m].strategy_type)))' % enum,
                   # the services attached to each strategy are exactly the index hits (lower-cased question name)
                   'implies(not %s, forall("j:int", lambda j: implies(0 <= j and j < len(result) and result[j].strategy_type == 1, '
                   '   forall("p:int", lambda p: implies(0 <= p and p < len(result[j].services), registered(%s, result[j].services[p]) '
                   '        and lower(result[j].services[p].type) == %s)) '
                   '   and forall("k:str", lambda k: implies(%s._services.has(k) and lower(%s._services[k].type) == %s, '
                   '        exists("p:int", lambda p: 0 <= p and p < len(result[j].services) and result[j].services[p] is %s._services[k]))))))'
                   % (enum, g, n, g, g, n, g),
                   'implies(not %s, forall("j:int", lambda j: implies(0 <= j and j < len(result) and result[j].strategy_type == 2, '
                   '   forall("p:int", lambda p: implies(0 <= p and p < len(result[j].services), registered(%s, result[j].services[p]) '
                   '        and result[j].services[p].server_key == %s)) '
                   '   and forall("k:str", lambda k: implies(%s._services.has(k) and %s._services[k].server_key == %s, '
                   '        exists("p:int", lambda p: 0 <= p and p < len(result[j].services) and result[j].services[p] is %s._services[k]))))))'
                   % (enum, g, n, g, g, n, g),
                   'implies(not %s, forall("j:int", lambda j: implies(0 <= j and j < len(result) and result[j].strategy_type >= 3, '
                   '   len(result[j].services) == 1 and result[j].services[0] is %s._services[%s])))' % (enum, g, n),
               ])


def mk_handler(g):
    from contracts.registry_model import mk_registry
    from zeroconf._handlers.query_handler import QueryHandler
    from zeroconf._cache import DNSCache
    from zeroconf._history import QuestionHistory

    class ZC:
        pass
    zc = ZC()
    zc.registry = mk_registry(g)
    zc.cache = DNSCache()
    zc.question_history = QuestionHistory()
    zc.out_queue = None
    zc.out_delay_queue = None
    return QueryHandler(zc)


def install_generators(R):
    from zeroconf._dns import DNSQuestion

    def g_strat(g):
        h = mk_handler(g)
        names = ['_services._dns-sd._udp.local.', '_SERVICES._dns-sd._udp.local.', '_x._tcp.local.', '_X._TCP.local.',
                 'a._x._tcp.local.', 'A._X._tcp.local.', 'host.local.', 'HOST.LOCAL.', 'h2.local.', 'nobody.local.']
        q = DNSQuestion(g.rng.choice(names), g.rng.choice([12, 1, 28, 33, 16, 255, 47, 99]), 1)
        return {'self': h, 'question': q}
    R.generators[(Q, 'QueryHandler._get_answer_strategies')] = g_strat


def install_rrset(R):
    D = 'zeroconf._dns'
    R.shape('DNSRRSet', {'_records': 'list[DNSRecord]', '_lookup': 'opt[dict[DNSRecord, DNSRecord]]'})
    # the lookup table maps an identity to the LAST listed record of that identity
    LOOK = ('forall("i:ident", lambda i: {L}.has(i) == exists("j:int", lambda j: 0 <= j and j < len(self._records) and ident(self._records[j]) == i)) and '
            'forall("i:ident", lambda i: implies({L}.has(i), exists("j:int", lambda j: 0 <= j and j < len(self._records) and {L}[i] is self._records[j] '
            '   and ident(self._records[j]) == i)))')
    R.spec('rrset_ok', [('self', 'DNSRRSet')], 'bool',
           'forall("j:int", lambda j: implies(0 <= j and j < len(self._records), self._records[j] is not None)) and '
           'implies(self._lookup is not None, %s)' % LOOK.format(L='self._lookup'))
    R.contract(D, 'DNSRRSet._get_lookup', P, returns='dict[DNSRecord, DNSRecord]', result_alias='self._lookup',
               requires=['rrset_ok(self)'], modifies=['self._lookup'],
               ensures=['self._lookup is not None', 'rrset_ok(self)', 'list_eq(self._records, old(self._records))'])
    R.contract(D, 'DNSRRSet.suppresses', P, params={'record': 'DNSRecord'}, returns='bool',
               requires=['rrset_ok(self)', 'record is not None'], modifies=['self._lookup'],
               ensures=['rrset_ok(self)',
                        # suppressed only by a listed record of the same identity with more than half the TTL
                        'implies(result, exists("j:int", lambda j: 0 <= j and j < len(self._records) and ident(self._records[j]) == ident(record) '
                        '   and self._records[j].ttl > record.ttl / 2))',
                        # never suppressed when no listed record has that identity, or none of them has more than half
                        'implies(not exists("j:int", lambda j: 0 <= j and j < len(self._records) and ident(self._records[j]) == ident(record) '
                        '   and self._records[j].ttl > record.ttl / 2), not result)',
                        # a single listed record of that identity decides
                        'implies(forall("j:int, m:int", lambda j, m: implies(0 <= j and j < len(self._records) and 0 <= m and m < len(self._records) '
                        '   and ident(self._records[j]) == ident(record) and ident(self._records[m]) == ident(record), j == m)), '
                        '   result == exists("j:int", lambda j: 0 <= j and j < len(self._records) and ident(self._records[j]) == ident(record) '
                        '   and self._records[j].ttl > record.ttl / 2))'])




def install_answers(R):
    """The per-strategy answer builders: which records answer a strategy (C03), with the service's OWN current records
    (record builders of contracts/c09.py: memo soundness) minus known answers with more than half the TTL."""
    AT = 'dict[DNSRecord, set[DNSRecord]]'
    KEYS = 'forall("i:ident", lambda i: implies(answer_set.has(i), answer_set.keyobj(i) is not None and ident(answer_set.keyobj(i)) == i))'
    SVC_OK = ('forall("j:int", lambda j: implies(0 <= j and j < len(services), services[j] is not None and allocated(services[j]) and memo_ok(services[j]) '
              '   and services[j].other_ttl >= 0 and services[j].host_ttl >= 0))')
    KNOWN = ('exists("m:int", lambda m: 0 <= m and m < len(known_answers._records) and ident(known_answers._records[m]) == %s '
             'and known_answers._records[m].ttl > %s / 2)')
    PI = 'ptr_ident(services[j])'
    from pyvc.types import IDENT, lower
    from contracts.records import mk_ident, rd_cons
    rd_ptr = rd_cons('RD_Ptr')[0]
    R.spec('ptrid', [('name', 'str'), ('alias', 'str')], 'ident',
           lambda ex, st, name, alias: Sc(mk_ident(z3.IntVal(3), lower(ex.term(name, st)), z3.IntVal(12), z3.IntVal(1), rd_ptr(lower(ex.term(alias, st)))), IDENT),
           concrete=_c_ptrid)
    R.spec('ptr_ident', [('s', 'ServiceInfo')], 'ident', 'ptrid(s.type, s._name)')
    MODS = ['answer_set', 'known_answers._lookup', 'ServiceInfo._dns_pointer_cache[*]', 'ServiceInfo._dns_service_cache[*]', 'ServiceInfo._dns_text_cache[*]']
    R.contract(Q, 'QueryHandler._add_pointer_answers', P,
               params={'services': 'list[ServiceInfo]', 'answer_set': AT, 'known_answers': 'DNSRRSet'},
               requires=[SVC_OK, KEYS, 'known_answers is not None and rrset_ok(known_answers)'],
               modifies=MODS,
               ensures=[KEYS, 'rrset_ok(known_answers)',
                        'forall("i:ident", lambda i: implies(old(answer_set.has(i)), answer_set.has(i)))',
                        # only pointers of the given services are offered: <type> -> <instance>, class IN without cache-flush, the service\'s TTL
                        'forall("i:ident", lambda i: implies(answer_set.has(i) and not old(answer_set.has(i)), exists("j:int", lambda j: 0 <= j and j < len(services) '
                        '   and i == %s and cls_is(answer_set.keyobj(i), DNSPointer) and answer_set.keyobj(i).ttl == services[j].other_ttl '
                        '   and as_(answer_set.keyobj(i), DNSPointer).alias == services[j]._name and answer_set.keyobj(i).name == services[j].type '
                        '   and not answer_set.keyobj(i).unique)))' % PI,
                        # and every one of them, unless the querier lists it as known with more than half of that TTL
                        'forall("j:int", lambda j: implies(0 <= j and j < len(services) and not %s, answer_set.has(%s)))' % (KNOWN % (PI, 'services[j].other_ttl'), PI),
                        # additionals of a pointer: only that service's own SRV, TXT, address and NSEC records
                        'forall("i:ident, k:ident", lambda i, k: implies(answer_set.has(i) and not old(answer_set.has(i)) and answer_set[i].has(k), exists("j:int", lambda j: 0 <= j and j < len(services) and i == ptr_ident(services[j])    and (answer_set[i].keyobj(k) is services[j]._dns_service_cache or answer_set[i].keyobj(k) is services[j]._dns_text_cache         or ((k.type == 1 or k.type == 28 or k.type == 47) and answer_set[i].keyobj(k) is not None and answer_set[i].keyobj(k).ttl == services[j].host_ttl)))))'],
               loops={0: Loop(inv=[KEYS, 'rrset_ok(known_answers)', SVC_OK.replace('services[j]', '_it0[j]').replace('len(services)', 'len(_it0)'), 'list_eq(_it0, services)',
                                   'forall("i:ident", lambda i: implies(old(answer_set.has(i)), answer_set.has(i)))',
                                   'forall("i:ident", lambda i: implies(answer_set.has(i) and not old(answer_set.has(i)), exists("j:int", lambda j: 0 <= j and j < _k0 '
                                   '   and i == %s and cls_is(answer_set.keyobj(i), DNSPointer) and answer_set.keyobj(i).ttl == services[j].other_ttl '
                                   '   and as_(answer_set.keyobj(i), DNSPointer).alias == services[j]._name and answer_set.keyobj(i).name == services[j].type '
                                   '   and not answer_set.keyobj(i).unique)))' % PI,
                                   'forall("j:int", lambda j: implies(0 <= j and j < _k0 and not %s, answer_set.has(%s)))' % (KNOWN % (PI, 'services[j].other_ttl'), PI),
                                   'forall("i:ident, k:ident", lambda i, k: implies(answer_set.has(i) and not old(answer_set.has(i)) and answer_set[i].has(k), exists("j:int", lambda j: 0 <= j and j < _k0 and i == ptr_ident(services[j])    and (answer_set[i].keyobj(k) is services[j]._dns_service_cache or answer_set[i].keyobj(k) is services[j]._dns_text_cache         or ((k.type == 1 or k.type == 28 or k.type == 47) and answer_set[i].keyobj(k) is not None and answer_set[i].keyobj(k).ttl == services[j].host_ttl)))))',
                                   'list_eq(known_answers._records, old(known_answers._records))',
                                   'forall("j:int", lambda j: implies(0 <= j and j < len(services), services[j].other_ttl == old(services[j].other_ttl) '
                                   '   and services[j]._name == old(services[j]._name) and services[j].type == old(services[j].type)))'],
                              modifies=MODS)})

    # ---- type enumeration: one PTR  _services._dns-sd._udp.local. -> <type>  per listed type, TTL 4500 ------------------------------------
    EI = 'ptrid(%s, types[j])' % ENUM
    NEWE = ('forall("i:ident", lambda i: implies(answer_set.has(i) and not old(answer_set.has(i)), exists("j:int", lambda j: 0 <= j and j < %s '
            '   and i == %s and cls_is(answer_set.keyobj(i), DNSPointer) and answer_set.keyobj(i).ttl == 4500 '
            '   and as_(answer_set.keyobj(i), DNSPointer).alias == types[j] and not answer_set.keyobj(i).unique)))')
    ALLE = 'forall("j:int", lambda j: implies(0 <= j and j < %s and not %s, answer_set.has(%s)))'
    R.contract(Q, 'QueryHandler._add_service_type_enumeration_query_answers', P,
               params={'types': 'list[str]', 'answer_set': AT, 'known_answers': 'DNSRRSet'},
               requires=[KEYS, 'known_answers is not None and rrset_ok(known_answers)'],
               modifies=['answer_set', 'known_answers._lookup'],
               ensures=[KEYS, 'rrset_ok(known_answers)', 'forall("i:ident", lambda i: implies(old(answer_set.has(i)), answer_set.has(i)))',
                        NEWE % ('len(types)', EI), ALLE % ('len(types)', KNOWN % (EI, '4500'), EI)],
               loops={0: Loop(inv=[KEYS, 'rrset_ok(known_answers)', 'list_eq(_it0, types)',
                                   'forall("i:ident", lambda i: implies(old(answer_set.has(i)), answer_set.has(i)))',
                                   NEWE % ('_k0', EI), ALLE % ('_k0', KNOWN % (EI, '4500'), EI),
                                   'list_eq(known_answers._records, old(known_answers._records))'],
                              modifies=['answer_set', 'known_answers._lookup'])})
    # ---- address answers ------------------------------------------------------------------------------------------------------------------
    I_ = 'zeroconf._services.info'
    from pyvc.types import Ref as _Ref
    _hat = z3.Function('has_addr_type', _Ref, z3.IntSort(), z3.BoolSort())
    R.spec('has_addr_type', [('s', 'ServiceInfo'), ('t', 'int')], 'bool',
           lambda ex, st, s, t: Sc(_hat(s.term, ex.num(t, st)[0]), BOOL),
           concrete=lambda s, t: any(a.type == t for a in s._dns_addresses(None, __import__('zeroconf')._utils.net.IPVersion.All)))
    R.contract(I_, 'ServiceInfo._dns_addresses', P, params={'override_ttl': 'optint', 'version': 'object'}, returns='list[DNSAddress]',
               trusted=True, modifies=[], raises={},
               ensures=['forall("j:int", lambda j: implies(0 <= j and j < len(result), result[j] is not None and cls_is(result[j], DNSAddress) '
                        '   and allocated(result[j]) and (result[j].type == 1 or result[j].type == 28) and result[j].class_ == 1 and result[j].unique '
                        '   and result[j].ttl == ttl_or(override_ttl, self.host_ttl) and result[j].key == self.server_key))',
                        # has_addr_type(s, t): the service has an address of record type t (ghost name for what this list shows)
                        'has_addr_type(self, 1) == exists("j:int", lambda j: 0 <= j and j < len(result) and result[j].type == 1)',
                        'has_addr_type(self, 28) == exists("j:int", lambda j: 0 <= j and j < len(result) and result[j].type == 28)'],
               note='list comprehension over ipaddress objects (outside the engine): one DNSAddress per address of the host, named after the server, '
                    'type A or AAAA, class IN with cache-flush, host TTL or the override')
    R.contract(I_, 'ServiceInfo._dns_nsec', P, params={'missing_types': 'list[int]', 'override_ttl': 'optint'}, returns='DNSNsec',
               trusted=True, modifies=[], raises={},
               ensures=['result is not None and fresh_obj(result) and cls_is(result, DNSNsec) and result.type == 47 and result.unique',
                        'result.ttl == ttl_or(override_ttl, self.host_ttl) and result.name == self._name'],
               note='one DNSNsec constructor call (rdtypes list outside the record model)')
    R.stubs[Q + ':_IPVersion_ALL'] = lambda ex, st, frame: PyConst('IPVersion.All')
    NEWA = ('forall("i:ident", lambda i: implies(answer_set.has(i) and not old(answer_set.has(i)), exists("j:int", lambda j: 0 <= j and j < %s '
            '   and answer_set.keyobj(i).ttl == services[j].host_ttl and answer_set.keyobj(i).unique '
            '   and ((i.type == type_ and (i.type == 1 or i.type == 28) and i.key == services[j].server_key) or (i.type == 47 and i.key == lower(services[j]._name) and (type_ == 1 or type_ == 28) and not has_addr_type(services[j], type_))))))')
    AMODS = ['answer_set', 'known_answers._lookup']
    R.contract(Q, 'QueryHandler._add_address_answers', P,
               params={'services': 'list[ServiceInfo]', 'answer_set': AT, 'known_answers': 'DNSRRSet', 'type_': 'int'},
               requires=[SVC_OK, KEYS, 'known_answers is not None and rrset_ok(known_answers)',
                         'forall("j:int", lambda j: implies(0 <= j and j < len(services), services[j].server is not None))'],
               modifies=AMODS, raises={},
               ensures=[KEYS, 'rrset_ok(known_answers)', 'forall("i:ident", lambda i: implies(old(answer_set.has(i)), answer_set.has(i)))',
                        # only address records of the asked type (or the NSEC record saying that type does not exist) of the given services, host TTL
                        NEWA % 'len(services)'],
               loops={0: Loop(inv=[KEYS, 'rrset_ok(known_answers)', 'list_eq(_it0, services)',
                                   'forall("i:ident", lambda i: implies(old(answer_set.has(i)), answer_set.has(i)))', NEWA % '_k0',
                                   'list_eq(known_answers._records, old(known_answers._records))'],
                              modifies=AMODS),
                      1: Loop(inv=['rrset_ok(known_answers)', 'list_eq(known_answers._records, old(known_answers._records))',
                                   'forall("m:int", lambda m: implies(0 <= m and m < len(answers), answers[m] is not None and cls_is(answers[m], DNSAddress) '
                                   '   and allocated(answers[m]) and answers[m].type == type_ and answers[m].unique '
                                   '   and answers[m].ttl == service.host_ttl and answers[m].key == service.server_key))',
                                   'implies(len(answers) > 0, type_ == 1 or type_ == 28)',
                                   'seen_types.has(1) == exists("m:int", lambda m: 0 <= m and m < _k1 and _it1[m].type == 1)',
                                   'seen_types.has(28) == exists("m:int", lambda m: 0 <= m and m < _k1 and _it1[m].type == 28)',
                                   'has_addr_type(service, 1) == exists("m:int", lambda m: 0 <= m and m < len(_it1) and _it1[m].type == 1)',
                                   'has_addr_type(service, 28) == exists("m:int", lambda m: 0 <= m and m < len(_it1) and _it1[m].type == 28)'],
                              modifies=['answers', 'additionals', 'seen_types', 'known_answers._lookup']),
                      2: Loop(inv=[KEYS, 'rrset_ok(known_answers)', 'forall("i:ident", lambda i: implies(old(answer_set.has(i)), answer_set.has(i)))',
                                   (NEWA % '_k0 + 1')],
                              modifies=['answer_set'])})
    # ---- the dispatch ------------------------------------------------------------------------------------------------------------------------
    S0 = 'services[0]'
    KN_SRV = KNOWN % ('ident(%s._dns_service_cache)' % S0, '%s.host_ttl' % S0)
    KN_TXT = KNOWN % ('ident(%s._dns_text_cache)' % S0, '%s.other_ttl' % S0)
    R.contract(Q, 'QueryHandler._answer_question', P,
               params={'question': 'DNSQuestion', 'strategy_type': 'int', 'types': 'list[str]', 'services': 'list[ServiceInfo]', 'known_answers': 'DNSRRSet'},
               returns=AT,
               requires=[SVC_OK, 'question is not None', 'known_answers is not None and rrset_ok(known_answers)', '0 <= strategy_type and strategy_type <= 4',
                         'implies(strategy_type >= 3, len(services) == 1)'],
               modifies=[m for m in MODS if m != 'answer_set'],
               ensures=[KEYS.replace('answer_set', 'result'), 'rrset_ok(known_answers)',
                        # type enumeration
                        'implies(strategy_type == 0, %s and %s)' % ((NEWE % ('len(types)', EI)).replace('not old(answer_set.has(i))', 'True').replace('answer_set', 'result'),
                                                                    (ALLE % ('len(types)', KNOWN % (EI, '4500'), EI)).replace('answer_set', 'result')),
                        # PTR: the pointers of the given services, each with its own SRV, TXT and address/NSEC records as additionals
                        'implies(strategy_type == 1, forall("i:ident", lambda i: implies(result.has(i), exists("j:int", lambda j: 0 <= j and j < len(services) '
                        '   and i == %s and cls_is(result.keyobj(i), DNSPointer) and result.keyobj(i).ttl == services[j].other_ttl '
                        '   and as_(result.keyobj(i), DNSPointer).alias == services[j]._name and not result.keyobj(i).unique))))' % PI,
                        'implies(strategy_type == 1, forall("j:int", lambda j: implies(0 <= j and j < len(services) and not %s, result.has(%s))))'
                        % (KNOWN % (PI, 'services[j].other_ttl'), PI),
                        # SRV: the service's own SRV record with the host TTL and the cache-flush class, unless known
                        'implies(strategy_type == 3, %s._dns_service_cache is not None and forall("i:ident", lambda i: implies(result.has(i), '
                        '   result.keyobj(i) is %s._dns_service_cache)))' % (S0, S0),
                        'implies(strategy_type == 3 and not %s, result.has(ident(%s._dns_service_cache)))' % (KN_SRV, S0),
                        # TXT likewise, with the other TTL and no additionals
                        'implies(strategy_type == 4, %s._dns_text_cache is not None and forall("i:ident", lambda i: implies(result.has(i), '
                        '   result.keyobj(i) is %s._dns_text_cache)))' % (S0, S0),
                        'implies(strategy_type == 4 and not %s, result.has(ident(%s._dns_text_cache)))' % (KN_TXT, S0)])


def _c_ptrid(name, alias):
    from pyvc.concrete import IdentV, mk_rdata
    return IdentV(3, name.lower(), 12, 1, mk_rdata(('alias_key',), (alias.lower(),)))


def install_answer_generators(R):
    from contracts.registry_model import mk_registry
    from zeroconf._dns import DNSRRSet, DNSPointer
    I = 'zeroconf._services.info'

    def g_info(g):
        infos = []
        while not infos:
            infos = list(mk_registry(g)._services.values())
        s = g.rng.choice(infos)
        for nm in ('dns_pointer', 'dns_service', 'dns_text'):
            if g.rng.random() < 0.4:
                getattr(s, nm)()            # memo filled by a real earlier call
        return s

    def g_builder(g):
        s = g_info(g)
        return {'self': s, 'override_ttl': g.rng.choice([None, None, 0, 7, 120])}
    for nm in ('dns_pointer', 'dns_service', 'dns_text'):
        R.generators[(I, 'ServiceInfo.' + nm)] = g_builder
        R.generators[(I, 'ServiceInfo._' + nm)] = g_builder

    def g_setname(g):
        s = g_info(g)
        return {'self': s, 'name': g.rng.choice(['z.', 'A.', 'q.']) + s.type}
    R.generators[(I, 'ServiceInfo.name.setter')] = g_setname

    def g_known(g, services):
        recs = []
        for s in services:
            if g.rng.random() < 0.6:
                p = s.dns_pointer()
                nm, al = (p.name.upper(), p.alias.upper()) if g.rng.random() < 0.3 else (p.name, p.alias)
                for _ in range(g.rng.choice([1, 1, 2])):
                    recs.append(DNSPointer(nm, 12, 1, g.rng.choice([p.ttl, p.ttl // 2, p.ttl // 2 + 1, 1, 0]), al, 0.0))
        g.rng.shuffle(recs)
        return DNSRRSet(recs)

    def g_ptr(g):
        h = mk_handler(g)
        services = [s for s in h.registry._services.values() if g.rng.random() < 0.8]
        return {'self': h, 'services': services, 'answer_set': {}, 'known_answers': g_known(g, services)}
    R.generators[(Q, 'QueryHandler._add_pointer_answers')] = g_ptr

    def g_addr(g):
        from zeroconf._dns import DNSAddress
        h = mk_handler(g)
        services = [s for s in h.registry._services.values() if g.rng.random() < 0.8]
        recs = []
        for s in services:
            for a in s._dns_addresses(None, __import__('zeroconf')._utils.net.IPVersion.All):
                if g.rng.random() < 0.5:
                    recs.append(DNSAddress(a.name.upper() if g.rng.random() < 0.3 else a.name, a.type, 1, g.rng.choice([a.ttl, a.ttl // 2, a.ttl // 2 + 1, 0]), a.address))
        return {'self': h, 'services': services, 'answer_set': {}, 'known_answers': DNSRRSet(recs), 'type_': g.rng.choice([1, 28])}
    R.generators[(Q, 'QueryHandler._add_address_answers')] = g_addr

    ENUMN = '_services._dns-sd._udp.local.'

    def g_known_types(g, types):
        recs = []
        for t in types:
            if g.rng.random() < 0.6:
                recs.append(DNSPointer(ENUMN if g.rng.random() < 0.7 else ENUMN.upper(), 12, 1, g.rng.choice([4500, 2250, 2251, 1]),
                                       t if g.rng.random() < 0.7 else t.upper(), 0.0))
        return DNSRRSet(recs)

    def g_enum(g):
        h = mk_handler(g)
        types = [t for t in ['_x._tcp.local.', '_y._udp.local.', '_X._tcp.local.', '_z._tcp.local.'] if g.rng.random() < 0.6]
        return {'self': h, 'types': types, 'answer_set': {}, 'known_answers': g_known_types(g, types)}
    R.generators[(Q, 'QueryHandler._add_service_type_enumeration_query_answers')] = g_enum

    def g_answer(g):
        from zeroconf._dns import DNSQuestion, DNSService, DNSText
        names = ['_services._dns-sd._udp.local.', '_x._tcp.local.', '_X._TCP.local.', 'a._x._tcp.local.', 'A._X._tcp.local.', 'host.local.', 'h2.local.']
        for _ in range(50):
            h = mk_handler(g)
            q = DNSQuestion(g.rng.choice(names), g.rng.choice([12, 1, 28, 33, 16, 255]), 1)
            strategies = h._get_answer_strategies(q)
            if strategies:
                break
        else:
            raise KeyError('no strategy found')
        st = g.rng.choice(strategies)
        if st.strategy_type == 0:
            known = g_known_types(g, st.types)
        elif st.strategy_type == 1:
            known = g_known(g, st.services)
        elif st.strategy_type == 2:
            known = DNSRRSet([])
        else:
            s0 = st.services[0]
            rec = s0.dns_service() if st.strategy_type == 3 else s0.dns_text()
            recs = []
            if g.rng.random() < 0.6:
                half = int(rec.ttl) // 2
                ttl = g.rng.choice([rec.ttl, half, half + 1, 0])
                if st.strategy_type == 3:
                    recs.append(DNSService(rec.name.upper() if g.rng.random() < 0.3 else rec.name, 33, 1, ttl, rec.priority, rec.weight, rec.port, rec.server, 0.0))
                else:
                    recs.append(DNSText(rec.name, 16, 1, ttl, rec.text, 0.0))
            known = DNSRRSet(recs)
        return {'self': h, 'question': q, 'strategy_type': st.strategy_type, 'types': st.types, 'services': st.services, 'known_answers': known}
    R.generators[(Q, 'QueryHandler._answer_question')] = g_answer
    return g_known


def _with(st, s):
    s2 = st.fork()
    s2.spec = True
    s2.locals = dict(st.locals)
    s2.locals['s'] = s
    return s2


def install_rrset_generators(R):
    def g_rr(g):
        from zeroconf._dns import DNSRRSet
        import copy
        recs = [g.record() for _ in range(g.rng.randint(0, 4))]
        if recs and g.rng.random() < 0.5:
            c = copy.copy(g.rng.choice(recs))
            c.ttl = g.rng.choice([1, 60, 120, 4500])
            recs.append(c)
        rr = DNSRRSet(recs)
        if g.rng.random() < 0.4:
            rr._get_lookup()
        return rr, recs

    def g_sup(g):
        import copy
        rr, recs = g_rr(g)
        if recs and g.rng.random() < 0.7:
            r = copy.copy(g.rng.choice(recs))
            r.ttl = g.rng.choice([1, 60, 119, 120, 121, 240, 241, 4500, 9000])
        else:
            r = g.record()
        return {'self': rr, 'record': r}
    R.generators[('zeroconf._dns', 'DNSRRSet._get_lookup')] = lambda g: {'self': g_rr(g)[0]}
    R.generators[('zeroconf._dns', 'DNSRRSet.suppresses')] = g_sup
