"""Query handler (responder) contracts: strategies, known-answer suppression, additionals (C03; reused by C11/C12)."""
import z3
from pyvc.contracts import Loop, View
from pyvc.core import Sc, RefV, NoneV, PyConst, FuncV, Cont, TupleV, fresh
from pyvc.types import T, INT, REAL, BOOL, STR, Ref, ref

P = 'C03'
Q = 'zeroconf._handlers.query_handler'
ENUM = '"_services._dns-sd._udp.local."'


def _empty_list(tstr):
    from pyvc.types import parse_type

    def mk(ex, st, frame):
        t = parse_type(tstr)
        return ex.new_cont(t, st)
    return mk


def install_strategies(R):
    R.shape('QueryHandler', {'zc': 'Zeroconf', 'registry': 'ServiceRegistry', 'cache': 'DNSCache'})
    R.shape('_AnswerStrategy', {'question': 'DNSQuestion', 'strategy_type': 'int', 'types': 'list[str]',
                                'services': 'list[ServiceInfo]'})
    R.shape('Zeroconf', {})
    R.stubs[Q + ':_EMPTY_SERVICES_LIST'] = _empty_list('list[ServiceInfo]')
    R.stubs[Q + ':_EMPTY_TYPES_LIST'] = _empty_list('list[str]')
    g = 'self.registry'
    n = 'lower(question.name)'
    t = 'question.type'
    hasP = '((%s == 12 or %s == 255) and exists("k:str", lambda k: %s._services.has(k) and lower(%s._services[k].type) == %s))' % (t, t, g, g, n)
    hasA = '((%s == 1 or %s == 28 or %s == 255) and exists("k:str", lambda k: %s._services.has(k) and %s._services[k].server_key == %s))' % (t, t, t, g, g, n)
    hasS = '((%s == 33 or %s == 255) and %s._services.has(%s))' % (t, t, g, n)
    hasT = '((%s == 16 or %s == 255) and %s._services.has(%s))' % (t, t, g, n)
    enum = '(%s == 12 and %s == %s)' % (t, n, ENUM)
    b = lambda e: 'ite(%s, 1, 0)' % e
    R.contract(Q, 'QueryHandler._get_answer_strategies', P, params={'question': 'DNSQuestion'},
               returns='list[_AnswerStrategy]',
               requires=['wf_reg(self.registry)', 'self.registry is not None', 'question is not None'],
               modifies=['_AnswerStrategy.question[*]', '_AnswerStrategy.strategy_type[*]', '_AnswerStrategy.types[*]',
                         '_AnswerStrategy.services[*]'],
               ensures=[
                   'forall("j:int", lambda j: implies(0 <= j and j < len(result), result[j] is not None and fresh_obj(result[j]) '
                   '   and result[j].question is question))',
                   # type enumeration: one strategy listing every registered type, or none when nothing is registered
                   'implies(%s, len(result) == ite(card(%s.types) > 0, 1, 0))' % (enum, g),
                   'implies(%s and len(result) == 1, result[0].strategy_type == 0 and len(result[0].services) == 0 '
                   '   and forall("j:int", lambda j: implies(0 <= j and j < len(result[0].types), %s.types.has(result[0].types[j]))) '
                   '   and forall("s:str", lambda s: implies(%s.types.has(s), exists("j:int", lambda j: 0 <= j and j < len(result[0].types) and result[0].types[j] == s))))' % (enum, g, g),
                   # every other question: one strategy per (question type, non-empty index hit), in this order
                   'implies(not %s, len(result) == %s + %s + %s + %s)' % (enum, b(hasP), b(hasA), b(hasS), b(hasT)),
                   'implies(not %s, forall("j:int", lambda j: implies(0 <= j and j < len(result), '
                   '   (result[j].strategy_type == 1 and %s) or (result[j].strategy_type == 2 and %s) '
                   '   or (result[j].strategy_type == 3 and %s) or (result[j].strategy_type == 4 and %s))))' % (enum, hasP, hasA, hasS, hasT),
                   'implies(not %s, forall("j:int, m:int", lambda j, m: implies(0 <= j and j < m and m < len(result), '
                   '   result[j].strategy_type < result[m].strategy_type)))' % enum,
                   # the services attached to each strategy are exactly the index hits (lower-cased question name)
                   'implies(not %s, forall("j:int", lambda j: implies(0 <= j and j < len(result) and result[j].strategy_type == 1, '
                   '   forall("p:int", lambda p: implies(0 <= p and p < len(result[j].services), registered(%s, result[j].services[p]) '
                   '        and lower(result[j].services[p].type) == %s)) '
                   '   and forall("k:str", lambda k: implies(%s._services.has(k) and lower(%s._services[k].type) == %s, '
                   '        exists("p:int", lambda p: 0 <= p and p < len(result[j].services) and result[j].services[p] is %s._services[k]))))))'
                   % (enum, g, n, g, g, n, g),
                   'implies(not %s, forall("j:int", lambda j: implies(0 <= j and j < len(result) and result[j].strategy_type == 2, '
                   '   forall("p:int", lambda p: implies(0 <= p and p < len(result[j].services), registered(%s, result[j].services[p]) '
                   '        and result[j].services[p].server_key == %s)) '
                   '   and forall("k:str", lambda k: implies(%s._services.has(k) and %s._services[k].server_key == %s, '
                   '        exists("p:int", lambda p: 0 <= p and p < len(result[j].services) and result[j].services[p] is %s._services[k]))))))'
                   % (enum, g, n, g, g, n, g),
                   'implies(not %s, forall("j:int", lambda j: implies(0 <= j and j < len(result) and result[j].strategy_type >= 3, '
                   '   len(result[j].services) == 1 and result[j].services[0] is %s._services[%s])))' % (enum, g, n),
               ])


def mk_handler(g):
    from contracts.registry_model import mk_registry
    from zeroconf._handlers.query_handler import QueryHandler
    from zeroconf._cache import DNSCache
    from zeroconf._history import QuestionHistory

    class ZC:
        pass
    zc = ZC()
    zc.registry = mk_registry(g)
    zc.cache = DNSCache()
    zc.question_history = QuestionHistory()
    zc.out_queue = None
    zc.out_delay_queue = None
    return QueryHandler(zc)


def install_generators(R):
    from zeroconf._dns import DNSQuestion

    def g_strat(g):
        h = mk_handler(g)
        names = ['_services._dns-sd._udp.local.', '_SERVICES._dns-sd._udp.local.', '_x._tcp.local.', '_X._TCP.local.',
                 'a._x._tcp.local.', 'A._X._tcp.local.', 'host.local.', 'HOST.LOCAL.', 'h2.local.', 'nobody.local.']
        q = DNSQuestion(g.rng.choice(names), g.rng.choice([12, 1, 28, 33, 16, 255, 47, 99]), 1)
        return {'self': h, 'question': q}
    R.generators[(Q, 'QueryHandler._get_answer_strategies')] = g_strat


def install_rrset(R):
    D = 'zeroconf._dns'
    R.shape('DNSRRSet', {'_records': 'list[DNSRecord]', '_lookup': 'opt[dict[DNSRecord, DNSRecord]]'})
    # the lookup table maps an identity to the LAST listed record of that identity
    LOOK = ('forall("i:ident", lambda i: {L}.has(i) == exists("j:int", lambda j: 0 <= j and j < len(self._records) and ident(self._records[j]) == i)) and '
            'forall("i:ident", lambda i: implies({L}.has(i), exists("j:int", lambda j: 0 <= j and j < len(self._records) and {L}[i] is self._records[j] '
            '   and ident(self._records[j]) == i)))')
    R.spec('rrset_ok', [('self', 'DNSRRSet')], 'bool',
           'forall("j:int", lambda j: implies(0 <= j and j < len(self._records), self._records[j] is not None)) and '
           'implies(self._lookup is not None, %s)' % LOOK.format(L='self._lookup'))
    R.contract(D, 'DNSRRSet._get_lookup', P, returns='dict[DNSRecord, DNSRecord]', result_alias='self._lookup',
               requires=['rrset_ok(self)'], modifies=['self._lookup'],
               ensures=['self._lookup is not None', 'rrset_ok(self)', 'list_eq(self._records, old(self._records))'])
    R.contract(D, 'DNSRRSet.suppresses', P, params={'record': 'DNSRecord'}, returns='bool',
               requires=['rrset_ok(self)', 'record is not None'], modifies=['self._lookup'],
               ensures=['rrset_ok(self)',
                        # suppressed only by a listed record of the same identity with more than half the TTL
                        'implies(result, exists("j:int", lambda j: 0 <= j and j < len(self._records) and ident(self._records[j]) == ident(record) '
                        '   and self._records[j].ttl > record.ttl / 2))',
                        # never suppressed when no listed record has that identity, or none of them has more than half
                        'implies(not exists("j:int", lambda j: 0 <= j and j < len(self._records) and ident(self._records[j]) == ident(record) '
                        '   and self._records[j].ttl > record.ttl / 2), not result)',
                        # a single listed record of that identity decides
                        'implies(forall("j:int, m:int", lambda j, m: implies(0 <= j and j < len(self._records) and 0 <= m and m < len(self._records) '
                        '   and ident(self._records[j]) == ident(record) and ident(self._records[m]) == ident(record), j == m)), '
                        '   result == exists("j:int", lambda j: 0 <= j and j < len(self._records) and ident(self._records[j]) == ident(record) '
                        '   and self._records[j].ttl > record.ttl / 2))'])




def install_rrset_generators(R):
    def g_rr(g):
        from zeroconf._dns import DNSRRSet
        import copy
        recs = [g.record() for _ in range(g.rng.randint(0, 4))]
        if recs and g.rng.random() < 0.5:
            c = copy.copy(g.rng.choice(recs))
            c.ttl = g.rng.choice([1, 60, 120, 4500])
            recs.append(c)
        rr = DNSRRSet(recs)
        if g.rng.random() < 0.4:
            rr._get_lookup()
        return rr, recs

    def g_sup(g):
        import copy
        rr, recs = g_rr(g)
        if recs and g.rng.random() < 0.7:
            r = copy.copy(g.rng.choice(recs))
            r.ttl = g.rng.choice([1, 60, 119, 120, 121, 240, 241, 4500, 9000])
        else:
            r = g.record()
        return {'self': rr, 'record': r}
    R.generators[('zeroconf._dns', 'DNSRRSet._get_lookup')] = lambda g: {'self': g_rr(g)[0]}
    R.generators[('zeroconf._dns', 'DNSRRSet.suppresses')] = g_sup
