"""C14 - outgoing messages respect size limits and account for every section entry."""
from contracts import records, outgoing_model

PROP = 'C14'
ASSUMPTIONS = ['T3-struct: struct packers as big-endian encoders of fixed width',
               'str operations inside write_name are uninterpreted for this property (only chunk lengths matter)']


def build(R):
    records.install(R)
    outgoing_model.install_shapes(R)
    outgoing_model.install_primitives(R)
    outgoing_model.install_uninterpreted_strings(R)
    outgoing_model.install_writers(R)
    outgoing_model.install_entries(R)
    outgoing_model.install_packets(R)
    outgoing_model.install_generators(R)


def configure(ctx, R):
    records.configure(ctx)


NO_CONCRETE = set()
