"""C01 - wire codec round trip.

Deductive kernel (all inputs), on the real encoder functions, re-using the C14 byte-bookkeeping contracts and adding the VALUES
written: K2 label form (_write_utf: a label is written only if it is at most 63 UTF-8 bytes, preceded by its length byte - the bound
comes from the statement: a length byte >= 0x40 is not a label to any RFC 1035 decoder); character-strings at most 255 bytes;
K4 pointer form (_write_link_to_name: two bytes b0 >= 0xC0 with (b0 & 0x3F) * 256 + b1 == index, the decoder's own expression);
K8 big-endian shorts (write_short); K6 class word (_write_record_class, shared with C11); plus the arithmetic inverse lemmas.
The name-table soundness and section accounting are the C14 obligations.

The statement itself - decode(encode(m)) == m across compression and splitting - is NOT proved: it is a whole-message property
(induction along pointer chains over the ghost wire layout).  It is covered by the BOUNDED stand-in below: every multiset of up to
3 (4 thorough) entries over a vocabulary of names built to share suffixes (mixed case, dotted and non-ASCII labels, 63/64-byte labels),
all record kinds, real DNSOutgoing.packets() -> real DNSIncoming AND the independent strict RFC 1035 parser of contracts/c02.py."""
import z3
from pyvc.core import Sc
from contracts import records, outgoing_model

PROP = 'C01'
BOUNDED_IN_QUICK = True
LEVEL = 'other'          # the statement itself (round trip) is only bounded-checked; the proved part is the kernel of primitive value contracts
ASSUMPTIONS = ['T3-struct: struct packers as big-endian encoders of fixed width',
               'str.encode("utf-8") length is ulen (A2: no lone surrogates)',
               'the round trip itself is bounded-checked only (see bounded_checks)']


def build(R):
    records.install(R)
    outgoing_model.install_shapes(R)
    outgoing_model.install_primitives(R)
    outgoing_model.install_uninterpreted_strings(R)
    outgoing_model.install_writers(R)
    from pyvc.types import BYTES
    import struct
    R.spec('pack2v', [('v', 'int')], 'bytes', lambda ex, st, v: Sc(outgoing_model.pack2(ex.num(v, st)[0]), BYTES),
           concrete=lambda v: struct.pack('>H', v) if 0 <= v < 65536 else None)
    R.spec('pack1v', [('v', 'int')], 'bytes', lambda ex, st, v: Sc(outgoing_model.pack1(ex.num(v, st)[0]), BYTES),
           concrete=lambda v: struct.pack('>B', v) if 0 <= v < 256 else None)
    OM = outgoing_model.M
    LAST = 'self.data[len(self.data) - 1]'
    PREV = 'self.data[len(self.data) - 2]'

    def extend(q, ens):
        c = R.contracts[(OM, q)]
        c.props.append(PROP)
        c.ensures.extend(ens)
    extend('DNSOutgoing._write_byte', ['implies(0 <= value and value < 256, %s == pack1v(value))' % LAST])
    extend('DNSOutgoing.write_string', ['%s == value' % LAST])
    extend('DNSOutgoing.write_short', ['implies(0 <= value, %s == pack2v(value))' % LAST])
    # K2: a label on the wire is 1..63 bytes long and preceded by exactly its length
    extend('DNSOutgoing._write_utf', ['ulen(s) <= 63', '%s == pack1v(ulen(s))' % PREV])
    extend('DNSOutgoing.write_character_string', ['blen(value) <= 255', '%s == pack1v(blen(value)) and %s == value' % (PREV, LAST)])
    # K4: the two pointer bytes
    extend('DNSOutgoing._write_link_to_name', ['implies(0 <= index and index < 16384, %s == pack1v(192 + div(index, 256)) and %s == pack1v(mod(index, 256)))' % (PREV, LAST)])
    extend('DNSOutgoing._write_record_class', ['implies(0 <= record.class_ and record.class_ < 32768, %s == '
                                               'pack2v(record.class_ + ite(record.unique and self.multicast, 32768, 0)))' % LAST])
    # what the decoder computes from those bytes is the value that was written
    R.lemma('pointer_bytes_invert', PROP, {'i': 'int', 'b0': 'int', 'b1': 'int'},
            ['0 <= i and i < 16384', 'b0 == 192 + div(i, 256)', 'b1 == mod(i, 256)'],
            ['192 <= b0 and b0 < 256 and 0 <= b1 and b1 < 256', 'mod(b0, 64) * 256 + b1 == i'])
    R.lemma('short_bytes_invert', PROP, {'v': 'int', 'h': 'int', 'l': 'int'},
            ['0 <= v and v < 65536', 'h == div(v, 256)', 'l == mod(v, 256)'],
            ['0 <= h and h < 256 and 0 <= l and l < 256', 'h * 256 + l == v'])
    R.lemma('ttl_bytes_invert', PROP, {'v': 'int', 'a': 'int', 'b': 'int', 'c': 'int', 'd': 'int'},
            ['0 <= v and v < 4294967296', 'a == div(v, 16777216)', 'b == mod(div(v, 65536), 256)', 'c == mod(div(v, 256), 256)', 'd == mod(v, 256)'],
            ['a * 16777216 + b * 65536 + c * 256 + d == v'])
    outgoing_model.install_generators(R)


def configure(ctx, R):
    records.configure(ctx)


NO_CONCRETE = set()


# ---- bounded stand-in: encode -> decode (library and independent strict parser) ----------------------------------------------------
NAMES = ['a.local.', 'A.local.', 'b.a.local.', '_x._tcp.local.', 'Inst._x._tcp.local.', 'in.st._x._tcp.local.'.replace('in.st', 'in st'),
         'é._x._tcp.local.', 'x' * 63 + '.local.', 'local.']


def _entries():
    from zeroconf import const
    from zeroconf._dns import DNSQuestion, DNSAddress, DNSPointer, DNSText, DNSService, DNSHinfo, DNSNsec
    U = const._CLASS_IN | const._CLASS_UNIQUE
    E = []
    for n in NAMES[:6]:
        E.append(('q', DNSQuestion(n, const._TYPE_PTR, const._CLASS_IN)))
    E.append(('q', DNSQuestion('Inst._x._tcp.local.', const._TYPE_SRV, U)))
    E.append(('r', DNSPointer('_x._tcp.local.', const._TYPE_PTR, const._CLASS_IN, 4500, 'Inst._x._tcp.local.')))
    E.append(('r', DNSPointer('_x._tcp.local.', const._TYPE_PTR, const._CLASS_IN, 0, 'é._x._tcp.local.')))
    E.append(('r', DNSService('Inst._x._tcp.local.', const._TYPE_SRV, U, 120, 1, 65535, 80, 'b.a.local.')))
    E.append(('r', DNSText('Inst._x._tcp.local.', const._TYPE_TXT, U, 4294967295, b'\x03a=1')))
    E.append(('r', DNSText('A.local.', const._TYPE_TXT, const._CLASS_IN, 1, b'')))
    E.append(('r', DNSAddress('b.a.local.', const._TYPE_A, U, 120, b'\x0a\x00\x00\x01')))
    E.append(('r', DNSAddress('a.local.', const._TYPE_AAAA, U, 120, b'\xfe\x80' + b'\x00' * 13 + b'\x01')))
    E.append(('r', DNSHinfo('a.local.', const._TYPE_HINFO, U, 10, 'cpu', 'os é')))
    E.append(('r', DNSNsec('Inst._x._tcp.local.', const._TYPE_NSEC, U, 120, 'Inst._x._tcp.local.', [1, 28, 33])))
    E.append(('r', DNSPointer('x' * 63 + '.local.', const._TYPE_PTR, const._CLASS_IN, 5, 'local.')))
    return E


def bounded_checks(run, tier, seed):
    import itertools
    from zeroconf import const
    from zeroconf._protocol.outgoing import DNSOutgoing
    from zeroconf._protocol.incoming import DNSIncoming
    from zeroconf._exceptions import NamePartTooLongException
    from zeroconf._dns import DNSQuestion, DNSPointer
    from contracts import c02
    E = _entries()
    viol = {}
    n = 0

    def key(e):
        k, r = e
        if k == 'q':
            return ('q', r.name, r.type, r.class_, r.unique)
        return ('r', r.name, r.type, r.class_, r.unique, r.ttl, repr(r))

    def check(entries, flags, multicast, ident, adds=()):
        nonlocal n
        n += 1
        out = DNSOutgoing(flags, multicast, ident)
        for k, r in entries:
            if k == 'q':
                out.add_question(r)
            else:
                out.add_answer_at_time(r, 0)
        for r in adds:
            out.add_additional_answer(r)
        try:
            pkts = out.packets()
        except NamePartTooLongException:
            return
        gq, gr, gadd = [], [], []
        for p in pkts:
            if len(p) > 8966:
                viol.setdefault('oversize', {'signature': 'oversize', 'entries': [repr(e[1]) for e in entries][:6]})
            m = DNSIncoming(p)
            if not m.valid:
                viol.setdefault('own-decoder-rejects', {'signature': 'own-decoder-rejects', 'entries': [repr(e[1]) for e in entries][:6]})
                return
            gq += [('q', q.name, q.type, q.class_, q.unique and multicast or (q.unique and not multicast and False)) for q in m.questions]
            recs = m.answers()
            gr += recs[:m.num_answers + m.num_authorities]
            gadd += recs[m.num_answers + m.num_authorities:]
            try:
                sq, sr = c02.strict_parse(p)
            except c02.Reject:
                viol.setdefault('strict-parser-rejects', {'signature': 'strict-parser-rejects', 'entries': [repr(e[1]) for e in entries][:6], 'packet_hex': p.hex()[:160]})
                return
            if [(a, b) for a, b, c in sq] != [(q.name, q.type) for q in m.questions]:
                viol.setdefault('strict-parser-differs', {'signature': 'strict-parser-differs', 'entries': [repr(e[1]) for e in entries][:6]})
        wq = [e[1] for e in entries if e[0] == 'q']
        wr = [e[1] for e in entries if e[0] == 'r'] + list(adds)
        gr = gr + gadd               # sections compared in order: answers of all datagrams, then additionals
        okq = [(q.name, q.type, q.class_) for q in wq] == [(x[1], x[2], x[3]) for x in gq]
        okr = len(gr) == len(wr) and all(a == b and a.name == b.name and a.ttl == b.ttl and (a.unique == (b.unique and multicast)) for a, b in zip(gr, wr))
        if not (okq and okr):
            viol.setdefault('round-trip-differs', {'signature': 'round-trip-differs', 'entries': [repr(e[1]) for e in entries][:6],
                                                   'decoded': [repr(x) for x in gr][:6], 'multicast': multicast})
    size = 2 if tier == 'quick' else 3
    for r in range(0, size + 1):
        for combo in itertools.permutations(range(len(E)), r):
            ents = [E[i] for i in combo]
            check(ents, const._FLAGS_QR_RESPONSE | const._FLAGS_AA, True, 0)
            if r <= 2:
                check(ents, const._FLAGS_QR_QUERY, False, 4660)
    # label length boundary: 63 accepted and recovered, 64 rejected
    for ln, want in ((63, True), (64, False), (65, False)):
        out = DNSOutgoing(const._FLAGS_QR_QUERY)
        out.add_question(DNSQuestion('a' * ln + '.local.', const._TYPE_PTR, const._CLASS_IN))
        n += 1
        try:
            p = out.packets()[0]
            ok = DNSIncoming(p).valid
            got = True
        except NamePartTooLongException:
            got, ok = False, True
        if got != want or not ok:
            viol.setdefault('label-length-boundary', {'signature': 'label-length-boundary', 'label_bytes': ln, 'encoded': got, 'own_decoder_valid': ok})
    # many records: splitting keeps order and loses nothing
    many = [('r', DNSPointer('_x._tcp.local.', const._TYPE_PTR, const._CLASS_IN, 4500, 'i%03d._x._tcp.local.' % k)) for k in range(200)]
    check(many, const._FLAGS_QR_RESPONSE | const._FLAGS_AA, True, 0)
    # an answer that does not fit is rolled back; a later section of the same datagram then names the rolled-back owner
    from zeroconf._dns import DNSText, DNSNsec
    inst = 'Office Laser._ipp._tcp.local.'
    for big in range(900, 1500, 7 if tier == 'quick' else 1):
        base = [('r', DNSPointer('_ipp._tcp.local.', const._TYPE_PTR, const._CLASS_IN, 4500, 'Other._ipp._tcp.local.'))]
        base += [('r', DNSText('Other%d._ipp._tcp.local.' % k, const._TYPE_TXT, const._CLASS_IN | const._CLASS_UNIQUE, 4500, b'\x63' + b'x' * 99)) for k in range(3)]
        base.append(('r', DNSText(inst, const._TYPE_TXT, const._CLASS_IN | const._CLASS_UNIQUE, 4500, bytes([200]) * big)))
        check(base, const._FLAGS_QR_RESPONSE | const._FLAGS_AA, True, 0,
              adds=[DNSPointer('_ipp._tcp.local.', const._TYPE_PTR, const._CLASS_IN, 4500, inst)])
        check(base, const._FLAGS_QR_RESPONSE | const._FLAGS_AA, True, 0,
              adds=[DNSNsec(inst, const._TYPE_NSEC, const._CLASS_IN | const._CLASS_UNIQUE, 4500, inst, [16, 33])])
    return {'codec-round-trip-small-scope': {
        'evaluations': n, 'violations': list(viol.values()),
        'bound': 'all ordered selections of <= %d entries out of %d (7 questions over names sharing suffixes in mixed case / with spaces / non-ASCII / 63-byte '
                 'labels, 11 records of all 7 kinds incl. TTL 0 and 2^32-1), as multicast response and as unicast query; 63/64/65-byte labels; 200 '
                 'pointers (multi-packet); TXT answers of 900..1499 bytes rolled back to the next datagram with an additional naming their owner; decoded by the library and by the independent strict parser of contracts/c02.py' % (size, len(E))}}
