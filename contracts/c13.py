"""C13 - queries carry known answers and are not needlessly repeated."""
from pyvc.contracts import Loop
from contracts import records, cache_model

PROP = 'C13'
H = 'zeroconf._history'
B = 'zeroconf._services.browser'
ASSUMPTIONS = ['A1 float as real', 'record identity model (C20); cache contracts (C05)',
               'grouping of questions into packets (_group_ptr_queries_with_known_answers, sorted/for-else) is assumed to '
               'preserve every question with all its known answers; splitting with TC is C14']
HT = 'dict[DNSQuestion, tuple[real, set[DNSRecord]]]'


def build(R):
    records.install(R)
    cache_model.install(R)
    cache_model.install_flush_specs(R)
    cache_model.install_lookups(R)
    R.shape('QuestionHistory', {'_history': HT})
    R.shape('Zeroconf', {'question_history': 'QuestionHistory', 'cache': 'DNSCache'})
    # the history is keyed by question objects: the stored key object has the identity it is filed under
    R.spec('hist_ok', [('h', 'QuestionHistory')], 'bool',
           'forall("i:ident", lambda i: implies(h._history.has(i), h._history.keyobj(i) is not None and ident(h._history.keyobj(i)) == i))')
    # ---- duplicate question suppression (RFC 6762 7.3) ---------------------------------------------
    R.contract(H, 'QuestionHistory.add_question_at_time', PROP,
               params={'question': 'DNSQuestion', 'now': 'real', 'known_answers': 'set[DNSRecord]'},
               requires=['question is not None', 'hist_ok(self)'], modifies=['self._history'],
               ensures=['hist_ok(self)', 'forall("i:ident", lambda i: self._history.has(i) == (old(self._history.has(i)) or i == ident(question)))',
                        'self._history[ident(question)][0] == now',
                        'forall("a:ident", lambda a: self._history[ident(question)][1].has(a) == known_answers.has(a))',
                        'forall("i:ident", lambda i: implies(i != ident(question) and self._history.has(i), '
                        '   self._history[i][0] == old(self._history[i][0]) and '
                        '   forall("a:ident", lambda a: self._history[i][1].has(a) == old(self._history[i][1].has(a)))))'])
    R.contract(H, 'QuestionHistory.suppresses', PROP,
               params={'question': 'DNSQuestion', 'now': 'real', 'known_answers': 'set[DNSRecord]'}, returns='bool',
               requires=['question is not None'],
               ensures=['result == (self._history.has(ident(question)) and now - self._history[ident(question)][0] <= 999 '
                        '   and forall("a:ident", lambda a: implies(self._history[ident(question)][1].has(a), known_answers.has(a))))'])
    R.contract(H, 'QuestionHistory.async_expire', PROP, params={'now': 'real'}, modifies=['self._history'],
               requires=['hist_ok(self)'],
               ensures=['hist_ok(self)', 'forall("i:ident", lambda i: self._history.has(i) == (old(self._history.has(i)) and not (now - old(self._history[i][0]) > 999)))',
                        'forall("i:ident", lambda i: implies(self._history.has(i), self._history[i][0] == old(self._history[i][0]) and '
                        '   forall("a:ident", lambda a: self._history[i][1].has(a) == old(self._history[i][1].has(a)))))'],
               loops={0: Loop(inv=['forall("j:int", lambda j: implies(0 <= j and j < len(removes), self._history.has(ident(removes[j])) '
                                   '   and now - self._history[ident(removes[j])][0] > 999))',
                                   'forall("m:int", lambda m: implies(0 <= m and m < _k and now - self._history[ident(_it[m])][0] > 999, '
                                   '   exists("j:int", lambda j: 0 <= j and j < len(removes) and ident(removes[j]) == ident(_it[m]))))',
                                   'forall("j:int, m:int", lambda j, m: implies(0 <= j and j < m and m < len(removes), ident(removes[j]) != ident(removes[m])))',
                                   'forall("j:int", lambda j: implies(0 <= j and j < len(removes), exists("m:int", lambda m: 0 <= m and m < _k and _it[m] is removes[j])))'],
                              modifies=[]),
                      1: Loop(inv=['hist_ok(self)', 'forall("i:ident", lambda i: self._history.has(i) == (old(self._history.has(i)) and '
                                   '   not exists("j:int", lambda j: 0 <= j and j < _k and ident(removes[j]) == i)))',
                                   'forall("i:ident", lambda i: implies(self._history.has(i), self._history[i][0] == old(self._history[i][0]) and '
                                   '   forall("a:ident", lambda a: self._history[i][1].has(a) == old(self._history[i][1].has(a)))))',
                                   'list_eq(_it, removes)'],
                              modifies=['self._history'])})
    install_query(R)


def _unused():
    pass


def configure(ctx, R):
    records.configure(ctx)
    install_generators(R)


NO_CONCRETE = set()


def _qident_concrete(name):
    from pyvc.concrete import IdentV, mk_rdata
    return IdentV(0, name.lower(), 12, 1, mk_rdata((), ()))


def install_query(R):
    import z3
    from pyvc.core import Sc, PyConst
    from pyvc.types import IDENT, lower
    from contracts.records import mk_ident, rd_cons
    rd_none = rd_cons('RD_None')[0]
    R.spec('qident', [('name', 'str')], 'ident',
           lambda ex, st, name: Sc(mk_ident(z3.IntVal(0), lower(ex.term(name, st)), z3.IntVal(12), z3.IntVal(1), rd_none()), IDENT),
           concrete=_qident_concrete)
    R.stubs[B + ':QU_QUESTION'] = lambda ex, st, frame: PyConst(1)
    R.stubs[B + ':QM_QUESTION'] = lambda ex, st, frame: PyConst(2)
    R.shape('DNSOutgoing', {'questions': 'list[DNSQuestion]', 'answers': 'list[tuple[DNSRecord, real]]', 'multicast': 'bool',
                            'flags': 'int'})
    QT = 'dict[DNSQuestion, set[DNSRecord]]'
    R.contract(B, '_group_ptr_queries_with_known_answers', PROP,
               params={'now_millis': 'real', 'multicast': 'bool', 'question_with_known_answers': QT},
               returns='list[DNSOutgoing]', trusted=True,
               ensures=['forall("b:int", lambda b: implies(0 <= b and b < len(result), result[b] is not None and result[b].multicast == multicast '
                        '   and mod(div(result[b].flags, 32768), 2) == 0))',
                        'forall("i:ident", lambda i: implies(question_with_known_answers.has(i), exists("b:int", lambda b: 0 <= b and b < len(result) '
                        '   and exists("p:int", lambda p: 0 <= p and p < len(result[b].questions) and result[b].questions[p] is question_with_known_answers.keyobj(i)) '
                        '   and forall("a:ident", lambda a: implies(question_with_known_answers[i].has(a), '
                        '        exists("p:int", lambda p: 0 <= p and p < len(result[b].answers) and ident(result[b].answers[p][0]) == a '
                        '                and result[b].answers[p][1] == now_millis))))))'],
               note='packing of questions with their known answers into builders (sorted / for-else bucket search) is assumed '
                    'to keep every question together with all its known answers, each added with add_answer_at_time(now)')
    KNOWN = ('(in_cache(zc.cache, a) and a.key == lower({t}) and a.type == 12 and a.class_ == 1 '
             'and not stale(cached(zc.cache, a), now_millis))')
    SUP0 = ('(old(zc.question_history._history.has(qident({t}))) and now_millis - old(zc.question_history._history[qident({t})][0]) <= 999 '
            'and forall("a:ident", lambda a: implies(old(zc.question_history._history[qident({t})][1].has(a)), %s)))' % KNOWN)
    QU = 'ite(question_type is None, not multicast, question_type == 1)'
    R.contract(B, 'generate_service_query', PROP,
               params={'zc': 'Zeroconf', 'now_millis': 'real', 'types_': 'set[str]', 'multicast': 'bool', 'question_type': 'optint'},
               returns='list[DNSOutgoing]',
               requires=['zc is not None and zc.cache is not None and zc.question_history is not None',
                         'wf_cache(zc.cache)', 'hist_ok(zc.question_history)',
                         # distinct browsed types stay distinct when lower-cased (one question identity per type)
                         'forall("s:str, t:str", lambda s, t: implies(types_.has(s) and types_.has(t) and s != t, lower(s) != lower(t)))'],
               modifies=['zc.question_history._history', 'DNSEntry.unique[*]'],
               ghost_out={'questions_with_known_answers': QT},
               ensures=[
                   # a question is asked for a type unless it is QM and the history suppresses it; QU is never suppressed
                   'forall("t:str", lambda t: implies(types_.has(t), questions_with_known_answers.has(qident(t)) == (%s or not %s)))'
                   % (QU, SUP0.format(t='t')),
                   'forall("i:ident", lambda i: implies(questions_with_known_answers.has(i), exists("t:str", lambda t: types_.has(t) and i == qident(t))))',
                   # it carries the QU bit exactly when requested / first query
                   'forall("i:ident", lambda i: implies(questions_with_known_answers.has(i), '
                   '   questions_with_known_answers.keyobj(i).unique == %s and ident(questions_with_known_answers.keyobj(i)) == i))' % QU,
                   # its known answers: exactly the cached PTR records of that name with more than half their TTL left
                   'forall("t:str, a:ident", lambda t, a: implies(types_.has(t) and questions_with_known_answers.has(qident(t)), '
                   '   questions_with_known_answers[qident(t)].has(a) == %s))' % KNOWN.format(t='t'),
                   # every QM question asked is remembered with the time and its known answers; QU questions leave no trace
                   'implies(%s, forall("i:ident", lambda i: zc.question_history._history.has(i) == old(zc.question_history._history.has(i))))' % QU,
                   'implies(not %s, forall("t:str", lambda t: implies(types_.has(t) and questions_with_known_answers.has(qident(t)), '
                   '   zc.question_history._history.has(qident(t)) and zc.question_history._history[qident(t)][0] == now_millis '
                   '   and forall("a:ident", lambda a: zc.question_history._history[qident(t)][1].has(a) == %s))))' % (QU, KNOWN.format(t='t')),
               ],
               loops={0: Loop(inv=[
                   'hist_ok(zc.question_history)',
                   'question_history is zc.question_history and cache is zc.cache',
                   'qu_question == %s' % QU,
                   'forall("i:ident", lambda i: implies(questions_with_known_answers.has(i), '
                   '   questions_with_known_answers.keyobj(i).unique == %s and ident(questions_with_known_answers.keyobj(i)) == i '
                   '   and exists("m:int", lambda m: 0 <= m and m < _k and i == qident(_it[m]))))' % QU,
                   'forall("m:int", lambda m: implies(0 <= m and m < _k, questions_with_known_answers.has(qident(_it[m])) == (%s or not %s)))'
                   % (QU, SUP0.format(t='_it[m]')),
                   'forall("m:int, a:ident", lambda m, a: implies(0 <= m and m < _k and questions_with_known_answers.has(qident(_it[m])), '
                   '   questions_with_known_answers[qident(_it[m])].has(a) == %s))' % KNOWN.format(t='_it[m]'),
                   # history: touched only for the QM questions asked so far
                   'implies(%s, forall("i:ident", lambda i: zc.question_history._history.has(i) == old(zc.question_history._history.has(i))))' % QU,
                   'forall("i:ident", lambda i: implies(not exists("m:int", lambda m: 0 <= m and m < _k and i == qident(_it[m])), '
                   '   zc.question_history._history.has(i) == old(zc.question_history._history.has(i)) and implies(zc.question_history._history.has(i), '
                   '   zc.question_history._history[i][0] == old(zc.question_history._history[i][0]) and '
                   '   forall("a:ident", lambda a: zc.question_history._history[i][1].has(a) == old(zc.question_history._history[i][1].has(a))))))',
                   'implies(not %s, forall("m:int", lambda m: implies(0 <= m and m < _k and questions_with_known_answers.has(qident(_it[m])), '
                   '   zc.question_history._history.has(qident(_it[m])) and zc.question_history._history[qident(_it[m])][0] == now_millis '
                   '   and forall("a:ident", lambda a: zc.question_history._history[qident(_it[m])][1].has(a) == %s))))' % (QU, KNOWN.format(t='_it[m]')),
               ], modifies=['zc.question_history._history', 'DNSEntry.unique[*]'])})


def install_generators(R):
    def g_hist(g):
        from zeroconf._history import QuestionHistory
        h = QuestionHistory()
        for _ in range(g.rng.randint(0, 3)):
            h.add_question_at_time(g.question(), g.rng.choice([0.0, 1.0, 1000.0, 1001.0, 2000.0]), set(g.record() for _ in range(g.rng.randint(0, 2))))
        return h

    def g_sup(g):
        import copy
        h = g_hist(g)
        qs = list(h._history)
        q = copy.copy(g.rng.choice(qs)) if qs and g.rng.random() < 0.7 else g.question()
        ka = set(g.record() for _ in range(g.rng.randint(0, 2)))
        if qs and g.rng.random() < 0.6:
            ka |= set(h._history[g.rng.choice(qs)][1])
        return {'self': h, 'question': q, 'now': g.rng.choice([1000.0, 1999.0, 2000.0, 2001.0, 3000.0]), 'known_answers': ka}
    R.generators[(H, 'QuestionHistory.suppresses')] = g_sup
    R.generators[(H, 'QuestionHistory.add_question_at_time')] = g_sup
    R.generators[(H, 'QuestionHistory.async_expire')] = lambda g: {'self': g_hist(g), 'now': g.rng.choice([1000.0, 1999.0, 2000.0, 2001.0, 3000.0])}

    def g_query(g):
        from zeroconf._history import QuestionHistory
        from zeroconf._dns import DNSQuestion, DNSPointer, DNSQuestionType

        class ZC:
            pass
        zc = ZC()
        zc.cache = g.cache()
        zc.question_history = QuestionHistory()
        now = g.rng.choice([2000.0, 61000.0, 3000000.0])
        types = set()
        ptr_names = [r.name for st in zc.cache.cache.values() for r in st if isinstance(r, DNSPointer)]
        for _ in range(g.rng.randint(0, 3)):
            t = g.rng.choice(ptr_names + ['_x._tcp.local.', '_y._udp.local.'])
            if t.lower() not in {x.lower() for x in types}:
                types.add(t)
        for t in list(types):
            if g.rng.random() < 0.4:
                known = set(r for r in zc.cache.get_all_by_details(t, 12, 1) if g.rng.random() < 0.7)
                zc.question_history.add_question_at_time(DNSQuestion(t, 12, 1), now - g.rng.choice([0, 998, 999, 1000, 5000]), known)

        def ghost(kw, res):
            q = {}
            for out in res:
                for qu in out.questions:
                    q[qu] = set(a for a, t_ in out.answers if a.key == qu.key)
            return {'questions_with_known_answers': q}
        return {'zc': zc, 'now_millis': now, 'types_': types, 'multicast': g.rng.random() < 0.5,
                'question_type': g.rng.choice([None, None, DNSQuestionType.QU, DNSQuestionType.QM]), '__ghost_out__': ghost}
    R.generators[(B, 'generate_service_query')] = g_query
