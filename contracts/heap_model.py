"""heapq as an assumed contract (T3-heapq).

A list that is only ever changed through heappush / heappop / clear is a heap with respect to the element order
(`_ScheduledPTRQuery.__lt__`: when_millis).  The model keeps what the scheduler relies on:

  * heappush(h, x): the new list holds exactly the old members plus x (a bijection of positions), and its first
    element is a minimum by `key`;
  * heappop(h): IndexError on an empty list; otherwise returns h[0], the new list holds exactly the other members,
    and its first element is a minimum by `key`;
  * both REQUIRE the list to have its minimum in front (checked as an obligation: the abstraction of "h is a heap").

The key field must not be written for elements already in a heap; c10 checks that statically over the package and by
frame conditions on every scheduler method.
"""
import z3
from pyvc.core import Sc, RefV, NoneV, Cont, VCError, fresh
from pyvc.types import INT, REAL, BOOL, Ref, NONE


def _key_arr(ex, st, cls, field):
    fs = ex.ctx.shapes.field(cls, field)
    return st.heap_arr(fs.fid, fs.t.sort())


def min_in_front(ex, st, lst, cls, field):
    W = _key_arr(ex, st, cls, field)
    t = lst.t
    cur = ex.c_term(lst, st)
    n, arr = t.acc('len')(cur), t.acc('arr')(cur)
    j = z3.Int('j!hp')
    return z3.ForAll([j], z3.Implies(z3.And(0 <= j, j < n), z3.Select(W, z3.Select(arr, 0)) <= z3.Select(W, z3.Select(arr, j))),
                     patterns=[z3.Select(arr, j)])


def make(cls, field):
    def heappush(ex, args, kwargs, st, frame, node):
        h, x = args
        if not isinstance(h, Cont) or h.t.kind != 'list':
            raise VCError('heappush on %r' % (h,))
        ex.ctx.assumed.add('T3-heapq')
        ex.oblige(st, min_in_front(ex, st, h, cls, field), 'heap-order', frame, node, 'heappush on a list whose minimum is not in front')
        t = h.t
        cur = ex.c_term(h, st)
        n, arr = t.acc('len')(cur), t.acc('arr')(cur)
        st.assume(n >= 0)
        new = fresh('heap', arr.sort())
        f = z3.Function(fresh('hf', z3.IntSort()).decl().name(), z3.IntSort(), z3.IntSort())   # old position -> new position
        g = z3.Function(fresh('hg', z3.IntSort()).decl().name(), z3.IntSort(), z3.IntSort())   # new position -> old position (n for x)
        i = z3.Int('i!hp')
        xt = x.term
        st.assume(z3.ForAll([i], z3.Implies(z3.And(0 <= i, i < n), z3.And(0 <= f(i), f(i) <= n, z3.Select(new, f(i)) == z3.Select(arr, i), g(f(i)) == i)),
                            patterns=[z3.Select(arr, i), f(i)]))
        st.assume(z3.ForAll([i], z3.Implies(z3.And(0 <= i, i <= n),
                                            z3.And(0 <= g(i), g(i) <= n, z3.Implies(g(i) < n, z3.And(z3.Select(new, i) == z3.Select(arr, g(i)), f(g(i)) == i)),
                                                   z3.Implies(g(i) == n, z3.Select(new, i) == xt))),
                            patterns=[z3.Select(new, i), g(i)]))
        px = fresh('hpx', z3.IntSort())
        st.assume(z3.And(0 <= px, px <= n, z3.Select(new, px) == xt, g(px) == n))
        st.assume(z3.ForAll([i], z3.Implies(z3.And(0 <= i, i <= n, g(i) == n), i == px), patterns=[g(i)]))
        ex.write_cont(h, st, t.mk(n + 1, new), node)
        st.assume(min_in_front(ex, st, h, cls, field))
        yield st, NoneV()

    def heappop(ex, args, kwargs, st, frame, node):
        h = args[0]
        if not isinstance(h, Cont) or h.t.kind != 'list':
            raise VCError('heappop on %r' % (h,))
        ex.ctx.assumed.add('T3-heapq')
        t = h.t
        cur = ex.c_term(h, st)
        n, arr = t.acc('len')(cur), t.acc('arr')(cur)
        st.assume(n >= 0)
        ex.pend_raise(st, n == 0, 'IndexError', frame, node)
        ex.oblige(st, min_in_front(ex, st, h, cls, field), 'heap-order', frame, node, 'heappop on a list whose minimum is not in front')
        new = fresh('heap', arr.sort())
        f = z3.Function(fresh('hf', z3.IntSort()).decl().name(), z3.IntSort(), z3.IntSort())   # old position (>=1) -> new position
        g = z3.Function(fresh('hg', z3.IntSort()).decl().name(), z3.IntSort(), z3.IntSort())   # new position -> old position (>=1)
        i = z3.Int('i!hp')
        st.assume(z3.ForAll([i], z3.Implies(z3.And(1 <= i, i < n), z3.And(0 <= f(i), f(i) < n - 1, z3.Select(new, f(i)) == z3.Select(arr, i), g(f(i)) == i)),
                            patterns=[z3.Select(arr, i), f(i)]))
        st.assume(z3.ForAll([i], z3.Implies(z3.And(0 <= i, i < n - 1), z3.And(1 <= g(i), g(i) < n, z3.Select(new, i) == z3.Select(arr, g(i)), f(g(i)) == i)),
                            patterns=[z3.Select(new, i), g(i)]))
        res = z3.Select(arr, 0)
        ex.write_cont(h, st, t.mk(n - 1, new), node)
        st.assume(min_in_front(ex, st, h, cls, field))
        yield st, RefV(res, t.args[0], False)

    return heappush, heappop


def install(R, module, cls, field):
    from contracts.common import stub
    push, pop = make(cls, field)
    R.stubs[module + ':heappush'] = stub(push)
    R.stubs[module + ':heappop'] = stub(pop)
