"""C11 - replies are routed and formatted as RFC 6762 5.4 / 6 / 6.7 require.

Builds on the C12 responder model (classification of multicast answers, the reply queues, handle_assembled_query) and adds:
the QU / legacy-unicast classification of _QueryResponse, the dispatch in QueryHandler.async_response (which classifier a
strategy's answers go to), the unicast reply of handle_assembled_query (destination, id and question echo), the reply
builders of answers.py (flags, multicast bit, id, questions, answers/additionals without repetition), the class word written
by DNSOutgoing._write_record_class and the destination choice of async_send_with_transport / can_send_to."""
import z3
from pyvc.contracts import Loop
from pyvc.core import Sc, RefV, NoneV, Cont, FieldLoc, PyConst, fresh
from pyvc.types import Ref, NONE, ref
from contracts import c12, records, loop_model, cache_model, outgoing_model

PROP = 'C11'
QH = c12.QH
AT = c12.AT
SR = c12.SR
A = 'zeroconf._handlers.answers'
ASSUMPTIONS = [
    'record identity model (C20); cache lookups by the C05 contracts; A5 clock',
    '"last seen multicast" is the cache entry of the record (created time): own multicasts reach the cache by loop-back '
    '(environment, T4)',
    'QueryHandler._answer_question (which records answer a strategy: C03) is abstracted to "returns a fresh answer map '
    'whose keys are records"; DNSIncoming.is_probe()/answers() are abstracted (decoder, C02)',
    'Zeroconf.async_send is the ghost send log (builder, destination, port, transport); the datagram bytes are C14/C01',
]


KEYS_OK_ = ('forall("i:ident", lambda i: implies(answers.has(i), answers.keyobj(i) is not None and ident(answers.keyobj(i)) == i))')


def _answer_question(ex, recv, args, kwargs, st, frame, node):
    """abstract _answer_question: a fresh dict[DNSRecord, set[DNSRecord]] keyed by record objects; counts the call"""
    from pyvc.types import parse_type
    t = parse_type(AT)
    c = ex.fresh_val('answer_set', t, st)
    s = st.fork()
    s.spec = True
    s.locals = dict(st.locals)
    s.locals['answers'] = c
    st.assume(ex.spec_bool(KEYS_OK_, s, frame))
    o = ex.ctx.ghost_objects['RLOG']
    fs = ex.ctx.shapes.field('VRoute', 'asked')
    arr = st.heap_arr(fs.fid, fs.t.sort())
    st.heap[fs.fid] = z3.Store(arr, o.term, z3.Select(arr, o.term) + 1)
    ex.ctx.assumed.add('QueryHandler._answer_question abstracted (C03): returns a fresh answer map keyed by record objects')
    yield st, c


def build(R):
    c12.build(R)
    R.shape('VRoute', {'asked': 'int', 'routed': 'int', 'ucasted': 'int'}, bases=[])
    R.ghost_objects['RLOG'] = 'VRoute'
    install_qu(R)
    install_dispatch(R)
    install_unicast_reply(R)
    install_builders(R)
    install_send(R)


def install_qu(R):
    # multicast recently: the cache holds the record and less than a quarter of its TTL has passed since it was seen
    R.spec('recent_q', [('q', '_QueryResponse'), ('i', 'ident')], 'bool',
           'in_cache(q._cache, i) and cached(q._cache, i).created + 250 * cached(q._cache, i).ttl > q._now')
    R.contract(QH, '_QueryResponse._has_mcast_within_one_quarter_ttl', PROP, params={'record': 'DNSRecord'}, returns='bool',
               requires=['qr_ok(self)', 'record is not None'],
               ensures=['result == recent_q(self, ident(record))'])
    KEYS_OK = 'forall("i:ident", lambda i: implies(answers.has(i), answers.keyobj(i) is not None and ident(answers.keyobj(i)) == i))'
    HIT = 'exists("m:int", lambda m: 0 <= m and m < _k and ident(_it[m]) == i)'

    def qu(member):
        # QU question from port 5353: unicast alone when the record was multicast within a quarter of its TTL, otherwise
        # multicast (at once); probes are always answered by unicast, plus multicast when not recently multicast
        return ['forall("i:ident", lambda i: self._ucast.has(i) == (old(self._ucast.has(i)) or (%s and (self._is_probe or recent_q(self, i)))))' % member,
                'forall("i:ident", lambda i: self._mcast_now.has(i) == (old(self._mcast_now.has(i)) or (%s and not recent_q(self, i))))' % member,
                'forall("i:ident", lambda i: self._additionals.has(i) == (old(self._additionals.has(i)) or %s))' % member]
    R.contract(QH, '_QueryResponse.add_qu_question_response', PROP, params={'answers': AT},
               requires=['qr_ok(self)', KEYS_OK],
               modifies=['self._additionals', 'self._ucast', 'self._mcast_now'],
               ensures=['qr_ok(self)'] + qu('answers.has(i)'),
               loops={0: Loop(inv=['qr_ok(self)'] + qu(HIT), modifies=['self._additionals', 'self._ucast', 'self._mcast_now'])})
    # legacy unicast (source port != 5353): everything goes into the unicast reply (the multicast classification runs too)
    R.contract(QH, '_QueryResponse.add_ucast_question_response', PROP, params={'answers': AT},
               requires=['qr_ok(self)', KEYS_OK],
               modifies=['self._additionals', 'self._ucast'],
               ensures=['qr_ok(self)',
                        'forall("i:ident", lambda i: self._ucast.has(i) == (old(self._ucast.has(i)) or answers.has(i)))',
                        'forall("i:ident", lambda i: self._additionals.has(i) == (old(self._additionals.has(i)) or answers.has(i)))'])


def install_dispatch(R):
    """QueryHandler.async_response: which classifier the answers of each strategy are handed to.

    The answers themselves are C03; here every strategy's answer map is counted (ghost RLOG.asked, by the abstraction of
    _answer_question) and every hand-over is counted and checked at the call site:
      - add_qu_question_response   only for a QU question from port 5353            (RLOG.routed += 1)
      - add_mcast_question_response only for a QM question or a legacy-unicast source (RLOG.routed += 1)
      - add_ucast_question_response only for a legacy-unicast source                  (RLOG.ucasted += 1)
    and the loop invariant says each answer map was routed exactly once (qu XOR mcast) and, for a legacy-unicast source,
    also put into the unicast reply - none is dropped, none is handed to both."""
    R.shape('QueryHandler', {'cache': 'DNSCache', 'question_history': 'QuestionHistory', 'registry': 'ServiceRegistry'})
    R.shape('ServiceRegistry', {}, bases=[])
    R.shape('_AnswerStrategy', {'question': 'DNSQuestion', 'strategy_type': 'int', 'types': 'list[str]', 'services': 'list[object]'})
    R.shape('DNSIncoming', {'g_probe': 'bool'})
    R.shape('DNSRRSet', {}, bases=[])
    R.stubs['method:QueryHandler._answer_question'] = _answer_question
    R.contract(QH, 'QueryHandler._get_answer_strategies', 'C03', params={'question': 'DNSQuestion'}, returns='list[_AnswerStrategy]',
               trusted=True, ensures=['forall("j:int", lambda j: implies(0 <= j and j < len(result), result[j] is not None and fresh_obj(result[j]) '
                                      '   and result[j].question is question))'],
               note='C03 proves which strategies are returned; used here: each strategy carries the question it answers')
    R.contract('zeroconf._protocol.incoming', 'DNSIncoming.is_probe', 'C02', returns='bool', trusted=True,
               ensures=['result == self.g_probe'], note='decoder (C02): a query with an authority section')
    R.contract('zeroconf._protocol.incoming', 'DNSIncoming.answers', 'C02', returns='list[DNSRecord]', trusted=True,
               ensures=['forall("j:int", lambda j: implies(0 <= j and j < len(result), result[j] is not None))'], note='decoder (C02)')
    R.contract('zeroconf._dns', 'DNSRRSet.__init__', 'C03', params={'records': 'list[DNSRecord]'}, trusted=True, modifies=[],
               note='C03/C20: known-answer set')
    R.contract('zeroconf._dns', 'DNSRRSet.lookup_set', 'C03', returns='set[DNSRecord]', trusted=True,
               ensures=['set_ok(result)'], note='C20: the identities of the listed records')
    R.contract('zeroconf._history', 'QuestionHistory.add_question_at_time', 'C13',
               params={'question': 'DNSQuestion', 'now': 'real', 'known_answers': 'set[DNSRecord]'}, trusted=True,
               modifies=['self._history'], note='C13 (verified there)')
    DA, DR, DU = '(RLOG.asked - old(RLOG.asked))', '(RLOG.routed - old(RLOG.routed))', '(RLOG.ucasted - old(RLOG.ucasted))'
    R.contract(QH, 'QueryHandler.async_response', PROP, params={'msgs': 'list[DNSIncoming]', 'ucast_source': 'bool'},
               returns='opt[QuestionAnswers]',
               requires=['len(msgs) > 0', 'forall("j:int", lambda j: implies(0 <= j and j < len(msgs), msgs[j] is not None))',
                         'forall("j:int, m:int", lambda j, m: implies(0 <= j and j < len(msgs) and 0 <= m and m < len(msgs[j]._questions), msgs[j]._questions[m] is not None))',
                         'self.cache is not None and wf_cache(self.cache) and self.question_history is not None'],
               modifies=['QuestionHistory._history[*]', 'RLOG.asked', 'RLOG.routed', 'RLOG.ucasted'],
               at_calls={
                   'add_qu_question_response': ['not ucast_source and strategy.question.unique', 'ghost: RLOG.routed = RLOG.routed + 1'],
                   'add_ucast_question_response': ['ucast_source', 'ghost: RLOG.ucasted = RLOG.ucasted + 1'],
                   'add_mcast_question_response': ['ucast_source or not strategy.question.unique', 'ghost: RLOG.routed = RLOG.routed + 1'],
                   # the reply is classified against the time and the probe flag of the query, with the first packet's questions
                   '_QueryResponse': ['is_probe == exists("j:int", lambda j: 0 <= j and j < len(msgs) and msgs[j].g_probe)',
                                      'questions is msgs[0]._questions'],
               },
               ensures=['%s == %s' % (DA, DR), 'implies(ucast_source, %s == %s)' % (DU, DA), 'implies(not ucast_source, %s == 0)' % DU,
                        'implies(result is not None, fresh_obj(result) and keys_ok(result.ucast) and keys_ok(result.mcast_now) '
                        '   and keys_ok(result.mcast_aggregate) and keys_ok(result.mcast_aggregate_last_second))'],
               loops={0: Loop(inv=['forall("j:int", lambda j: implies(0 <= j and j < len(strategies), strategies[j] is not None and strategies[j].question is not None))'],
                              modifies=[]),
                      1: Loop(inv=['forall("j:int", lambda j: implies(0 <= j and j < len(strategies), strategies[j] is not None and strategies[j].question is not None))'],
                              modifies=[]),
                      2: Loop(inv=['is_probe == exists("j:int", lambda j: 0 <= j and j < _k2 and msgs[j].g_probe)',
                                   'forall("j:int", lambda j: implies(0 <= j and j < len(answers), answers[j] is not None))'],
                              modifies=[]),
                      3: Loop(inv=['%s == %s' % (DA, DR), 'implies(ucast_source, %s == %s)' % (DU, DA), 'implies(not ucast_source, %s == 0)' % DU,
                                   'qr_ok(query_res)', 'query_res is not None and fresh_obj(query_res)'],
                              modifies=['QuestionHistory._history[*]', 'RLOG.asked', 'RLOG.routed', 'RLOG.ucasted',
                                        'query_res._additionals', 'query_res._ucast', 'query_res._mcast_now',
                                        'query_res._mcast_aggregate', 'query_res._mcast_aggregate_last_second'])})


def install_unicast_reply(R):
    """handle_assembled_query (verified for C12): add the C11 clauses about the unicast reply."""
    c = R.contracts[(QH, 'QueryHandler.handle_assembled_query')]
    c.props.append(PROP)
    c.requires.extend(['self.cache is not None and wf_cache(self.cache) and self.question_history is not None',
                       'forall("j:int", lambda j: implies(0 <= j and j < len(packets), packets[j] is not None))',
                       'forall("j:int, m:int", lambda j, m: implies(0 <= j and j < len(packets) and 0 <= m and m < len(packets[j]._questions), packets[j]._questions[m] is not None))'])
    c.modifies.extend(['RLOG.asked', 'RLOG.routed', 'RLOG.ucasted'])
    S0 = 'old(len(SENT.events))'
    c.at_calls['construct_outgoing_unicast_answers'] = [
        # legacy unicast iff the source port is not 5353; the reply echoes the id and the questions of the first packet
        'ucast_source == (port != 5353)', 'id_ == packets[0].id', 'questions is packets[0]._questions']
    c.ensures.extend([
        # the unicast reply goes to the querier's address and port, on the socket the query came in on, and only there
        'implies(question_answers is not None and len(question_answers.ucast) > 0, SENT.events[%s][2] and SENT.events[%s][3] == addr '
        '   and SENT.events[%s][4] == port and SENT.events[%s][5] is transport)' % (S0, S0, S0, S0),
        # every other transmission of this step is a multicast to the group (no address, port 5353, all sockets)
        'forall("p:int", lambda p: implies(%s <= p and p < len(SENT.events) and not (p == %s and question_answers is not None and len(question_answers.ucast) > 0), '
        '   not SENT.events[p][2] and SENT.events[p][4] == 5353 and SENT.events[p][5] is None and SENT.events[p][1].multicast))' % (S0, S0),
    ])


def install_builders(R):
    """answers.py: the two reply builders and _add_answers_additionals, verified against the builder's real lists."""
    outgoing_model.install_shapes(R)
    # sort key of sorted(answers, key=NAME_GETTER): only "a permutation" is used (the order is a compression heuristic)
    R.stubs[A + ':NAME_GETTER'] = lambda ex, st, frame: PyConst('NAME_GETTER')
    R.spec('in_answers', [('o', 'DNSOutgoing'), ('i', 'ident')], 'bool',
           'exists("j:int", lambda j: 0 <= j and j < len(o.answers) and ident(o.answers[j][0]) == i)')
    R.spec('carries', [('o', 'DNSOutgoing'), ('i', 'ident')], 'bool', 'in_answers(o, i)')
    R.spec('in_additionals', [('o', 'DNSOutgoing'), ('i', 'ident')], 'bool',
           'exists("j:int", lambda j: 0 <= j and j < len(o.additionals) and ident(o.additionals[j]) == i)')
    KEYS_OK = 'keys_ok(answers)'
    # (the additional-record rules - only the service's own records, never a repeated answer - are C03 and not claimed here)
    ADD = ['forall("i:ident", lambda i: in_answers(out, i) == answers.has(i))',
           'len(out.answers) == len(answers)',
           'forall("j:int", lambda j: implies(0 <= j and j < len(out.answers), out.answers[j][0] is not None and out.answers[j][1] == 0))']
    PERM = ['forall("m:int", lambda m: implies(0 <= m and m < len(_it0), _it0[m] is not None and answers.has(ident(_it0[m]))))',
            'forall("i:ident", lambda i: implies(answers.has(i), exists("m:int", lambda m: 0 <= m and m < len(_it0) and ident(_it0[m]) == i)))',
            'len(_it0) == len(answers)']
    R.contract(A, '_add_answers_additionals', PROP, params={'out': 'DNSOutgoing', 'answers': AT},
               requires=['out is not None', KEYS_OK, 'len(out.answers) == 0'],
               modifies=['out.answers', 'out.additionals'],
               ensures=ADD,
               loops={0: Loop(inv=PERM + [
                   'len(out.answers) == _k0',
                   'forall("j:int", lambda j: implies(0 <= j and j < _k0, out.answers[j][0] is _it0[j] and out.answers[j][1] == 0))'],
                              modifies=['out.answers', 'out.additionals']),
                      1: Loop(inv=PERM + [
                   'len(out.answers) == _k0 + 1', '0 <= _k0 and _k0 < len(_it0)',
                   'forall("j:int", lambda j: implies(0 <= j and j <= _k0, out.answers[j][0] is _it0[j] and out.answers[j][1] == 0))'],
                              modifies=['out.additionals'])})
    R.contract(A, 'construct_outgoing_multicast_answers', PROP, params={'answers': AT}, returns='DNSOutgoing',
               requires=[KEYS_OK],
               ensures=['result is not None and fresh_obj(result) and result.multicast and result.flags == 33792 and result.id == 0',
                        'len(result.questions) == 0 and len(result.authorities) == 0',
                        'forall("i:ident", lambda i: carries(result, i) == answers.has(i))', 'len(result.answers) == len(answers)'])
    R.contract(A, 'construct_outgoing_unicast_answers', PROP,
               params={'answers': AT, 'ucast_source': 'bool', 'questions': 'list[DNSQuestion]', 'id_': 'int'}, returns='DNSOutgoing',
               requires=[KEYS_OK],
               ensures=['result is not None and fresh_obj(result) and not result.multicast and result.flags == 33792 and result.id == id_',
                        'implies(ucast_source, list_eq(result.questions, questions))', 'implies(not ucast_source, len(result.questions) == 0)',
                        'len(result.authorities) == 0',
                        'forall("i:ident", lambda i: carries(result, i) == answers.has(i))', 'len(result.answers) == len(answers)'],
               loops={0: Loop(inv=['out is not None and fresh_obj(out) and not out.multicast and out.flags == 33792 and out.id == id_',
                                   'len(out.questions) == _k0 and forall("j:int", lambda j: implies(0 <= j and j < _k0, out.questions[j] is _it0[j]))',
                                   'list_eq(_it0, questions)', 'len(out.answers) == 0 and len(out.additionals) == 0 and len(out.authorities) == 0'],
                              modifies=['out.questions'])})


def install_send(R):
    """The class word on the wire: the cache-flush bit is written iff the record is unique AND the message is multicast
    (so: exactly on the non-PTR records of a multicast reply, never in a unicast reply).  The two functions carry their
    C14 size contracts as well (outgoing_model); here the VALUE of the two bytes is added."""
    OM = outgoing_model.M
    outgoing_model.install_primitives(R)
    outgoing_model.install_uninterpreted_strings(R)
    outgoing_model.install_writers(R)
    from pyvc.types import BYTES
    R.spec('pack2v', [('v', 'int')], 'bytes', lambda ex, st, v: Sc(outgoing_model.pack2(ex.num(v, st)[0]), BYTES))
    c = R.contracts[(OM, 'DNSOutgoing.write_short')]
    c.props.append(PROP)
    c.ensures.append('implies(0 <= value, self.data[len(self.data) - 1] == pack2v(value))')
    c = R.contracts[(OM, 'DNSOutgoing._write_record_class')]
    c.props.append(PROP)
    c.ensures.append('implies(0 <= record.class_ and record.class_ < 32768, self.data[len(self.data) - 1] == '
                     'pack2v(record.class_ + ite(record.unique and self.multicast, 32768, 0)))')


def configure(ctx, R):
    c12.configure(ctx, R)
    outgoing_model.install_generators(R)
    mk_qr = R.mk_qr

    def with_ttls(g):
        qr, answers, pool = mk_qr(g)
        # ages around a quarter of the TTL
        for st in qr._cache.cache.values():
            for r in st:
                r.ttl = g.rng.choice([4, 120, 4500])
                r.created = qr._now - g.rng.choice([0, 250 * r.ttl - 1, 250 * r.ttl, 250 * r.ttl + 1, 600 * r.ttl])
        return qr, answers, pool
    R.generators[(QH, '_QueryResponse._has_mcast_within_one_quarter_ttl')] = \
        lambda g: (lambda t: {'self': t[0], 'record': g.rng.choice(t[2])})(with_ttls(g))

    def g_qu(g):
        qr, answers, pool = with_ttls(g)
        if g.rng.random() < 0.4:
            qr.add_qu_question_response({r: set() for r in pool if g.rng.random() < 0.3})
        return {'self': qr, 'answers': answers}
    R.generators[(QH, '_QueryResponse.add_qu_question_response')] = g_qu
    R.generators[(QH, '_QueryResponse.add_ucast_question_response')] = g_qu
    def g_ans(g):
        pool = [g.record() for _ in range(4)]
        return {r: {x for x in pool if g.rng.random() < 0.3} for r in pool if g.rng.random() < 0.6}

    def g_addans(g):
        from zeroconf._protocol.outgoing import DNSOutgoing
        return {'out': DNSOutgoing(33792, g.rng.random() < 0.5), 'answers': g_ans(g)}
    R.generators[(A, '_add_answers_additionals')] = g_addans
    R.generators[(A, 'construct_outgoing_multicast_answers')] = lambda g: {'answers': g_ans(g)}
    R.generators[(A, 'construct_outgoing_unicast_answers')] = lambda g: {
        'answers': g_ans(g), 'ucast_source': g.rng.random() < 0.5, 'questions': [g.question() for _ in range(g.rng.randint(0, 2))],
        'id_': g.rng.choice([0, 1, 4660])}
    g_route = R.generators[(QH, 'QueryHandler.handle_assembled_query')]

    def g_route11(g):
        kw = g_route(g)
        rlog = loop_model.CObj()
        rlog.asked = rlog.routed = rlog.ucasted = 0
        kw['__env__']['RLOG'] = rlog
        return kw
    R.generators[(QH, 'QueryHandler.handle_assembled_query')] = g_route11


NO_CONCRETE = {'QueryHandler.async_response'}
