"""C12 - reply timing: jitter, aggregation, one-second protection (queue side)."""
from pyvc.contracts import Loop
from contracts import records, loop_model, cache_model

PROP = 'C12'
M = 'zeroconf._handlers.multicast_outgoing_queue'
ASSUMPTIONS = [
    'A5 ideal timers: a callback armed for `due` runs atomically at CLOCK.now == due; the clock is constant inside one '
    'atomic step and loop.time()/current_time_millis() are the same clock',
    'the `now` passed to async_add is the arrival time of the query and equals the clock (queries answered on arrival; '
    'reassembled TC trains pass the first packet\'s time and are covered only by the TC clause)',
    'record identity model (C20)',
    'QueryHandler.async_response (which strategies answer, C03; history, C13) is assumed to touch neither queues, timers, '
    'send log nor clock; the TC deferral in _listener (400-500 ms hold, union of known answers) is not under contract in this build',
]
AT = 'dict[DNSRecord, set[DNSRecord]]'


def build(R):
    records.install(R)
    loop_model.install(R)
    R.shape('MulticastOutgoingQueue', {'zc': 'Zeroconf', 'queue': 'list[AnswerGroup]', '_multicast_delay_random_min': 'int',
                                       '_multicast_delay_random_max': 'int', '_additional_delay': 'int', '_aggregation_delay': 'int'})
    R.shape('AnswerGroup', {'send_after': 'real', 'send_before': 'real', 'answers': AT})
    R.shape('Zeroconf', {'loop': 'EventLoop'})
    R.shape('DNSOutgoing', {'multicast': 'bool', 'flags': 'int', 'g_answers': AT})
    # which records a reply carries as answers: here the ghost identity set of the (assumed) builder contracts; C11 verifies the
    # builders and redefines it over the builder's real answer list
    R.spec('carries', [('o', 'DNSOutgoing'), ('i', 'ident')], 'bool', 'o.g_answers.has(i)')
    # queue invariant: jitter window constants, strictly increasing send_after, non-decreasing send_before
    R.spec('mq_ok', [('q', 'MulticastOutgoingQueue')], 'bool',
           'q._multicast_delay_random_min == 20 and q._multicast_delay_random_max == 120 and q._additional_delay >= 0 '
           'and q._aggregation_delay >= 120 and q.zc is not None and q.zc.loop is not None and '
           'forall("j:int", lambda j: implies(0 <= j and j < len(q.queue), q.queue[j] is not None and cls_is(q.queue[j], AnswerGroup) and allocated(q.queue[j]) and q.queue[j].send_after <= q.queue[j].send_before)) and '
           'forall("j:int, m:int", lambda j, m: implies(0 <= j and j < m and m < len(q.queue), q.queue[j] is not q.queue[m] '
           '   and q.queue[j].send_after < q.queue[m].send_after))')
    # deadlines in arrival order (holds while queries are answered on arrival; a reassembled TC train carries the
    # arrival time of its first packet and may break it - the statement excepts those)
    R.spec('sb_mono', [('q', 'MulticastOutgoingQueue')], 'bool',
           'forall("j:int, m:int", lambda j, m: implies(0 <= j and j < m and m < len(q.queue), q.queue[j].send_before <= q.queue[m].send_before))')
    # a wake-up for this queue is pending that is due no later than the oldest group's deadline
    R.spec('armed', [('q', 'MulticastOutgoingQueue')], 'bool',
           'len(q.queue) == 0 or exists("p:int", lambda p: 0 <= p and p < len(TIMERS.events) and TIMERS.events[p][1] is q '
           '   and TIMERS.events[p][2] == mid("async_ready") and CLOCK.now <= TIMERS.events[p][0] '
           '   and TIMERS.events[p][0] <= q.queue[0].send_before)')
    T0 = 'old(len(TIMERS.events))'
    R.contract(M, 'MulticastOutgoingQueue.async_add', PROP, params={'now': 'real', 'answers': AT},
               requires=['mq_ok(self)', 'now <= CLOCK.now'],
               modifies=['self.queue', 'TIMERS.events', 'TimerHandle.cancelled[*]', 'AnswerGroup.send_after[*]',
                         'AnswerGroup.send_before[*]', 'AnswerGroup.answers[*]'],
               ghost_out={'random_delay': 'int'},
               ensures=[
                   'mq_ok(self)',
                   '20 + self._additional_delay <= random_delay and random_delay <= 120 + self._additional_delay',
                   # frame over groups: no existing group is re-timed; only the youngest group of THIS queue may gain answers
                   'forall("g:AnswerGroup", lambda g: implies(old(allocated(g)), g.send_after == old(g.send_after) and g.send_before == old(g.send_before)))',
                   'forall("g:AnswerGroup", lambda g: implies(old(allocated(g)) and not (old(len(self.queue)) > 0 and g is old(self.queue[len(self.queue) - 1])), '
                   '   forall("i:ident", lambda i: g.answers.has(i) == old(g.answers.has(i)))))',
                   'forall("j:int", lambda j: implies(0 <= j and j < len(self.queue) and j >= old(len(self.queue)), fresh_obj(self.queue[j])))',
                   # answered on arrival (now is the clock): the pending wake-up still covers the oldest deadline
                   'implies(now == CLOCK.now and old(armed(self)), armed(self))',
                   # arrival times do not go backwards => deadlines stay ordered
                   'implies(old(sb_mono(self)) and implies(old(len(self.queue)) > 0, '
                   '   old(self.queue[len(self.queue) - 1].send_before) <= now + self._aggregation_delay + self._additional_delay), sb_mono(self))',
                   # (1) merged into the youngest group: nothing re-timed, its window already satisfies the new answers
                   'implies(old(len(self.queue)) > 0 and now + random_delay <= old(self.queue[len(self.queue) - 1].send_after), '
                   '   len(self.queue) == old(len(self.queue)) and len(TIMERS.events) == %s '
                   '   and forall("j:int", lambda j: implies(0 <= j and j < len(self.queue), self.queue[j] is old(self.queue[j]) '
                   '        and self.queue[j].send_after == old(self.queue[j].send_after) and self.queue[j].send_before == old(self.queue[j].send_before))) '
                   '   and forall("i:ident", lambda i: self.queue[len(self.queue) - 1].answers.has(i) == '
                   '        (old(self.queue[len(self.queue) - 1].answers.has(i)) or answers.has(i))) '
                   '   and now + 20 + self._additional_delay <= self.queue[len(self.queue) - 1].send_after '
                   # (deadline of the group merged into: no later than this query's own, when arrivals are in order)
                   '   and implies(old(self.queue[len(self.queue) - 1].send_before) <= now + self._aggregation_delay + self._additional_delay, '
                   '        self.queue[len(self.queue) - 1].send_before <= now + self._aggregation_delay + self._additional_delay))' % T0,
                   # (2) otherwise a new youngest group with the jittered window
                   'implies(not (old(len(self.queue)) > 0 and now + random_delay <= old(self.queue[len(self.queue) - 1].send_after)), '
                   '   len(self.queue) == old(len(self.queue)) + 1 '
                   '   and self.queue[len(self.queue) - 1].send_after == now + random_delay '
                   '   and self.queue[len(self.queue) - 1].send_before == now + self._aggregation_delay + self._additional_delay '
                   '   and forall("i:ident", lambda i: self.queue[len(self.queue) - 1].answers.has(i) == answers.has(i)) '
                   '   and forall("j:int", lambda j: implies(0 <= j and j < old(len(self.queue)), self.queue[j] is old(self.queue[j]) '
                   '        and self.queue[j].send_after == old(self.queue[j].send_after) and self.queue[j].send_before == old(self.queue[j].send_before))))',
                   # (3) the wake-up: armed exactly when the queue was empty, for the group's send_after
                   'implies(old(len(self.queue)) == 0, len(TIMERS.events) == %s + 1 and TIMERS.events[%s][0] == CLOCK.now + random_delay '
                   '   and TIMERS.events[%s][1] is self and TIMERS.events[%s][2] == mid("async_ready"))' % (T0, T0, T0, T0),
                   'implies(old(len(self.queue)) > 0, len(TIMERS.events) == %s)' % T0,
                   'forall("p:int", lambda p: implies(0 <= p and p < %s, TIMERS.events[p] == old(TIMERS.events[p])))' % T0,
                   'forall("h:TimerHandle", lambda h: implies(old(allocated(h)), h.cancelled == old(h.cancelled)))',
               ])
    KEYS_OK = 'forall("i:ident", lambda i: implies(answers.has(i), answers.keyobj(i) is not None and ident(answers.keyobj(i)) == i))'
    R.contract(M, 'MulticastOutgoingQueue._remove_answers_from_queue', PROP, params={'answers': AT},
               requires=['mq_ok(self)', KEYS_OK],
               modifies=['AnswerGroup.answers[*]'],
               ensures=['forall("j:int, i:ident", lambda j, i: implies(0 <= j and j < len(self.queue), '
                        '   self.queue[j].answers.has(i) == (old(self.queue[j].answers.has(i)) and not answers.has(i))))',
                        'forall("g:AnswerGroup", lambda g: implies(not exists("j:int", lambda j: 0 <= j and j < len(self.queue) and self.queue[j] is g), '
                        '   forall("i:ident", lambda i: g.answers.has(i) == old(g.answers.has(i)))))'],
               loops={0: Loop(inv=[
                   'forall("j:int, i:ident", lambda j, i: implies(0 <= j and j < _k0, _it0[j].answers.has(i) == (old(_it0[j].answers.has(i)) and not answers.has(i))))',
                   'forall("g:AnswerGroup", lambda g: implies(not exists("j:int", lambda j: 0 <= j and j < _k0 and _it0[j] is g), '
                   '   forall("i:ident", lambda i: g.answers.has(i) == old(g.answers.has(i)))))',
                   'list_eq(_it0, self.queue)']),
                      1: Loop(inv=[
                   'forall("i:ident", lambda i: pending.answers.has(i) == (old(pending.answers.has(i)) and not exists("m:int", lambda m: 0 <= m and m < _k1 and ident(_it1[m]) == i)))',
                   'forall("j:int, i:ident", lambda j, i: implies(0 <= j and j < _k0, _it0[j].answers.has(i) == (old(_it0[j].answers.has(i)) and not answers.has(i))))',
                   'forall("g:AnswerGroup", lambda g: implies(g is not pending and not exists("j:int", lambda j: 0 <= j and j < _k0 and _it0[j] is g), '
                   '   forall("i:ident", lambda i: g.answers.has(i) == old(g.answers.has(i)))))',
                   'list_eq(_it0, self.queue)', '0 <= _k0 and _k0 < len(_it0) and pending is _it0[_k0]'])})
    A = 'zeroconf._handlers.answers'
    R.contract(A, 'construct_outgoing_multicast_answers', 'C11', params={'answers': AT}, returns='DNSOutgoing', trusted=True,
               ensures=['result is not None and fresh_obj(result) and result.multicast and result.flags == 33792',
                        'forall("i:ident", lambda i: carries(result, i) == answers.has(i))'],
               note='builds DNSOutgoing(_FLAGS_QR_RESPONSE | _FLAGS_AA, multicast=True) holding exactly these answers '
                    '(ghost field g_answers = identity set); the builder internals are C03/C11/C14')
    S0 = 'old(len(SENT.events))'
    K = '(old(len(self.queue)) - len(self.queue))'
    DELAY = '(old(len(self.queue)) > 1 and old(self.queue[0].send_before) > CLOCK.now)'
    R.contract(M, 'MulticastOutgoingQueue.async_ready', PROP,
               requires=['mq_ok(self)',
                         'forall("j:int, i:ident", lambda j, i: implies(0 <= j and j < len(self.queue) and self.queue[j].answers.has(i), '
                         '   self.queue[j].answers.keyobj(i) is not None and ident(self.queue[j].answers.keyobj(i)) == i))'],
               modifies=['self.queue', 'TIMERS.events', 'TimerHandle.cancelled[*]', 'SENT.events', 'AnswerGroup.answers[*]'],
               ensures=[
                   'mq_ok(self)', 'armed(self)', 'implies(old(sb_mono(self)), sb_mono(self))',
                   'forall("p:int", lambda p: implies(0 <= p and p < %s, TIMERS.events[p] == old(TIMERS.events[p])))' % T0,
                   'forall("p:int", lambda p: implies(0 <= p and p < %s, SENT.events[p] == old(SENT.events[p])))' % S0,
                   # (A) more than one group pending and the oldest may still wait: nothing is sent, wake up at its deadline
                   'implies(%s, len(self.queue) == old(len(self.queue)) and len(SENT.events) == %s and len(TIMERS.events) == %s + 1 '
                   '   and TIMERS.events[%s][0] == old(self.queue[0].send_before) and TIMERS.events[%s][1] is self '
                   '   and TIMERS.events[%s][2] == mid("async_ready") '
                   '   and forall("j:int", lambda j: implies(0 <= j and j < len(self.queue), self.queue[j] is old(self.queue[j]))))' % (DELAY, S0, T0, T0, T0, T0),
                   # (B) otherwise exactly the groups that are due leave the queue ...
                   'implies(not %s, 0 <= %s and %s <= old(len(self.queue)) '
                   '   and forall("j:int", lambda j: implies(0 <= j and j < len(self.queue), self.queue[j] is old(self.queue)[j + %s])) '
                   '   and forall("j:int", lambda j: implies(0 <= j and j < %s, old(self.queue)[j].send_after <= CLOCK.now)) '
                   '   and implies(len(self.queue) > 0, self.queue[0].send_after > CLOCK.now))' % (DELAY, K, K, K, K),
                   # ... in ONE builder holding the union of their answers (no identity twice: it is a set) ...
                   'implies(not %s and exists("j:int, i:ident", lambda j, i: 0 <= j and j < %s and old(old(self.queue)[j].answers.has(i))), '
                   '   len(SENT.events) == %s + 1 and SENT.events[%s][0] == CLOCK.now and SENT.events[%s][1].multicast '
                   '   and forall("i:ident", lambda i: carries(SENT.events[%s][1], i) == '
                   '        exists("j:int", lambda j: 0 <= j and j < %s and old(old(self.queue)[j].answers.has(i)))))' % (DELAY, K, S0, S0, S0, S0, K),
                   'implies(not %s and not exists("j:int, i:ident", lambda j, i: 0 <= j and j < %s and old(old(self.queue)[j].answers.has(i))), '
                   '   len(SENT.events) == %s)' % (DELAY, K, S0),
                   # ... what was sent is dropped from the groups still waiting (no duplicate across batches) ...
                   'implies(not %s, forall("g:AnswerGroup, i:ident", lambda g, i: implies(exists("j:int", lambda j: 0 <= j and j < len(self.queue) and self.queue[j] is g), '
                   '   g.answers.has(i) == (old(g.answers.has(i)) and '
                   '        not exists("m:int", lambda m: 0 <= m and m < %s and old(old(self.queue)[m].answers.has(i)))))))' % (DELAY, K),
                   # ... and the next wake-up is the new oldest group's send_after
                   'implies(not %s and len(self.queue) > 0, len(TIMERS.events) == %s + 1 and TIMERS.events[%s][0] == self.queue[0].send_after '
                   '   and TIMERS.events[%s][1] is self and TIMERS.events[%s][2] == mid("async_ready"))' % (DELAY, T0, T0, T0, T0),
                   'implies(not %s and len(self.queue) == 0, len(TIMERS.events) == %s)' % (DELAY, T0),
               ],
               loops={0: Loop(inv=[
                   '0 <= %s and %s <= old(len(self.queue))' % (K, K),
                   'forall("j:int", lambda j: implies(0 <= j and j < len(self.queue), self.queue[j] is old(self.queue)[j + %s]))' % K,
                   'forall("j:int", lambda j: implies(0 <= j and j < %s, old(self.queue)[j].send_after <= now))' % K,
                   'forall("i:ident", lambda i: answers.has(i) == exists("j:int", lambda j: 0 <= j and j < %s and old(old(self.queue)[j].answers.has(i))))' % K,
                   'forall("i:ident", lambda i: implies(answers.has(i), answers.keyobj(i) is not None and ident(answers.keyobj(i)) == i))',
                   'now == CLOCK.now and zc is self.zc and loop is self.zc.loop',
               ], modifies=['self.queue'], decreases='len(self.queue)')})
    install_classify(R)
    install_routing(R)
    install_tc(R)
    # every answer of a group is sent inside [arrival + 20 + additional, arrival + aggregation + additional]:
    # a group is sent at an instant T with send_after <= T (async_ready pops only due groups) and, by the timer
    # invariant + ideal timers, T <= send_before
    R.lemma('answer_window', PROP, {'arrival': 'real', 'send_after': 'real', 'send_before': 'real', 'T': 'real',
                                    'additional': 'real', 'aggregation': 'real'},
            ['arrival + 20 + additional <= send_after', 'send_before <= arrival + aggregation + additional',
             'send_after <= T and T <= send_before'],
            ['arrival + 20 + additional <= T and T <= arrival + aggregation + additional'])
    R.lemma('protected_queue_window', PROP, {'arrival': 'real', 'seen': 'real', 'T': 'real'},
            # out_delay_queue: additional = 1000, aggregation = 200; the record was seen multicast at `seen` <= arrival
            ['seen <= arrival', 'arrival + 20 + 1000 <= T and T <= arrival + 200 + 1000'],
            ['T >= seen + 1000 and T <= arrival + 1200'])


QH = 'zeroconf._handlers.query_handler'
SR = 'set[DNSRecord]'


def install_classify(R):
    """which of the three multicast routes an answer takes (query_handler._QueryResponse)"""
    cache_model.install(R)
    R.shape('_QueryResponse', {'_is_probe': 'bool', '_questions': 'list[DNSQuestion]', '_now': 'real', '_cache': 'DNSCache',
                               '_additionals': AT, '_ucast': SR, '_mcast_now': SR, '_mcast_aggregate': SR,
                               '_mcast_aggregate_last_second': SR})
    R.shape('QuestionAnswers', {'ucast': AT, 'mcast_now': AT, 'mcast_aggregate': AT, 'mcast_aggregate_last_second': AT})
    # seen multicast less than a second before the query arrived: the cache holds the sighting and its time
    R.spec('seen_1s', [('q', '_QueryResponse'), ('i', 'ident')], 'bool',
           'in_cache(q._cache, i) and q._now - cached(q._cache, i).created < 1000')
    R.spec('immediate', [('q', '_QueryResponse')], 'bool',
           'len(q._questions) == 1 and (q._questions[0].type == 47 or q._questions[0].type == 33 '
           '   or q._questions[0].type == 1 or q._questions[0].type == 28)')
    R.spec('set_ok', [('s', SR)], 'bool',
           'forall("i:ident", lambda i: implies(s.has(i), s.keyobj(i) is not None and ident(s.keyobj(i)) == i))')
    R.spec('keys_ok', [('m', AT)], 'bool',
           'forall("i:ident", lambda i: implies(m.has(i), m.keyobj(i) is not None and ident(m.keyobj(i)) == i))')
    R.spec('qr_ok', [('q', '_QueryResponse')], 'bool',
           'q._cache is not None and wf_cache(q._cache) and set_ok(q._ucast) and set_ok(q._mcast_now) '
           'and set_ok(q._mcast_aggregate) and set_ok(q._mcast_aggregate_last_second) and '
           'forall("j:int", lambda j: implies(0 <= j and j < len(q._questions), q._questions[j] is not None)) and '
           'forall("i:ident", lambda i: implies(q._ucast.has(i) or q._mcast_now.has(i) or q._mcast_aggregate.has(i) '
           '   or q._mcast_aggregate_last_second.has(i), q._additionals.has(i)))')
    R.contract(QH, '_QueryResponse._has_mcast_record_in_last_second', PROP, params={'record': 'DNSRecord'}, returns='bool',
               requires=['qr_ok(self)', 'record is not None'],
               ensures=['result == seen_1s(self, ident(record))'])
    KEYS_OK = 'forall("i:ident", lambda i: implies(answers.has(i), answers.keyobj(i) is not None and ident(answers.keyobj(i)) == i))'
    HIT = 'exists("m:int", lambda m: 0 <= m and m < _k and ident(_it[m]) == i)'

    def routes(member):
        return ['forall("i:ident", lambda i: self._mcast_now.has(i) == (old(self._mcast_now.has(i)) or '
                '   (%s and (self._is_probe or (not seen_1s(self, i) and immediate(self))))))' % member,
                'forall("i:ident", lambda i: self._mcast_aggregate_last_second.has(i) == (old(self._mcast_aggregate_last_second.has(i)) or '
                '   (%s and not self._is_probe and seen_1s(self, i))))' % member,
                'forall("i:ident", lambda i: self._mcast_aggregate.has(i) == (old(self._mcast_aggregate.has(i)) or '
                '   (%s and not self._is_probe and not seen_1s(self, i) and not immediate(self))))' % member]
    R.contract(QH, '_QueryResponse.add_mcast_question_response', PROP, params={'answers': AT},
               requires=['qr_ok(self)', KEYS_OK],
               modifies=['self._additionals', 'self._mcast_now', 'self._mcast_aggregate', 'self._mcast_aggregate_last_second'],
               ensures=['qr_ok(self)',
                        'forall("i:ident", lambda i: self._additionals.has(i) == (old(self._additionals.has(i)) or answers.has(i)))']
               + routes('answers.has(i)'),
               loops={0: Loop(inv=['qr_ok(self)',
                                   'forall("i:ident", lambda i: self._additionals.has(i) == (old(self._additionals.has(i)) or answers.has(i)))']
                              + routes(HIT),
                              modifies=['self._mcast_now', 'self._mcast_aggregate', 'self._mcast_aggregate_last_second'])})
    R.contract(QH, '_QueryResponse.answers', PROP, returns='QuestionAnswers', requires=['qr_ok(self)'],
               ensures=['result is not None and fresh_obj(result)',
                        'keys_ok(result.ucast) and keys_ok(result.mcast_now) and keys_ok(result.mcast_aggregate) and keys_ok(result.mcast_aggregate_last_second)',
                        'forall("i:ident", lambda i: result.ucast.has(i) == self._ucast.has(i))',
                        'forall("i:ident", lambda i: result.mcast_now.has(i) == self._mcast_now.has(i))',
                        'forall("i:ident", lambda i: result.mcast_aggregate.has(i) == self._mcast_aggregate.has(i))',
                        'forall("i:ident", lambda i: result.mcast_aggregate_last_second.has(i) == self._mcast_aggregate_last_second.has(i))'])


def install_routing(R):
    """handle_assembled_query: each class of answers goes to its route, with the arrival time of the first packet"""
    R.shape('QuestionHistory', {'_history': 'dict[DNSQuestion, tuple[real, set[DNSRecord]]]'})
    R.shape('QueryHandler', {'zc': 'Zeroconf', 'out_queue': 'MulticastOutgoingQueue', 'out_delay_queue': 'MulticastOutgoingQueue'})
    R.shape('DNSIncoming', {'now': 'real', '_questions': 'list[DNSQuestion]', 'id': 'int'})
    R.contract(QH, 'QueryHandler.async_response', 'C03', params={'msgs': 'list[DNSIncoming]', 'ucast_source': 'bool'},
               returns='opt[QuestionAnswers]', trusted=True, modifies=['QuestionHistory._history[*]'],
               ensures=['implies(result is not None, fresh_obj(result))'],
               note='builds the answer sets (C03 strategies, the classification proved above, question history C13); assumed '
                    'here to write nothing but the question history and objects it creates (in particular not the queues, '
                    'the timers, the send log or the clock)')
    R.contract('zeroconf._handlers.answers', 'construct_outgoing_unicast_answers', 'C11',
               params={'answers': AT, 'ucast_source': 'bool', 'questions': 'list[DNSQuestion]', 'id_': 'int'},
               returns='DNSOutgoing', trusted=True,
               ensures=['result is not None and fresh_obj(result) and not result.multicast',
                        'forall("i:ident", lambda i: carries(result, i) == answers.has(i))'])
    S0 = 'old(len(SENT.events))'
    NU = '(ite(len(question_answers.ucast) > 0, 1, 0))'
    R.contract(QH, 'QueryHandler.handle_assembled_query', PROP,
               params={'packets': 'list[DNSIncoming]', 'addr': 'str', 'port': 'int', 'transport': 'object', 'v6_flow_scope': 'object'},
               requires=['len(packets) > 0 and packets[0] is not None', 'self.zc is not None',
                         'self.out_queue is not None and self.out_delay_queue is not None and self.out_queue is not self.out_delay_queue',
                         'mq_ok(self.out_queue) and mq_ok(self.out_delay_queue)',
                         'forall("j:int, m:int", lambda j, m: implies(0 <= j and j < len(self.out_queue.queue) and 0 <= m and m < len(self.out_delay_queue.queue), self.out_queue.queue[j] is not self.out_delay_queue.queue[m]))',
                         'packets[0].now <= CLOCK.now', 'self.out_queue.zc is self.zc and self.out_delay_queue.zc is self.zc'],
               modifies=['QuestionHistory._history[*]', 'MulticastOutgoingQueue.queue[*]', 'TIMERS.events', 'TimerHandle.cancelled[*]',
                         'SENT.events', 'AnswerGroup.send_after[*]', 'AnswerGroup.send_before[*]', 'AnswerGroup.answers[*]'],
               ghost_out={'question_answers': 'opt[QuestionAnswers]'},
               at_calls={'self.async_response(packets, ucast_source)': ['ucast_source == (port != 5353)'],
                         },
               ensures=[
                   'mq_ok(self.out_queue) and mq_ok(self.out_delay_queue)',
                   # timers are only ever added here (the queues arm their wake-ups), never cancelled or rewritten
                   'len(TIMERS.events) >= old(len(TIMERS.events))',
                   'forall("p:int", lambda p: implies(0 <= p and p < old(len(TIMERS.events)), TIMERS.events[p] == old(TIMERS.events[p])))',
                   'forall("h:TimerHandle", lambda h: implies(old(allocated(h)), h.cancelled == old(h.cancelled)))',

                   'forall("j:int, m:int", lambda j, m: implies(0 <= j and j < len(self.out_queue.queue) and 0 <= m and m < len(self.out_delay_queue.queue), self.out_queue.queue[j] is not self.out_delay_queue.queue[m]))',
                   'implies(question_answers is None, len(SENT.events) == %s and len(self.out_queue.queue) == old(len(self.out_queue.queue)) '
                   '   and len(self.out_delay_queue.queue) == old(len(self.out_delay_queue.queue)))' % S0,
                   # answered at once: exactly mcast_now, in this very step
                   'implies(question_answers is not None and len(question_answers.mcast_now) > 0, len(SENT.events) == %s + %s + 1 '
                   '   and SENT.events[%s + %s][0] == CLOCK.now and SENT.events[%s + %s][1].multicast '
                   '   and forall("i:ident", lambda i: carries(SENT.events[%s + %s][1], i) == question_answers.mcast_now.has(i)))' % (S0, NU, S0, NU, S0, NU, S0, NU),
                   'implies(question_answers is not None and len(question_answers.mcast_now) == 0, len(SENT.events) == %s + %s)' % (S0, NU),
                   'implies(question_answers is not None and len(question_answers.ucast) > 0, not SENT.events[%s][1].multicast '
                   '   and forall("i:ident", lambda i: carries(SENT.events[%s][1], i) == question_answers.ucast.has(i)))' % (S0, S0),
                   # aggregated answers: youngest group of the 0/500 ms queue covers them, timed from the first packet
                   'implies(question_answers is not None and len(question_answers.mcast_aggregate) > 0, len(self.out_queue.queue) > 0 '
                   '   and forall("i:ident", lambda i: implies(question_answers.mcast_aggregate.has(i), self.out_queue.queue[len(self.out_queue.queue) - 1].answers.has(i))) '
                   '   and packets[0].now + 20 + self.out_queue._additional_delay <= self.out_queue.queue[len(self.out_queue.queue) - 1].send_after)',
                   'implies(question_answers is None or len(question_answers.mcast_aggregate) == 0, len(self.out_queue.queue) == old(len(self.out_queue.queue)) '
                   '   and forall("j:int, i:ident", lambda j, i: implies(0 <= j and j < len(self.out_queue.queue), '
                   '        self.out_queue.queue[j].answers.has(i) == old(self.out_queue.queue[j].answers.has(i)))))',
                   # seen in the last second: only ever into the protected queue
                   'implies(question_answers is not None and len(question_answers.mcast_aggregate_last_second) > 0, len(self.out_delay_queue.queue) > 0 '
                   '   and forall("i:ident", lambda i: implies(question_answers.mcast_aggregate_last_second.has(i), '
                   '        self.out_delay_queue.queue[len(self.out_delay_queue.queue) - 1].answers.has(i))) '
                   '   and packets[0].now + 20 + self.out_delay_queue._additional_delay <= self.out_delay_queue.queue[len(self.out_delay_queue.queue) - 1].send_after)',
                   'implies(question_answers is None or len(question_answers.mcast_aggregate_last_second) == 0, len(self.out_delay_queue.queue) == old(len(self.out_delay_queue.queue)) '
                   '   and forall("j:int, i:ident", lambda j, i: implies(0 <= j and j < len(self.out_delay_queue.queue), '
                   '        self.out_delay_queue.queue[j].answers.has(i) == old(self.out_delay_queue.queue[j].answers.has(i)))))',
               ])


def install_tc(R):
    """Truncated (TC) queries: held per source 400-500 ms after the last new packet, byte-identical repeats ignored,
    then answered ONCE with every deferred packet (the union of the known answers is taken by async_response)."""
    L = 'zeroconf._listener'
    R.shape('AsyncListener', {'zc': 'Zeroconf', '_query_handler': 'QueryHandler', '_deferred': 'dict[str, list[DNSIncoming]]',
                              '_timers': 'dict[str, TimerHandle]'})
    R.shape('DNSIncoming', {'flags': 'int', 'data': 'bytes'})
    R.spec('hq_ok', [('h', 'QueryHandler')], 'bool',
           'h.zc is not None and h.out_queue is not None and h.out_delay_queue is not None and h.out_queue is not h.out_delay_queue '
           'and mq_ok(h.out_queue) and mq_ok(h.out_delay_queue) and h.out_queue.zc is h.zc and h.out_delay_queue.zc is h.zc and '
           'forall("j:int, m:int", lambda j, m: implies(0 <= j and j < len(h.out_queue.queue) and 0 <= m and m < len(h.out_delay_queue.queue), '
           '   h.out_queue.queue[j] is not h.out_delay_queue.queue[m]))')
    # a source has deferred packets exactly while a hold timer of this listener is pending for it
    R.spec('tc_ok', [('l', 'AsyncListener')], 'bool',
           'l.zc is not None and l.zc.loop is not None and l._query_handler is not None and '
           'forall("a:str", lambda a: l._deferred.has(a) == l._timers.has(a)) and '
           'forall("a:str", lambda a: implies(l._deferred.has(a), len(l._deferred[a]) > 0)) and '
           'forall("a:str, b:str", lambda a, b: implies(a != b and l._timers.has(a) and l._timers.has(b), l._timers[a] is not l._timers[b])) and '
           'forall("a:str, j:int", lambda a, j: implies(l._deferred.has(a) and 0 <= j and j < len(l._deferred[a]), '
           '   l._deferred[a][j] is not None and l._deferred[a][j].now <= CLOCK.now)) and '
           'forall("a:str", lambda a: implies(l._timers.has(a), l._timers[a] is not None and cls_is(l._timers[a], TimerHandle) and allocated(l._timers[a]) and not l._timers[a].cancelled '
           '   and exists("p:int", lambda p: 0 <= p and p < len(TIMERS.events) and TIMERS.events[p][3] is l._timers[a] '
           '        and TIMERS.events[p][1] is l and TIMERS.events[p][2] == mid("_respond_query"))))')
    T0 = 'old(len(TIMERS.events))'
    OTHERS = ['forall("a:str", lambda a: implies(a != addr, self._deferred.has(a) == old(self._deferred.has(a)) and self._timers.has(a) == old(self._timers.has(a)) '
              '   and implies(self._timers.has(a), self._timers[a] is old(self._timers[a])) '
              '   and implies(self._deferred.has(a), list_eq(self._deferred[a], old(self._deferred[a])))))',
              'forall("h:TimerHandle", lambda h: implies(old(allocated(h)) and not (old(self._timers.has(addr)) and h is old(self._timers[addr])), h.cancelled == old(h.cancelled)))',
              'forall("p:int", lambda p: implies(0 <= p and p < %s, TIMERS.events[p] == old(TIMERS.events[p])))' % T0]
    HMOD = ['QuestionHistory._history[*]', 'MulticastOutgoingQueue.queue[*]', 'TIMERS.events', 'TimerHandle.cancelled[*]',
            'SENT.events', 'AnswerGroup.send_after[*]', 'AnswerGroup.send_before[*]', 'AnswerGroup.answers[*]']
    N0 = 'old(ite(self._deferred.has(addr), len(self._deferred[addr]), 0))'
    R.contract(L, 'AsyncListener._respond_query', PROP,
               params={'msg': 'opt[DNSIncoming]', 'addr': 'str', 'port': 'int', 'transport': 'object', 'v6_flow_scope': 'object'},
               requires=['tc_ok(self)', 'hq_ok(self._query_handler)', 'msg is not None or self._deferred.has(addr)',
                         'implies(msg is not None, msg.now <= CLOCK.now)'],
               modifies=['self._deferred', 'self._timers'] + HMOD,
               at_calls={'handle_assembled_query': [
                   # answered once (the only call site), with every packet held for this source, in arrival order, and the current one
                   'len(packets) == %s + ite(msg is not None, 1, 0)' % N0,
                   'forall("j:int", lambda j: implies(0 <= j and j < %s, packets[j] is old(self._deferred[addr][j])))' % N0,
                   'implies(msg is not None, packets[len(packets) - 1] is msg)',
                   # the hold is over before the answer is built
                   'not self._deferred.has(addr) and not self._timers.has(addr)']},
               ensures=['tc_ok(self)', 'hq_ok(self._query_handler)',
                        'not self._deferred.has(addr) and not self._timers.has(addr)',
                        'implies(old(self._timers.has(addr)), old(self._timers[addr]).cancelled)'] + OTHERS)
    DUP = ('(self._deferred.has(addr) and exists("j:int", lambda j: 0 <= j and j < len(self._deferred[addr]) '
           'and self._deferred[addr][j].data == msg.data))')
    TRUNC = '(msg.flags // 512 % 2 == 1)'
    R.contract(L, 'AsyncListener.handle_query_or_defer', PROP,
               params={'msg': 'DNSIncoming', 'addr': 'str', 'port': 'int', 'transport': 'object', 'v6_flow_scope': 'object'},
               requires=['tc_ok(self)', 'hq_ok(self._query_handler)', 'msg is not None and msg.now <= CLOCK.now', 'msg.flags >= 0'],
               modifies=['self._deferred', 'self._timers'] + HMOD,
               ensures=['tc_ok(self)', 'hq_ok(self._query_handler)',
                        # a complete query: answered now together with anything held for this source
                        'implies(not %s, not self._deferred.has(addr) and not self._timers.has(addr))' % TRUNC,
                        # a byte-identical repeat of a held packet: ignored, the hold is not extended
                        'implies(%s and old(%s), heap_unchanged())' % (TRUNC, DUP),
                        # a new truncated packet: appended, and the hold restarts 400-500 ms from now, replacing the old timer
                        'implies(%s and not old(%s), self._deferred.has(addr) and len(self._deferred[addr]) == %s + 1 '
                        '   and self._deferred[addr][%s] is msg '
                        '   and forall("j:int", lambda j: implies(0 <= j and j < %s, self._deferred[addr][j] is old(self._deferred[addr][j]))) '
                        '   and self._timers.has(addr) and fresh_obj(self._timers[addr]) and len(TIMERS.events) == %s + 1 '
                        '   and TIMERS.events[%s][3] is self._timers[addr] and TIMERS.events[%s][1] is self and TIMERS.events[%s][2] == mid("_respond_query") '
                        '   and CLOCK.now + 400 <= TIMERS.events[%s][0] and TIMERS.events[%s][0] <= CLOCK.now + 500 '
                        '   and implies(old(self._timers.has(addr)), old(self._timers[addr]).cancelled) '
                        '   and len(SENT.events) == old(len(SENT.events)))' % (TRUNC, DUP, N0, N0, N0, T0, T0, T0, T0, T0, T0)] + OTHERS,
               loops={0: Loop(inv=['forall("j:int", lambda j: implies(0 <= j and j < _k0, _it0[j].data != msg.data))',
                                   'len(_it0) == len(deferred)',
                                   'forall("j:int", lambda j: implies(0 <= j and j < len(_it0), _it0[j] is deferred[len(deferred) - 1 - j]))'],
                              modifies=[])})


def configure(ctx, R):
    records.configure(ctx)
    install_generators(R)
    install_classify_generators(R)
    install_routing_generators(R)
    install_tc_generators(R)


NO_CONCRETE = set()


def install_generators(R):
    from contracts.loop_model import concrete_world, method_id

    def mk_queue(g):
        from zeroconf._handlers.multicast_outgoing_queue import MulticastOutgoingQueue
        from zeroconf._handlers.answers import AnswerGroup
        now = g.rng.choice([1000.0, 5000.0])
        clock, timers, sent, loop = concrete_world(now)

        class ZC:
            def async_send(self, out, *a):
                sent.events.append((clock.now, out, bool(a and a[0] is not None), (a[0] if a and a[0] is not None else ''), (a[1] if len(a) > 1 else 5353), (a[3] if len(a) > 3 else None)))
        zc = ZC()
        zc.loop = loop
        additional, aggr = g.rng.choice([(0, 500), (1000, 200)])
        q = MulticastOutgoingQueue(zc, additional, aggr)
        t = now - g.rng.choice([0, 100, 300, 600])
        pool = [g.record() for _ in range(3)]
        for _ in range(g.rng.randint(0, 3)):
            t += g.rng.choice([1, 30, 90, 200])
            arrival = t
            ans = {g.rng.choice(pool): set() for _ in range(g.rng.randint(0, 2))}
            q.queue.append(AnswerGroup(arrival + g.rng.randint(20, 120) + additional, arrival + aggr + additional, ans))
        # keep it strictly increasing in send_after
        last = None
        for grp in list(q.queue):
            if last is not None and grp.send_after <= last:
                q.queue.remove(grp)
            else:
                last = grp.send_after
        env = {'CLOCK': clock, 'TIMERS': timers, 'SENT': sent}
        return q, env, now

    def g_add(g):
        q, env, now = mk_queue(g)
        _wrap_rand()
        ans = {g.record(): set() for _ in range(g.rng.randint(0, 3))}
        return {'self': q, 'now': now, 'answers': ans, '__env__': env, '__clock__': now,
                '__ghost_out__': lambda kw, res: {'random_delay': _recover_delay(kw, env)}}

    _draws = []

    def _recover_delay(kw, env):
        # the draw is observed by wrapping the module's RAND_INT (the real generator still produces the value)
        return _draws[-1] + kw['self']._additional_delay

    def _wrap_rand():
        import zeroconf._handlers.multicast_outgoing_queue as moq
        if getattr(moq.RAND_INT, '_verif_wrapped', False):
            return
        real = moq.RAND_INT

        def rand(a, b):
            v = real(a, b)
            _draws.append(v)
            return v
        rand._verif_wrapped = True
        moq.RAND_INT = rand
    R.generators[(M, 'MulticastOutgoingQueue.async_add')] = g_add

    def g_rm(g):
        q, env, now = mk_queue(g)
        pool = [r for grp in q.queue for r in grp.answers]
        ans = {r: set() for r in pool if g.rng.random() < 0.5}
        ans.update({g.record(): set() for _ in range(g.rng.randint(0, 1))})
        return {'self': q, 'answers': ans, '__env__': env}
    R.generators[(M, 'MulticastOutgoingQueue._remove_answers_from_queue')] = g_rm

    def g_ready(g):
        q, env, now = mk_queue(g)
        if q.queue and g.rng.random() < 0.7:
            grp = g.rng.choice(list(q.queue))
            env['CLOCK'].now = g.rng.choice([grp.send_after - 1, grp.send_after, grp.send_after + 1, grp.send_before, grp.send_before + 1])
        return {'self': q, '__env__': env, '__clock__': env['CLOCK'].now}
    R.generators[(M, 'MulticastOutgoingQueue.async_ready')] = g_ready


def install_classify_generators(R):
    def mk_qr(g):
        import copy
        from zeroconf._handlers.query_handler import _QueryResponse
        cache = g.cache()
        cached = [r for st in cache.cache.values() for r in st]
        now = g.rng.choice([1500.0, 2000.0, 2999.0, 3000.0, 3001.0, 10000.0])
        for r in cached:
            r.created = now - g.rng.choice([0, 1, 999, 1000, 1001, 5000])
        qs = [g.question() for _ in range(g.rng.choice([1, 1, 2, 0]))]
        if qs and g.rng.random() < 0.5:
            qs[0].type = g.rng.choice([1, 28, 33, 47, 12, 16, 255])
        qr = _QueryResponse(cache, qs, g.rng.random() < 0.25, now)
        pool = [copy.copy(r) for r in cached] + [g.record() for _ in range(2)]
        answers = {r: set() for r in pool if g.rng.random() < 0.6}
        return qr, answers, pool
    R.mk_qr = mk_qr
    R.generators[(QH, '_QueryResponse._has_mcast_record_in_last_second')] = \
        lambda g: (lambda t: {'self': t[0], 'record': g.rng.choice(t[2])})(mk_qr(g))

    def g_add(g):
        qr, answers, pool = mk_qr(g)
        if g.rng.random() < 0.4:
            qr.add_mcast_question_response({r: set() for r in pool if g.rng.random() < 0.3})
        return {'self': qr, 'answers': answers}
    R.generators[(QH, '_QueryResponse.add_mcast_question_response')] = g_add

    def g_answers(g):
        qr, answers, pool = mk_qr(g)
        qr.add_mcast_question_response(answers)
        qr.add_ucast_question_response({r: set() for r in pool if g.rng.random() < 0.3})
        return {'self': qr}
    R.generators[(QH, '_QueryResponse.answers')] = g_answers


def install_tc_generators(R):
    """A real AsyncListener (only the fields the TC path touches) in front of the routing world of g_route."""
    L = 'zeroconf._listener'
    g_route = R.generators[(QH, 'QueryHandler.handle_assembled_query')]

    def mk(g):
        from zeroconf._listener import AsyncListener
        from zeroconf._protocol.incoming import DNSIncoming
        kw = g_route(g)
        qh, env, now = kw['self'], kw['__env__'], kw['__clock__']
        base = kw['packets'][0].data
        lst = AsyncListener.__new__(AsyncListener)
        lst.zc = qh.zc
        lst._query_handler = qh
        lst._deferred = {}
        lst._timers = {}
        loop = qh.zc.loop

        def pkt(tc, variant=0, at=None):
            d = bytearray(base)
            if tc:
                d[2] |= 0x02
            d[0], d[1] = 0, variant          # the id distinguishes otherwise equal packets
            return DNSIncoming(bytes(d), ('1.2.3.4', 5353), None, at if at is not None else now)
        for a in g.rng.sample(['1.2.3.4', '5.6.7.8'], g.rng.randint(0, 2)):
            lst._deferred[a] = [pkt(True, v, now - g.rng.choice([0.0, 100.0, 300.0])) for v in range(g.rng.randint(1, 3))]
            lst._timers[a] = loop.call_at((now + g.rng.choice([10.0, 250.0, 450.0])) / 1000.0, lst._respond_query, None, a, 5353, None, ())
        return lst, pkt, kw, env, now

    def g_defer(g):
        lst, pkt, kw, env, now = mk(g)
        tc = g.rng.random() < 0.75
        msg = pkt(tc, g.rng.choice([0, 0, 1, 2, 3]))
        return {'self': lst, 'msg': msg, 'addr': g.rng.choice(['1.2.3.4', '5.6.7.8', '9.9.9.9']), 'port': kw['port'],
                'transport': kw['transport'], 'v6_flow_scope': (), '__env__': env, '__clock__': now}
    R.generators[(L, 'AsyncListener.handle_query_or_defer')] = g_defer

    def g_respond(g):
        lst, pkt, kw, env, now = mk(g)
        msg = None if g.rng.random() < 0.4 else pkt(False, 7)
        return {'self': lst, 'msg': msg, 'addr': g.rng.choice(['1.2.3.4', '5.6.7.8', '9.9.9.9']), 'port': kw['port'],
                'transport': kw['transport'], 'v6_flow_scope': (), '__env__': env, '__clock__': now}
    R.generators[(L, 'AsyncListener._respond_query')] = g_respond


def install_routing_generators(R):
    from contracts.loop_model import concrete_world
    from contracts.registry_model import mk_registry

    def g_route(g):
        from zeroconf._handlers.query_handler import QueryHandler
        from zeroconf._handlers.multicast_outgoing_queue import MulticastOutgoingQueue
        from zeroconf._history import QuestionHistory
        from zeroconf._cache import DNSCache
        from zeroconf._protocol.outgoing import DNSOutgoing
        from zeroconf._protocol.incoming import DNSIncoming
        from zeroconf._dns import DNSQuestion
        from zeroconf import const
        now = g.rng.choice([5000.0, 100000.0])
        clock, timers, sent, loop = concrete_world(now)
        seen = {}

        class ZC:
            def async_send(self, out, *a):
                sent.events.append((clock.now, out, bool(a and a[0] is not None), (a[0] if a and a[0] is not None else ''), (a[1] if len(a) > 1 else 5353), (a[3] if len(a) > 3 else None)))

        class QH(QueryHandler):      # same methods; only remembers what async_response returned (ghost question_answers)
            def async_response(self, msgs, ucast_source):
                seen['qa'] = QueryHandler.async_response(self, msgs, ucast_source)
                return seen['qa']
        zc = ZC()
        zc.loop = loop
        zc.registry = mk_registry(g)
        zc.cache = DNSCache()
        zc.question_history = QuestionHistory()
        zc.out_queue = MulticastOutgoingQueue(zc, 0, 500)
        zc.out_delay_queue = MulticastOutgoingQueue(zc, 1000, 200)
        qh = QH(zc)
        infos = list(zc.registry._services.values())
        # some of our own records were seen on the wire recently
        for info in infos:
            import copy
            for rec in [copy.copy(r_) for r_ in [info.dns_pointer(), info.dns_service(), info.dns_text()] + info.dns_addresses()]:
                if g.rng.random() < 0.4:
                    rec.created = now - g.rng.choice([0, 500, 999, 1000, 1001, 30000])
                    zc.cache.async_add_records([rec])
        out = DNSOutgoing(const._FLAGS_QR_QUERY)
        names = [i.type for i in infos] + [i.name for i in infos] + [i.server for i in infos if i.server] + ['_none._tcp.local.']
        for _ in range(g.rng.choice([1, 1, 2])):
            q = DNSQuestion(g.rng.choice(names), g.rng.choice([const._TYPE_PTR, const._TYPE_SRV, const._TYPE_A, const._TYPE_TXT, const._TYPE_ANY]), const._CLASS_IN)
            q.unicast = g.rng.random() < 0.2
            out.add_question(q)
        pkt = DNSIncoming(out.packets()[0], ('1.2.3.4', 5353), None, now)
        env = {'CLOCK': clock, 'TIMERS': timers, 'SENT': sent}
        return {'self': qh, 'packets': [pkt], 'addr': '1.2.3.4', 'port': g.rng.choice([5353, 5353, 40000]), 'transport': object(),
                'v6_flow_scope': (), '__env__': env, '__clock__': now,
                '__ghost_out__': lambda kw, res: {'question_answers': seen.get('qa')}}
    R.generators[(QH, 'QueryHandler.handle_assembled_query')] = g_route
