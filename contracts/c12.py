"""C12 - reply timing: jitter, aggregation, one-second protection (queue side)."""
from pyvc.contracts import Loop
from contracts import records, loop_model

PROP = 'C12'
M = 'zeroconf._handlers.multicast_outgoing_queue'
ASSUMPTIONS = [
    'A5 ideal timers: a callback armed for `due` runs atomically at CLOCK.now == due; the clock is constant inside one '
    'atomic step and loop.time()/current_time_millis() are the same clock',
    'the `now` passed to async_add is the arrival time of the query and equals the clock (queries answered on arrival; '
    'reassembled TC trains pass the first packet\'s time and are covered only by the TC clause)',
    'record identity model (C20)',
    'classification of answers (add_mcast_question_response) and the TC deferral in _listener are not under contract in '
    'this build',
]
AT = 'dict[DNSRecord, set[DNSRecord]]'


def build(R):
    records.install(R)
    loop_model.install(R)
    R.shape('MulticastOutgoingQueue', {'zc': 'Zeroconf', 'queue': 'list[AnswerGroup]', '_multicast_delay_random_min': 'int',
                                       '_multicast_delay_random_max': 'int', '_additional_delay': 'int', '_aggregation_delay': 'int'})
    R.shape('AnswerGroup', {'send_after': 'real', 'send_before': 'real', 'answers': AT})
    R.shape('Zeroconf', {'loop': 'EventLoop'})
    R.shape('DNSOutgoing', {'multicast': 'bool', 'flags': 'int', 'g_answers': AT})
    # queue invariant: jitter window constants, strictly increasing send_after, non-decreasing send_before
    R.spec('mq_ok', [('q', 'MulticastOutgoingQueue')], 'bool',
           'q._multicast_delay_random_min == 20 and q._multicast_delay_random_max == 120 and q._additional_delay >= 0 '
           'and q._aggregation_delay >= 120 and q.zc is not None and q.zc.loop is not None and '
           'forall("j:int", lambda j: implies(0 <= j and j < len(q.queue), q.queue[j] is not None and allocated(q.queue[j]) and q.queue[j].send_after <= q.queue[j].send_before)) and '
           'forall("j:int, m:int", lambda j, m: implies(0 <= j and j < m and m < len(q.queue), q.queue[j] is not q.queue[m] '
           '   and q.queue[j].send_after < q.queue[m].send_after and q.queue[j].send_before <= q.queue[m].send_before))')
    T0 = 'old(len(TIMERS.events))'
    R.contract(M, 'MulticastOutgoingQueue.async_add', PROP, params={'now': 'real', 'answers': AT},
               requires=['mq_ok(self)', 'now == CLOCK.now',
                         # arrival times do not go backwards: the youngest queued group was queued at or before `now`
                         'implies(len(self.queue) > 0, self.queue[len(self.queue) - 1].send_before <= now + self._aggregation_delay + self._additional_delay)'],
               modifies=['self.queue', 'TIMERS.events', 'TimerHandle.cancelled[*]', 'AnswerGroup.send_after[*]',
                         'AnswerGroup.send_before[*]', 'AnswerGroup.answers[*]'],
               ghost_out={'random_delay': 'int'},
               ensures=[
                   'mq_ok(self)',
                   '20 + self._additional_delay <= random_delay and random_delay <= 120 + self._additional_delay',
                   # (1) merged into the youngest group: nothing re-timed, its window already satisfies the new answers
                   'implies(old(len(self.queue)) > 0 and now + random_delay <= old(self.queue[len(self.queue) - 1].send_after), '
                   '   len(self.queue) == old(len(self.queue)) and len(TIMERS.events) == %s '
                   '   and forall("j:int", lambda j: implies(0 <= j and j < len(self.queue), self.queue[j] is old(self.queue[j]) '
                   '        and self.queue[j].send_after == old(self.queue[j].send_after) and self.queue[j].send_before == old(self.queue[j].send_before))) '
                   '   and forall("i:ident", lambda i: self.queue[len(self.queue) - 1].answers.has(i) == '
                   '        (old(self.queue[len(self.queue) - 1].answers.has(i)) or answers.has(i))) '
                   '   and now + 20 + self._additional_delay <= self.queue[len(self.queue) - 1].send_after '
                   '   and self.queue[len(self.queue) - 1].send_before <= now + self._aggregation_delay + self._additional_delay)' % T0,
                   # (2) otherwise a new youngest group with the jittered window
                   'implies(not (old(len(self.queue)) > 0 and now + random_delay <= old(self.queue[len(self.queue) - 1].send_after)), '
                   '   len(self.queue) == old(len(self.queue)) + 1 '
                   '   and self.queue[len(self.queue) - 1].send_after == now + random_delay '
                   '   and self.queue[len(self.queue) - 1].send_before == now + self._aggregation_delay + self._additional_delay '
                   '   and forall("i:ident", lambda i: self.queue[len(self.queue) - 1].answers.has(i) == answers.has(i)) '
                   '   and forall("j:int", lambda j: implies(0 <= j and j < old(len(self.queue)), self.queue[j] is old(self.queue[j]) '
                   '        and self.queue[j].send_after == old(self.queue[j].send_after) and self.queue[j].send_before == old(self.queue[j].send_before))))',
                   # (3) the wake-up: armed exactly when the queue was empty, for the group's send_after
                   'implies(old(len(self.queue)) == 0, len(TIMERS.events) == %s + 1 and TIMERS.events[%s][0] == now + random_delay '
                   '   and TIMERS.events[%s][1] is self and TIMERS.events[%s][2] == mid("async_ready"))' % (T0, T0, T0, T0),
                   'implies(old(len(self.queue)) > 0, len(TIMERS.events) == %s)' % T0,
                   'forall("p:int", lambda p: implies(0 <= p and p < %s, TIMERS.events[p] == old(TIMERS.events[p])))' % T0,
               ])
    KEYS_OK = 'forall("i:ident", lambda i: implies(answers.has(i), answers.keyobj(i) is not None and ident(answers.keyobj(i)) == i))'
    R.contract(M, 'MulticastOutgoingQueue._remove_answers_from_queue', PROP, params={'answers': AT},
               requires=['mq_ok(self)', KEYS_OK],
               modifies=['AnswerGroup.answers[*]'],
               ensures=['forall("j:int, i:ident", lambda j, i: implies(0 <= j and j < len(self.queue), '
                        '   self.queue[j].answers.has(i) == (old(self.queue[j].answers.has(i)) and not answers.has(i))))',
                        'forall("g:AnswerGroup", lambda g: implies(not exists("j:int", lambda j: 0 <= j and j < len(self.queue) and self.queue[j] is g), '
                        '   forall("i:ident", lambda i: g.answers.has(i) == old(g.answers.has(i)))))'],
               loops={0: Loop(inv=[
                   'forall("j:int, i:ident", lambda j, i: implies(0 <= j and j < _k0, _it0[j].answers.has(i) == (old(_it0[j].answers.has(i)) and not answers.has(i))))',
                   'forall("g:AnswerGroup", lambda g: implies(not exists("j:int", lambda j: 0 <= j and j < _k0 and _it0[j] is g), '
                   '   forall("i:ident", lambda i: g.answers.has(i) == old(g.answers.has(i)))))',
                   'list_eq(_it0, self.queue)']),
                      1: Loop(inv=[
                   'forall("i:ident", lambda i: pending.answers.has(i) == (old(pending.answers.has(i)) and not exists("m:int", lambda m: 0 <= m and m < _k1 and ident(_it1[m]) == i)))',
                   'forall("j:int, i:ident", lambda j, i: implies(0 <= j and j < _k0, _it0[j].answers.has(i) == (old(_it0[j].answers.has(i)) and not answers.has(i))))',
                   'forall("g:AnswerGroup", lambda g: implies(g is not pending and not exists("j:int", lambda j: 0 <= j and j < _k0 and _it0[j] is g), '
                   '   forall("i:ident", lambda i: g.answers.has(i) == old(g.answers.has(i)))))',
                   'list_eq(_it0, self.queue)', '0 <= _k0 and _k0 < len(_it0) and pending is _it0[_k0]'])})
    A = 'zeroconf._handlers.answers'
    R.contract(A, 'construct_outgoing_multicast_answers', 'C11', params={'answers': AT}, returns='DNSOutgoing', trusted=True,
               ensures=['result is not None and fresh_obj(result) and result.multicast and result.flags == 33792',
                        'forall("i:ident", lambda i: result.g_answers.has(i) == answers.has(i))'],
               note='builds DNSOutgoing(_FLAGS_QR_RESPONSE | _FLAGS_AA, multicast=True) holding exactly these answers '
                    '(ghost field g_answers = identity set); the builder internals are C03/C11/C14')
    S0 = 'old(len(SENT.events))'
    K = '(old(len(self.queue)) - len(self.queue))'
    DELAY = '(old(len(self.queue)) > 1 and old(self.queue[0].send_before) > CLOCK.now)'
    R.contract(M, 'MulticastOutgoingQueue.async_ready', PROP,
               requires=['mq_ok(self)',
                         'forall("j:int, i:ident", lambda j, i: implies(0 <= j and j < len(self.queue) and self.queue[j].answers.has(i), '
                         '   self.queue[j].answers.keyobj(i) is not None and ident(self.queue[j].answers.keyobj(i)) == i))'],
               modifies=['self.queue', 'TIMERS.events', 'TimerHandle.cancelled[*]', 'SENT.events', 'AnswerGroup.answers[*]'],
               ensures=[
                   'mq_ok(self)',
                   'forall("p:int", lambda p: implies(0 <= p and p < %s, TIMERS.events[p] == old(TIMERS.events[p])))' % T0,
                   'forall("p:int", lambda p: implies(0 <= p and p < %s, SENT.events[p] == old(SENT.events[p])))' % S0,
                   # (A) more than one group pending and the oldest may still wait: nothing is sent, wake up at its deadline
                   'implies(%s, len(self.queue) == old(len(self.queue)) and len(SENT.events) == %s and len(TIMERS.events) == %s + 1 '
                   '   and TIMERS.events[%s][0] == old(self.queue[0].send_before) and TIMERS.events[%s][1] is self '
                   '   and TIMERS.events[%s][2] == mid("async_ready") '
                   '   and forall("j:int", lambda j: implies(0 <= j and j < len(self.queue), self.queue[j] is old(self.queue[j]))))' % (DELAY, S0, T0, T0, T0, T0),
                   # (B) otherwise exactly the groups that are due leave the queue ...
                   'implies(not %s, 0 <= %s and %s <= old(len(self.queue)) '
                   '   and forall("j:int", lambda j: implies(0 <= j and j < len(self.queue), self.queue[j] is old(self.queue)[j + %s])) '
                   '   and forall("j:int", lambda j: implies(0 <= j and j < %s, old(self.queue)[j].send_after <= CLOCK.now)) '
                   '   and implies(len(self.queue) > 0, self.queue[0].send_after > CLOCK.now))' % (DELAY, K, K, K, K),
                   # ... in ONE builder holding the union of their answers (no identity twice: it is a set) ...
                   'implies(not %s and exists("j:int, i:ident", lambda j, i: 0 <= j and j < %s and old(old(self.queue)[j].answers.has(i))), '
                   '   len(SENT.events) == %s + 1 and SENT.events[%s][0] == CLOCK.now and SENT.events[%s][1].multicast '
                   '   and forall("i:ident", lambda i: SENT.events[%s][1].g_answers.has(i) == '
                   '        exists("j:int", lambda j: 0 <= j and j < %s and old(old(self.queue)[j].answers.has(i)))))' % (DELAY, K, S0, S0, S0, S0, K),
                   'implies(not %s and not exists("j:int, i:ident", lambda j, i: 0 <= j and j < %s and old(old(self.queue)[j].answers.has(i))), '
                   '   len(SENT.events) == %s)' % (DELAY, K, S0),
                   # ... what was sent is dropped from the groups still waiting (no duplicate across batches) ...
                   'implies(not %s, forall("g:AnswerGroup, i:ident", lambda g, i: implies(exists("j:int", lambda j: 0 <= j and j < len(self.queue) and self.queue[j] is g), '
                   '   g.answers.has(i) == (old(g.answers.has(i)) and '
                   '        not exists("m:int", lambda m: 0 <= m and m < %s and old(old(self.queue)[m].answers.has(i)))))))' % (DELAY, K),
                   # ... and the next wake-up is the new oldest group's send_after
                   'implies(not %s and len(self.queue) > 0, len(TIMERS.events) == %s + 1 and TIMERS.events[%s][0] == self.queue[0].send_after '
                   '   and TIMERS.events[%s][1] is self and TIMERS.events[%s][2] == mid("async_ready"))' % (DELAY, T0, T0, T0, T0),
                   'implies(not %s and len(self.queue) == 0, len(TIMERS.events) == %s)' % (DELAY, T0),
               ],
               loops={0: Loop(inv=[
                   '0 <= %s and %s <= old(len(self.queue))' % (K, K),
                   'forall("j:int", lambda j: implies(0 <= j and j < len(self.queue), self.queue[j] is old(self.queue)[j + %s]))' % K,
                   'forall("j:int", lambda j: implies(0 <= j and j < %s, old(self.queue)[j].send_after <= now))' % K,
                   'forall("i:ident", lambda i: answers.has(i) == exists("j:int", lambda j: 0 <= j and j < %s and old(old(self.queue)[j].answers.has(i))))' % K,
                   'forall("i:ident", lambda i: implies(answers.has(i), answers.keyobj(i) is not None and ident(answers.keyobj(i)) == i))',
                   'now == CLOCK.now and zc is self.zc and loop is self.zc.loop',
               ], modifies=['self.queue'], decreases='len(self.queue)')})
    # every answer of a group is sent inside [arrival + 20 + additional, arrival + aggregation + additional]:
    # a group is sent at an instant T with send_after <= T (async_ready pops only due groups) and, by the timer
    # invariant + ideal timers, T <= send_before
    R.lemma('answer_window', PROP, {'arrival': 'real', 'send_after': 'real', 'send_before': 'real', 'T': 'real',
                                    'additional': 'real', 'aggregation': 'real'},
            ['arrival + 20 + additional <= send_after', 'send_before <= arrival + aggregation + additional',
             'send_after <= T and T <= send_before'],
            ['arrival + 20 + additional <= T and T <= arrival + aggregation + additional'])
    R.lemma('protected_queue_window', PROP, {'arrival': 'real', 'seen': 'real', 'T': 'real'},
            # out_delay_queue: additional = 1000, aggregation = 200; the record was seen multicast at `seen` <= arrival
            ['seen <= arrival', 'arrival + 20 + 1000 <= T and T <= arrival + 200 + 1000'],
            ['T >= seen + 1000 and T <= arrival + 1200'])


def configure(ctx, R):
    records.configure(ctx)
    install_generators(R)


NO_CONCRETE = set()


def install_generators(R):
    from contracts.loop_model import concrete_world, method_id

    def mk_queue(g):
        from zeroconf._handlers.multicast_outgoing_queue import MulticastOutgoingQueue
        from zeroconf._handlers.answers import AnswerGroup
        now = g.rng.choice([1000.0, 5000.0])
        clock, timers, sent, loop = concrete_world(now)

        class ZC:
            def async_send(self, out, *a):
                sent.events.append((clock.now, out))
        zc = ZC()
        zc.loop = loop
        additional, aggr = g.rng.choice([(0, 500), (1000, 200)])
        q = MulticastOutgoingQueue(zc, additional, aggr)
        t = now - g.rng.choice([0, 100, 300, 600])
        for _ in range(g.rng.randint(0, 3)):
            t += g.rng.choice([1, 30, 90, 200])
            arrival = t
            ans = {g.record(): set() for _ in range(g.rng.randint(0, 2))}
            q.queue.append(AnswerGroup(arrival + g.rng.randint(20, 120) + additional, arrival + aggr + additional, ans))
        # keep it strictly increasing in send_after
        last = None
        for grp in list(q.queue):
            if last is not None and grp.send_after <= last:
                q.queue.remove(grp)
            else:
                last = grp.send_after
        env = {'CLOCK': clock, 'TIMERS': timers, 'SENT': sent}
        return q, env, now

    def g_add(g):
        q, env, now = mk_queue(g)
        _wrap_rand()
        ans = {g.record(): set() for _ in range(g.rng.randint(0, 3))}
        return {'self': q, 'now': now, 'answers': ans, '__env__': env, '__clock__': now,
                '__ghost_out__': lambda kw, res: {'random_delay': _recover_delay(kw, env)}}

    _draws = []

    def _recover_delay(kw, env):
        # the draw is observed by wrapping the module's RAND_INT (the real generator still produces the value)
        return _draws[-1] + kw['self']._additional_delay

    def _wrap_rand():
        import zeroconf._handlers.multicast_outgoing_queue as moq
        if getattr(moq.RAND_INT, '_verif_wrapped', False):
            return
        real = moq.RAND_INT

        def rand(a, b):
            v = real(a, b)
            _draws.append(v)
            return v
        rand._verif_wrapped = True
        moq.RAND_INT = rand
    R.generators[(M, 'MulticastOutgoingQueue.async_add')] = g_add

    def g_rm(g):
        q, env, now = mk_queue(g)
        pool = [r for grp in q.queue for r in grp.answers]
        ans = {r: set() for r in pool if g.rng.random() < 0.5}
        ans.update({g.record(): set() for _ in range(g.rng.randint(0, 1))})
        return {'self': q, 'answers': ans, '__env__': env}
    R.generators[(M, 'MulticastOutgoingQueue._remove_answers_from_queue')] = g_rm

    def g_ready(g):
        q, env, now = mk_queue(g)
        if q.queue and g.rng.random() < 0.7:
            grp = g.rng.choice(list(q.queue))
            env['CLOCK'].now = g.rng.choice([grp.send_after - 1, grp.send_after, grp.send_after + 1, grp.send_before, grp.send_before + 1])
        return {'self': q, '__env__': env, '__clock__': env['CLOCK'].now}
    R.generators[(M, 'MulticastOutgoingQueue.async_ready')] = g_ready
