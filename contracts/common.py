"""Shared trusted models (DESIGN.md 3.5): clock, random, logging flags, struct packers."""
import z3
from pyvc.core import Sc, RefV, NoneV, PyConst, FuncV, Cont, TupleV, VCError, fresh
from pyvc.types import (T, INT, REAL, BOOL, STR, BYTES, Ref, Str, Bytes, NONE, blen, bat, ref)

ASSUMPTIONS = {
    'A1': 'float arithmetic treated as real arithmetic (IEEE rounding ignored)',
    'A4': 'fields and parameters hold values of their declared (annotation / shape file) types',
    'T3-clock': 'time.monotonic()/current_time_millis() returns an arbitrary non-negative real (monotonicity '
                'used only where a contract says so)',
    'T3-random': 'random.randint(a, b) returns an integer in [a, b]',
    'T5': 'logging calls neither raise nor touch program state; log-level tests are a nondeterministic bool',
    'T3-struct': "struct.Struct('>B'/'>H'/'>L').pack(v) is the big-endian encoding of v (checked against CPython "
                 "exhaustively for >B and >H, sampled for >L, on every run)",
}


def _clock(ex, args, kwargs, st, frame, node):
    t = fresh('clock', z3.RealSort())
    st.assume(t >= 0)
    ex.ctx.assumed.add('T3-clock')
    yield st, Sc(t, REAL)


def _nondet_bool(ex, args, kwargs, st, frame, node):
    ex.ctx.assumed.add('T5')
    yield st, Sc(fresh('nondet', z3.BoolSort()), BOOL)


def _randint(ex, args, kwargs, st, frame, node):
    lo, hi = args
    r = fresh('rand', z3.IntSort())
    st.assume(z3.And(r >= ex.num(lo, st)[0], r <= ex.num(hi, st)[0]))
    ex.ctx.assumed.add('T3-random')
    yield st, Sc(r, INT)


def stub(fn):
    return lambda ex, st, frame: FuncV('stub', fn=fn)


def install(R):
    R.stubs['time.monotonic'] = stub(_clock)
    R.stubs['zeroconf._utils.time:current_time_millis'] = stub(lambda ex, a, k, st, fr, n: _clock_ms(ex, a, k, st, fr, n))
    R.stubs['random.randint'] = stub(_randint)
    for mod in ('zeroconf._protocol.outgoing', 'zeroconf._listener', 'zeroconf._services.browser',
                'zeroconf._services.info', 'zeroconf._core'):
        R.stubs[mod + ':LOGGING_IS_ENABLED_FOR'] = stub(_nondet_bool)
        R.stubs[mod + ':DEBUG_ENABLED'] = stub(_nondet_bool)
    R.stubs['zeroconf._protocol.outgoing:LOGGING_DEBUG'] = lambda ex, st, frame: PyConst(10)
    R.stubs['zeroconf._handlers.multicast_outgoing_queue:RAND_INT'] = stub(_randint)


def _clock_ms(ex, args, kwargs, st, frame, node):
    t = fresh('now_ms', z3.RealSort())
    st.assume(t >= 0)
    ex.ctx.assumed.add('T3-clock')
    yield st, Sc(t, REAL)
