"""DNSCache representation invariant, abstract view, and the contracts of every cache function.
Shared by C05 (which proves them) and by C04/C06/C09/C11/C12/C13/C18 (which call them by contract)."""
from pyvc.contracts import Loop

P = 'C05'

WF = ('forall("k:str, i:ident", lambda k, i: implies(c.cache.has(k) and c.cache[k].has(i), '
      '    i.key == k and c.cache[k].keyobj(i) is c.cache[k][i] and ident(c.cache[k][i]) == i '
      '    and c.cache[k][i] is not None and cls_is(c.cache[k][i], DNSRecord) '
      '    and implies(cls_is(c.cache[k][i], DNSService), '
      '                c.service_cache.has(as_(c.cache[k][i], DNSService).server_key) '
      '                and c.service_cache[as_(c.cache[k][i], DNSService).server_key].has(i) '
      '                and c.service_cache[as_(c.cache[k][i], DNSService).server_key][i] is c.cache[k][i])))')
WF_NONEMPTY = 'forall("k:str", lambda k: implies(c.cache.has(k), card(c.cache[k]) > 0))'
WF_SVC = ('forall("s:str, i:ident", lambda s, i: implies(c.service_cache.has(s) and c.service_cache[s].has(i), '
          '    c.cache.has(i.key) and c.cache[i.key].has(i) and cls_is(c.cache[i.key][i], DNSService) '
          '    and as_(c.cache[i.key][i], DNSService).server_key == s '
          '    and c.service_cache[s][i] is c.cache[i.key][i] and c.service_cache[s].keyobj(i) is c.cache[i.key][i]))')
WF_SVC_NONEMPTY = 'forall("s:str", lambda s: implies(c.service_cache.has(s), card(c.service_cache[s]) > 0))'


def install(R):
    R.shape('DNSCache', {'cache': 'dict[str, dict[DNSRecord, DNSRecord]]',
                         'service_cache': 'dict[str, dict[DNSRecord, DNSRecord]]'})
    R.spec('wf_cache', [('c', 'DNSCache')], 'bool', '(%s) and (%s) and (%s) and (%s)' % (WF, WF_NONEMPTY, WF_SVC, WF_SVC_NONEMPTY))
    # kind/type consistency of cached records (what the decoder and the ServiceInfo builders produce): a record of
    # wire type PTR(12)/CNAME(5) is a DNSPointer object.  Needed because the code uses an unchecked typing.cast.
    R.spec('type_ok', [('r', 'DNSRecord')], 'bool', 'implies(r.type == 12 or r.type == 5, cls_is(r, DNSPointer))')
    R.spec('typed_cache', [('c', 'DNSCache')], 'bool',
           'forall("i:ident", lambda i: implies(in_cache(c, i), type_ok(cached(c, i))))')
    R.spec('in_cache', [('c', 'DNSCache'), ('i', 'ident')], 'bool', 'c.cache.has(i.key) and c.cache[i.key].has(i)')
    R.spec('cached', [('c', 'DNSCache'), ('i', 'ident')], 'DNSRecord', 'c.cache[i.key][i]')

    # --- lifetime arithmetic (DESIGN 3.2); each predicate is verified under the property whose statement uses it:
    # expiry C05, half-life (known answers) and remaining TTL C13, quarter-life (QU replies) C11 -------------------------
    R.contract('zeroconf._dns', 'DNSRecord.is_expired', P, params={'now': 'real'}, returns='bool',
               ensures=['result == (self.created + 1000 * self.ttl <= now)'])
    R.contract('zeroconf._dns', 'DNSRecord.is_stale', 'C13', params={'now': 'real'}, returns='bool',
               ensures=['result == (self.created + 500 * self.ttl <= now)'])
    R.contract('zeroconf._dns', 'DNSRecord.is_recent', 'C11', params={'now': 'real'}, returns='bool',
               ensures=['result == (self.created + 250 * self.ttl > now)'])
    R.contract('zeroconf._dns', 'DNSRecord.get_expiration_time', P, params={'percent': 'int'}, returns='real',
               ensures=['result == self.created + 10 * percent * self.ttl'])
    R.contract('zeroconf._dns', 'DNSRecord.get_remaining_ttl', 'C13', params={'now': 'real'}, returns='real',
               ensures=['result == ite(self.created + 1000 * self.ttl - now < 0, 0, (self.created + 1000 * self.ttl - now) / 1000)'])
    R.contract('zeroconf._dns', 'DNSRecord.set_created_ttl', P, params={'created': 'real', 'ttl': 'real'},
               modifies=['self.created', 'self.ttl'], ensures=['self.created == created', 'self.ttl == ttl'])
    R.contract('zeroconf._dns', 'DNSRecord.reset_ttl', P, params={'other': 'DNSRecord'},
               modifies=['self.created', 'self.ttl'],
               ensures=['self.created == old(other.created)', 'self.ttl == old(other.ttl)'])

    # --- mutators -----------------------------------------------------------------------------------
    R.contract('zeroconf._cache', '_remove_key', P,
               params={'cache': 'dict[str, dict[DNSRecord, DNSRecord]]', 'key': 'str', 'record': 'DNSRecord'},
               raises={'KeyError': 'not (cache.has(key) and cache[key].has(ident(record)))'}, raises_exact=['KeyError'],
               modifies=['cache'],
               ensures=['forall("k:str, i:ident", lambda k, i: '
                        '  (cache.has(k) and cache[k].has(i)) == (old(cache.has(k) and cache[k].has(i)) and not (k == key and i == ident(record))))',
                        'forall("k:str, i:ident", lambda k, i: implies(cache.has(k) and cache[k].has(i), '
                        '  cache[k][i] is old(cache[k][i]) and cache[k].keyobj(i) is old(cache[k].keyobj(i))))',
                        'forall("k:str", lambda k: implies(cache.has(k) and old(card(cache[k]) > 0), card(cache[k]) > 0))',
                        'forall("k:str", lambda k: implies(cache.has(k), old(cache.has(k))))'])
    R.contract('zeroconf._cache', 'DNSCache._async_add', P, params={'record': 'DNSRecord'}, returns='bool',
               requires=['wf_cache(self)'],
               modifies=['self.cache', 'self.service_cache'],
               ensures=['wf_cache(self)',
                        'forall("i:ident", lambda i: in_cache(self, i) == (old(in_cache(self, i)) or i == ident(record)))',
                        'forall("i:ident", lambda i: implies(in_cache(self, i), '
                        '   cached(self, i) is ite(i == ident(record), record, old(cached(self, i)))))',
                        'result == (not old(in_cache(self, ident(record))) and not cls_is(record, DNSNsec))',
                        'implies(old(typed_cache(self)) and type_ok(record), typed_cache(self))'])
    R.contract('zeroconf._cache', 'DNSCache.async_add_records', P, params={'entries': 'list[DNSRecord]'}, returns='bool',
               requires=['wf_cache(self)'],
               modifies=['self.cache', 'self.service_cache'],
               ensures=['wf_cache(self)',
                        'forall("i:ident", lambda i: in_cache(self, i) == (old(in_cache(self, i)) or '
                        '   exists("j:int", lambda j: 0 <= j and j < len(entries) and ident(entries[j]) == i)))',
                        'forall("i:ident", lambda i: implies(in_cache(self, i) and not exists("j:int", lambda j: 0 <= j and j < len(entries) and ident(entries[j]) == i), '
                        '   cached(self, i) is old(cached(self, i))))',
                        'forall("i:ident", lambda i: implies(exists("j:int", lambda j: 0 <= j and j < len(entries) and ident(entries[j]) == i), '
                        '   exists("j:int", lambda j: 0 <= j and j < len(entries) and ident(entries[j]) == i and cached(self, i) is entries[j] '
                        '       and forall("m:int", lambda m: implies(j < m and m < len(entries), ident(entries[m]) != i)))))',
                        'result == exists("j:int", lambda j: 0 <= j and j < len(entries) and not old(in_cache(self, ident(entries[j]))) '
                        '    and not cls_is(entries[j], DNSNsec))'],
               loops={0: Loop(inv=[
                   'wf_cache(self)',
                   'forall("i:ident", lambda i: in_cache(self, i) == (old(in_cache(self, i)) or '
                   '   exists("j:int", lambda j: 0 <= j and j < _k and ident(entries[j]) == i)))',
                   'forall("i:ident", lambda i: implies(in_cache(self, i) and not exists("j:int", lambda j: 0 <= j and j < _k and ident(entries[j]) == i), '
                   '   cached(self, i) is old(cached(self, i))))',
                   'forall("i:ident", lambda i: implies(exists("j:int", lambda j: 0 <= j and j < _k and ident(entries[j]) == i), '
                   '   exists("j:int", lambda j: 0 <= j and j < _k and ident(entries[j]) == i and cached(self, i) is entries[j] '
                   '       and forall("m:int", lambda m: implies(j < m and m < _k, ident(entries[m]) != i)))))',
                   'new == exists("j:int", lambda j: 0 <= j and j < _k and not old(in_cache(self, ident(entries[j]))) '
                   '    and not cls_is(entries[j], DNSNsec))',
                   'list_eq(_it, entries)'])})
    R.contract('zeroconf._cache', 'DNSCache._async_remove', P, params={'record': 'DNSRecord'},
               requires=['wf_cache(self)'],
               raises={'KeyError': 'not in_cache(self, ident(record))'}, raises_exact=['KeyError'],
               modifies=['self.cache', 'self.service_cache'],
               ensures=['wf_cache(self)',
                        'forall("i:ident", lambda i: in_cache(self, i) == (old(in_cache(self, i)) and i != ident(record)))',
                        'forall("i:ident", lambda i: implies(in_cache(self, i), cached(self, i) is old(cached(self, i))))'])
    R.contract('zeroconf._cache', 'DNSCache.async_remove_records', P, params={'entries': 'list[DNSRecord]'},
               requires=['wf_cache(self)',
                         'forall("j:int", lambda j: implies(0 <= j and j < len(entries), in_cache(self, ident(entries[j]))))',
                         'forall("j:int, m:int", lambda j, m: implies(0 <= j and j < m and m < len(entries), ident(entries[j]) != ident(entries[m])))'],
               modifies=['self.cache', 'self.service_cache'],
               ensures=['wf_cache(self)',
                        'forall("i:ident", lambda i: in_cache(self, i) == (old(in_cache(self, i)) and '
                        '   not exists("j:int", lambda j: 0 <= j and j < len(entries) and ident(entries[j]) == i)))',
                        'forall("i:ident", lambda i: implies(in_cache(self, i), cached(self, i) is old(cached(self, i))))'],
               loops={0: Loop(inv=[
                   'wf_cache(self)',
                   'forall("i:ident", lambda i: in_cache(self, i) == (old(in_cache(self, i)) and '
                   '   not exists("j:int", lambda j: 0 <= j and j < _k and ident(entries[j]) == i)))',
                   'forall("i:ident", lambda i: implies(in_cache(self, i), cached(self, i) is old(cached(self, i))))',
                   'list_eq(_it, entries)'])})
    R.contract('zeroconf._cache', 'DNSCache.async_expire', P, params={'now': 'real'}, returns='list[DNSRecord]',
               requires=['wf_cache(self)'],
               modifies=['self.cache', 'self.service_cache'],
               ensures=['wf_cache(self)',
                        # exactly the expired entries are gone, the rest untouched (same objects)
                        'forall("i:ident", lambda i: in_cache(self, i) == (old(in_cache(self, i)) and not old(expired(cached(self, i), now))))',
                        'forall("i:ident", lambda i: implies(in_cache(self, i), cached(self, i) is old(cached(self, i))))',
                        # the report: every expired entry, each exactly once, as the cached object
                        'forall("j:int", lambda j: implies(0 <= j and j < len(result), '
                        '   old(in_cache(self, ident(result[j]))) and result[j] is old(cached(self, ident(result[j]))) and old(expired(result[j], now))))',
                        'forall("i:ident", lambda i: implies(old(in_cache(self, i)) and old(expired(cached(self, i), now)), '
                        '   exists("j:int", lambda j: 0 <= j and j < len(result) and result[j] is old(cached(self, i)))))',
                        'forall("j:int, m:int", lambda j, m: implies(0 <= j and j < m and m < len(result), ident(result[j]) != ident(result[m])))'])

    # --- lookups ------------------------------------------------------------------------------------
    R.contract('zeroconf._cache', 'DNSCache.async_get_unique', P, params={'entry': 'DNSRecord'}, returns='opt[DNSRecord]',
               requires=['wf_cache(self)'],
               ensures=['implies(in_cache(self, ident(entry)), result is cached(self, ident(entry)))',
                        'implies(not in_cache(self, ident(entry)), result is None)'])
    R.contract('zeroconf._cache', 'DNSCache.async_all_by_details', P,
               params={'name': 'str', 'type_': 'int', 'class_': 'int'}, returns='list[DNSRecord]',
               requires=['wf_cache(self)'],
               ensures=['forall("j:int", lambda j: implies(0 <= j and j < len(result), '
                        '   in_cache(self, ident(result[j])) and result[j] is cached(self, ident(result[j])) '
                        '   and result[j].key == lower(name) and result[j].type == type_ and result[j].class_ == class_))',
                        'forall("i:ident", lambda i: implies(in_cache(self, i) and i.key == lower(name) and i.type == type_ and i.class_ == class_, '
                        '   exists("j:int", lambda j: 0 <= j and j < len(result) and result[j] is cached(self, i))))'],
               loops={0: Loop(inv=[
                   'forall("j:int", lambda j: implies(0 <= j and j < len(matches), '
                   '   in_cache(self, ident(matches[j])) and matches[j] is cached(self, ident(matches[j])) '
                   '   and matches[j].key == lower(name) and matches[j].type == type_ and matches[j].class_ == class_))',
                   'forall("m:int", lambda m: implies(0 <= m and m < _k and _it[m].type == type_ and _it[m].class_ == class_, '
                   '   exists("j:int", lambda j: 0 <= j and j < len(matches) and matches[j] is _it[m])))'])})


def _gen_remove_key(g):
    c = g.cache()
    rec = g.value('DNSRecord')
    which = g.rng.choice(['cache', 'service_cache'])
    key = rec.key if g.rng.random() < 0.8 else g.rng.choice(['a.local.', 'zz.local.'])
    return {'cache': getattr(c, which), 'key': key, 'record': rec}


def install_flush_specs(R):
    R.spec('hit_by', [('t', 'tuple[str,int,int]'), ('r', 'DNSRecord')], 'bool',
           'r.key == lower(t[0]) and r.type == t[1] and r.class_ == t[2]')
    R.spec('not_in_answers', [('answers', 'list[DNSRecord]'), ('r', 'DNSRecord')], 'bool',
           'not exists("j:int", lambda j: 0 <= j and j < len(answers) and ident(answers[j]) == ident(r))')
    R.spec('flush_cond', [('answers', 'list[DNSRecord]'), ('now', 'real'), ('r', 'DNSRecord')], 'bool',
           'now - old(r.created) > 1000 and not_in_answers(answers, r)')
    R.spec('flush_hit', [('c', 'DNSCache'), ('unique_types', 'set[tuple[str,int,int]]'), ('answers', 'list[DNSRecord]'),
                         ('now', 'real'), ('r', 'DNSRecord')], 'bool',
           'flush_cond(answers, now, r) and exists("t:tuple[str,int,int]", lambda t: unique_types.has(t) and hit_by(t, r))')


def _gen_flush(g):
    c = g.cache()
    recs = [r for st in c.cache.values() for r in st]
    ut = set()
    for _ in range(g.rng.randint(0, 3)):
        if recs and g.rng.random() < 0.8:
            r = g.rng.choice(recs)
            ut.add((g.rng.choice([r.name, r.name.upper(), r.name.lower()]), r.type, r.class_))
        else:
            ut.add((g.rng.choice(['a.local.', 'zz.local.']), 1, 1))
    answers = [g.value('DNSRecord') for _ in range(g.rng.randint(0, 3))]
    return {'self': c, 'unique_types': ut, 'answers': answers, 'now': g.rng.choice([1500.0, 2001.0, 2500.0, 5000.0])}


def _gen_current_entry(g):
    c = g.cache()
    ptrs = [r for st in c.cache.values() for r in st if type(r).__name__ == 'DNSPointer']
    if not ptrs or g.rng.random() < 0.2:
        return {'self': c, 'name': g.value('str'), 'alias': g.value('str')}
    r = g.rng.choice(ptrs)
    var = lambda s_: g.rng.choice([s_, s_, s_.lower(), s_.upper(), s_.swapcase()])
    clock = g.rng.choice([r.created, r.created + 1000 * r.ttl - 1, r.created + 1000 * r.ttl, r.created + 1000 * r.ttl + 1])
    return {'self': c, 'name': var(r.name), 'alias': var(r.alias), '__clock__': max(clock, 1.0)}


def install_generators(R):
    R.generators[('zeroconf._cache', 'DNSCache.current_entry_with_name_and_alias')] = _gen_current_entry
    R.generators[('zeroconf._cache', '_remove_key')] = _gen_remove_key
    R.generators[('zeroconf._cache', 'DNSCache.async_mark_unique_records_older_than_1s_to_expire')] = _gen_flush


MATCH = 'i.key == lower(name) and i.type == type_ and i.class_ == class_'


def install_lookups(R):
    """the remaining lookup paths and the flush marking"""
    by_name = ['forall("i:ident", lambda i: result.has(i) == (in_cache(self, i) and i.key == lower(name)))',
               'forall("i:ident", lambda i: implies(result.has(i), result[i] is cached(self, i) and result.keyobj(i) is cached(self, i)))']
    R.contract('zeroconf._cache', 'DNSCache.async_entries_with_name', P, params={'name': 'str'},
               returns='dict[DNSRecord, DNSRecord]', requires=['wf_cache(self)'], ensures=by_name)
    R.contract('zeroconf._cache', 'DNSCache.async_entries_with_server', P, params={'name': 'str'},
               returns='dict[DNSRecord, DNSRecord]', requires=['wf_cache(self)'],
               ensures=['forall("i:ident", lambda i: result.has(i) == (in_cache(self, i) and cls_is(cached(self, i), DNSService) '
                        '   and i.server_key == lower(name)))',
                        'forall("i:ident", lambda i: implies(result.has(i), result[i] is cached(self, i)))'])
    lst_by_name = ['forall("j:int", lambda j: implies(0 <= j and j < len(result), in_cache(self, ident(result[j])) '
                   '   and result[j] is cached(self, ident(result[j])) and result[j].key == lower(%s)))',
                   'forall("i:ident", lambda i: implies(in_cache(self, i) and i.key == lower(%s), '
                   '   exists("j:int", lambda j: 0 <= j and j < len(result) and result[j] is cached(self, i))))',
                   'forall("j:int, m:int", lambda j, m: implies(0 <= j and j < m and m < len(result), ident(result[j]) != ident(result[m])))']
    R.contract('zeroconf._cache', 'DNSCache.entries_with_name', P, params={'name': 'str'}, returns='list[DNSRecord]',
               requires=['wf_cache(self)'], ensures=[e % 'name' if '%s' in e else e for e in lst_by_name])
    R.contract('zeroconf._cache', 'DNSCache.entries_with_server', P, params={'server': 'str'}, returns='list[DNSRecord]',
               requires=['wf_cache(self)'],
               ensures=['forall("j:int", lambda j: implies(0 <= j and j < len(result), in_cache(self, ident(result[j])) '
                        '   and result[j] is cached(self, ident(result[j])) and cls_is(result[j], DNSService) '
                        '   and as_(result[j], DNSService).server_key == lower(server)))',
                        'forall("i:ident", lambda i: implies(in_cache(self, i) and cls_is(cached(self, i), DNSService) and i.server_key == lower(server), '
                        '   exists("j:int", lambda j: 0 <= j and j < len(result) and result[j] is cached(self, i))))'])
    R.contract('zeroconf._cache', 'DNSCache.names', P, returns='list[str]', requires=['wf_cache(self)'],
               ensures=['forall("j:int", lambda j: implies(0 <= j and j < len(result), self.cache.has(result[j])))',
                        'forall("k:str", lambda k: implies(self.cache.has(k), exists("j:int", lambda j: 0 <= j and j < len(result) and result[j] == k)))'])
    R.contract('zeroconf._cache', 'DNSCache.get_all_by_details', P,
               params={'name': 'str', 'type_': 'int', 'class_': 'int'}, returns='list[DNSRecord]',
               requires=['wf_cache(self)'],
               ensures=['forall("j:int", lambda j: implies(0 <= j and j < len(result), in_cache(self, ident(result[j])) '
                        '   and result[j] is cached(self, ident(result[j])) and result[j].key == lower(name) '
                        '   and result[j].type == type_ and result[j].class_ == class_))',
                        'forall("i:ident", lambda i: implies(in_cache(self, i) and %s, '
                        '   exists("j:int", lambda j: 0 <= j and j < len(result) and result[j] is cached(self, i))))' % MATCH,
                        'forall("j:int, m:int", lambda j, m: implies(0 <= j and j < m and m < len(result), ident(result[j]) != ident(result[m])))'])
    R.contract('zeroconf._cache', 'DNSCache.get_by_details', P,
               params={'name': 'str', 'type_': 'int', 'class_': 'int'}, returns='opt[DNSRecord]',
               requires=['wf_cache(self)'],
               ensures=['implies(result is not None, in_cache(self, ident(result)) and result is cached(self, ident(result)) '
                        '   and result.key == lower(name) and result.type == type_ and result.class_ == class_)',
                        'implies(result is None, forall("i:ident", lambda i: not (in_cache(self, i) and %s)))' % MATCH],
               loops={0: Loop(inv=['forall("m:int", lambda m: implies(0 <= m and m < _k, '
                                   '   not (_it[m].type == type_ and _it[m].class_ == class_)))'])},
               note='"the last one added" (dict insertion order) is not modelled: some matching entry is returned')
    R.contract('zeroconf._cache', 'DNSCache.get', P, params={'entry': 'DNSEntry'}, returns='opt[DNSRecord]',
               requires=['wf_cache(self)'],
               ensures=['implies(cls_is(entry, DNSRecord) and in_cache(self, ident(entry)), result is cached(self, ident(entry)))',
                        'implies(not (cls_is(entry, DNSRecord) and in_cache(self, ident(entry))), result is None)'],
               loops={0: Loop(inv=['forall("m:int", lambda m: implies(0 <= m and m < _k, ident(_it[m]) != ident(entry)))',
                                   'not cls_is(entry, DNSAddress) and not cls_is(entry, DNSHinfo) and not cls_is(entry, DNSPointer) '
                                   'and not cls_is(entry, DNSText) and not cls_is(entry, DNSService)'])})
    R.contract('zeroconf._cache', 'DNSCache.current_entry_with_name_and_alias', P,
               params={'name': 'str', 'alias': 'str'}, returns='opt[DNSRecord]',
               requires=['wf_cache(self)', 'typed_cache(self)'], ghost_out={'now': 'real'},
               ensures=['implies(result is not None, in_cache(self, ident(result)) and result is cached(self, ident(result)) '
                        '   and result.key == lower(name) and result.type == 12 and cls_is(result, DNSPointer) '
                        '   and as_(result, DNSPointer).alias == alias and not expired(result, now))',
                        'implies(result is None, forall("i:ident", lambda i: implies(in_cache(self, i) and i.key == lower(name) '
                        '   and i.type == 12 and cls_is(cached(self, i), DNSPointer) and as_(cached(self, i), DNSPointer).alias == alias, '
                        '   expired(cached(self, i), now))))',
                        'now >= 0'],
               loops={0: Loop(inv=['forall("m:int", lambda m: implies(0 <= m and m < _k, '
                                   '  not (_it[m].type == 12 and not expired(_it[m], now) and cls_is(_it[m], DNSPointer) '
                                   '       and as_(_it[m], DNSPointer).alias == alias)))',
                                   'now >= 0'])},
               note='a record of type PTR(12) is assumed to be a DNSPointer object (the decoder builds CNAME(5)/PTR(12) '
                    'as DNSPointer; the cast in the code makes the same assumption)')
    # flush marking (RFC 6762 10.2)
    FL = ('exists("t:tuple[str,int,int]", lambda t: unique_types.has(t) and i.key == lower(t[0]) and i.type == t[1] and i.class_ == t[2])')
    R.contract('zeroconf._cache', 'DNSCache.async_mark_unique_records_older_than_1s_to_expire', P,
               params={'unique_types': 'set[tuple[str,int,int]]', 'answers': 'list[DNSRecord]', 'now': 'real'},
               requires=['wf_cache(self)'],
               modifies=['DNSRecord.created[*]', 'DNSRecord.ttl[*]'],
               ensures=['forall("r:DNSRecord", lambda r: implies('
                        '   in_cache(self, ident(r)) and r is cached(self, ident(r)) and flush_hit(self, unique_types, answers, now, r), '
                        '   r.created == now and r.ttl == 1))',
                        'forall("r:DNSRecord", lambda r: implies('
                        '   not (in_cache(self, ident(r)) and r is cached(self, ident(r)) and flush_hit(self, unique_types, answers, now, r)), '
                        '   r.created == old(r.created) and r.ttl == old(r.ttl)))'],
               loops={
                   0: Loop(inv=[
                       'forall("r:DNSRecord", lambda r: implies(in_cache(self, ident(r)) and r is cached(self, ident(r)) and flush_cond(answers, now, r) '
                       '   and exists("m:int", lambda m: 0 <= m and m < _k0 and hit_by(_it0[m], r)), r.created == now and r.ttl == 1))',
                       'forall("r:DNSRecord", lambda r: implies(not (in_cache(self, ident(r)) and r is cached(self, ident(r)) and flush_cond(answers, now, r) '
                       '   and exists("m:int", lambda m: 0 <= m and m < _k0 and hit_by(_it0[m], r))), r.created == old(r.created) and r.ttl == old(r.ttl)))',
                       'forall("k:ident", lambda k: answers_rrset.has(k) == exists("j:int", lambda j: 0 <= j and j < len(answers) and ident(answers[j]) == k))']),
                   1: Loop(inv=[
                       'forall("r:DNSRecord", lambda r: implies(in_cache(self, ident(r)) and r is cached(self, ident(r)) and flush_cond(answers, now, r) '
                       '   and (exists("m:int", lambda m: 0 <= m and m < _k0 and hit_by(_it0[m], r)) '
                       '        or exists("j:int", lambda j: 0 <= j and j < _k1 and _it1[j] is r)), r.created == now and r.ttl == 1))',
                       'forall("r:DNSRecord", lambda r: implies(not (in_cache(self, ident(r)) and r is cached(self, ident(r)) and flush_cond(answers, now, r) '
                       '   and (exists("m:int", lambda m: 0 <= m and m < _k0 and hit_by(_it0[m], r)) '
                       '        or exists("j:int", lambda j: 0 <= j and j < _k1 and _it1[j] is r))), r.created == old(r.created) and r.ttl == old(r.ttl)))',
                       'forall("k:ident", lambda k: answers_rrset.has(k) == exists("j:int", lambda j: 0 <= j and j < len(answers) and ident(answers[j]) == k))',
                       # what the list being iterated is: exactly the cached matches of the current tuple
                       'forall("j:int", lambda j: implies(0 <= j and j < len(_it1), in_cache(self, ident(_it1[j])) and _it1[j] is cached(self, ident(_it1[j])) '
                       '   and hit_by(_it0[_k0], _it1[j])))',
                       'forall("i:ident", lambda i: implies(in_cache(self, i) and hit_by(_it0[_k0], cached(self, i)), '
                       '   exists("j:int", lambda j: 0 <= j and j < len(_it1) and _it1[j] is cached(self, i))))',
                       '0 <= _k0 and _k0 < len(_it0)'])})
