"""DNSCache representation invariant, abstract view, and the contracts of every cache function.
Shared by C05 (which proves them) and by C04/C06/C09/C11/C12/C13/C18 (which call them by contract)."""
from pyvc.contracts import Loop

P = 'C05'

WF = ('forall("k:str, i:ident", lambda k, i: implies(c.cache.has(k) and c.cache[k].has(i), '
      '    i.key == k and c.cache[k].keyobj(i) is c.cache[k][i] and ident(c.cache[k][i]) == i '
      '    and c.cache[k][i] is not None and cls_is(c.cache[k][i], DNSRecord) '
      '    and implies(cls_is(c.cache[k][i], DNSService), '
      '                c.service_cache.has(as_(c.cache[k][i], DNSService).server_key) '
      '                and c.service_cache[as_(c.cache[k][i], DNSService).server_key].has(i) '
      '                and c.service_cache[as_(c.cache[k][i], DNSService).server_key][i] is c.cache[k][i])))')
WF_NONEMPTY = 'forall("k:str", lambda k: implies(c.cache.has(k), card(c.cache[k]) > 0))'
WF_SVC = ('forall("s:str, i:ident", lambda s, i: implies(c.service_cache.has(s) and c.service_cache[s].has(i), '
          '    c.cache.has(i.key) and c.cache[i.key].has(i) and cls_is(c.cache[i.key][i], DNSService) '
          '    and as_(c.cache[i.key][i], DNSService).server_key == s '
          '    and c.service_cache[s][i] is c.cache[i.key][i] and c.service_cache[s].keyobj(i) is c.cache[i.key][i]))')
WF_SVC_NONEMPTY = 'forall("s:str", lambda s: implies(c.service_cache.has(s), card(c.service_cache[s]) > 0))'


def install(R):
    R.shape('DNSCache', {'cache': 'dict[str, dict[DNSRecord, DNSRecord]]',
                         'service_cache': 'dict[str, dict[DNSRecord, DNSRecord]]'})
    R.spec('wf_cache', [('c', 'DNSCache')], 'bool', '(%s) and (%s) and (%s) and (%s)' % (WF, WF_NONEMPTY, WF_SVC, WF_SVC_NONEMPTY))
    R.spec('in_cache', [('c', 'DNSCache'), ('i', 'ident')], 'bool', 'c.cache.has(i.key) and c.cache[i.key].has(i)')
    R.spec('cached', [('c', 'DNSCache'), ('i', 'ident')], 'DNSRecord', 'c.cache[i.key][i]')

    # --- lifetime arithmetic (DESIGN 3.2) --------------------------------------------------------
    R.contract('zeroconf._dns', 'DNSRecord.is_expired', P, params={'now': 'real'}, returns='bool',
               ensures=['result == (self.created + 1000 * self.ttl <= now)'])
    R.contract('zeroconf._dns', 'DNSRecord.is_stale', P, params={'now': 'real'}, returns='bool',
               ensures=['result == (self.created + 500 * self.ttl <= now)'])
    R.contract('zeroconf._dns', 'DNSRecord.is_recent', P, params={'now': 'real'}, returns='bool',
               ensures=['result == (self.created + 250 * self.ttl > now)'])
    R.contract('zeroconf._dns', 'DNSRecord.get_expiration_time', P, params={'percent': 'int'}, returns='real',
               ensures=['result == self.created + 10 * percent * self.ttl'])
    R.contract('zeroconf._dns', 'DNSRecord.get_remaining_ttl', P, params={'now': 'real'}, returns='real',
               ensures=['result == ite(self.created + 1000 * self.ttl - now < 0, 0, (self.created + 1000 * self.ttl - now) / 1000)'])
    R.contract('zeroconf._dns', 'DNSRecord.set_created_ttl', P, params={'created': 'real', 'ttl': 'real'},
               modifies=['self.created', 'self.ttl'], ensures=['self.created == created', 'self.ttl == ttl'])
    R.contract('zeroconf._dns', 'DNSRecord.reset_ttl', P, params={'other': 'DNSRecord'},
               modifies=['self.created', 'self.ttl'],
               ensures=['self.created == old(other.created)', 'self.ttl == old(other.ttl)'])

    # --- mutators -----------------------------------------------------------------------------------
    R.contract('zeroconf._cache', '_remove_key', P,
               params={'cache': 'dict[str, dict[DNSRecord, DNSRecord]]', 'key': 'str', 'record': 'DNSRecord'},
               raises={'KeyError': 'not (cache.has(key) and cache[key].has(ident(record)))'}, raises_exact=['KeyError'],
               modifies=['cache'],
               ensures=['forall("k:str, i:ident", lambda k, i: '
                        '  (cache.has(k) and cache[k].has(i)) == (old(cache.has(k) and cache[k].has(i)) and not (k == key and i == ident(record))))',
                        'forall("k:str, i:ident", lambda k, i: implies(cache.has(k) and cache[k].has(i), '
                        '  cache[k][i] is old(cache[k][i]) and cache[k].keyobj(i) is old(cache[k].keyobj(i))))',
                        'forall("k:str", lambda k: implies(cache.has(k) and old(card(cache[k]) > 0), card(cache[k]) > 0))',
                        'forall("k:str", lambda k: implies(cache.has(k), old(cache.has(k))))'])
    R.contract('zeroconf._cache', 'DNSCache._async_add', P, params={'record': 'DNSRecord'}, returns='bool',
               requires=['wf_cache(self)'],
               modifies=['self.cache', 'self.service_cache'],
               ensures=['wf_cache(self)',
                        'forall("i:ident", lambda i: in_cache(self, i) == (old(in_cache(self, i)) or i == ident(record)))',
                        'forall("i:ident", lambda i: implies(in_cache(self, i), '
                        '   cached(self, i) is ite(i == ident(record), record, old(cached(self, i)))))',
                        'result == (not old(in_cache(self, ident(record))) and not cls_is(record, DNSNsec))'])
    R.contract('zeroconf._cache', 'DNSCache.async_add_records', P, params={'entries': 'list[DNSRecord]'}, returns='bool',
               requires=['wf_cache(self)'],
               modifies=['self.cache', 'self.service_cache'],
               ensures=['wf_cache(self)',
                        'forall("i:ident", lambda i: in_cache(self, i) == (old(in_cache(self, i)) or '
                        '   exists("j:int", lambda j: 0 <= j and j < len(entries) and ident(entries[j]) == i)))',
                        'forall("i:ident", lambda i: implies(in_cache(self, i) and not exists("j:int", lambda j: 0 <= j and j < len(entries) and ident(entries[j]) == i), '
                        '   cached(self, i) is old(cached(self, i))))',
                        'forall("i:ident", lambda i: implies(exists("j:int", lambda j: 0 <= j and j < len(entries) and ident(entries[j]) == i), '
                        '   exists("j:int", lambda j: 0 <= j and j < len(entries) and ident(entries[j]) == i and cached(self, i) is entries[j] '
                        '       and forall("m:int", lambda m: implies(j < m and m < len(entries), ident(entries[m]) != i)))))',
                        'result == exists("j:int", lambda j: 0 <= j and j < len(entries) and not old(in_cache(self, ident(entries[j]))) '
                        '    and not cls_is(entries[j], DNSNsec))'],
               loops={0: Loop(inv=[
                   'wf_cache(self)',
                   'forall("i:ident", lambda i: in_cache(self, i) == (old(in_cache(self, i)) or '
                   '   exists("j:int", lambda j: 0 <= j and j < _k and ident(entries[j]) == i)))',
                   'forall("i:ident", lambda i: implies(in_cache(self, i) and not exists("j:int", lambda j: 0 <= j and j < _k and ident(entries[j]) == i), '
                   '   cached(self, i) is old(cached(self, i))))',
                   'forall("i:ident", lambda i: implies(exists("j:int", lambda j: 0 <= j and j < _k and ident(entries[j]) == i), '
                   '   exists("j:int", lambda j: 0 <= j and j < _k and ident(entries[j]) == i and cached(self, i) is entries[j] '
                   '       and forall("m:int", lambda m: implies(j < m and m < _k, ident(entries[m]) != i)))))',
                   'new == exists("j:int", lambda j: 0 <= j and j < _k and not old(in_cache(self, ident(entries[j]))) '
                   '    and not cls_is(entries[j], DNSNsec))',
                   'list_eq(_it, entries)'])})
    R.contract('zeroconf._cache', 'DNSCache._async_remove', P, params={'record': 'DNSRecord'},
               requires=['wf_cache(self)'],
               raises={'KeyError': 'not in_cache(self, ident(record))'}, raises_exact=['KeyError'],
               modifies=['self.cache', 'self.service_cache'],
               ensures=['wf_cache(self)',
                        'forall("i:ident", lambda i: in_cache(self, i) == (old(in_cache(self, i)) and i != ident(record)))',
                        'forall("i:ident", lambda i: implies(in_cache(self, i), cached(self, i) is old(cached(self, i))))'])
    R.contract('zeroconf._cache', 'DNSCache.async_remove_records', P, params={'entries': 'list[DNSRecord]'},
               requires=['wf_cache(self)',
                         'forall("j:int", lambda j: implies(0 <= j and j < len(entries), in_cache(self, ident(entries[j]))))',
                         'forall("j:int, m:int", lambda j, m: implies(0 <= j and j < m and m < len(entries), ident(entries[j]) != ident(entries[m])))'],
               modifies=['self.cache', 'self.service_cache'],
               ensures=['wf_cache(self)',
                        'forall("i:ident", lambda i: in_cache(self, i) == (old(in_cache(self, i)) and '
                        '   not exists("j:int", lambda j: 0 <= j and j < len(entries) and ident(entries[j]) == i)))',
                        'forall("i:ident", lambda i: implies(in_cache(self, i), cached(self, i) is old(cached(self, i))))'],
               loops={0: Loop(inv=[
                   'wf_cache(self)',
                   'forall("i:ident", lambda i: in_cache(self, i) == (old(in_cache(self, i)) and '
                   '   not exists("j:int", lambda j: 0 <= j and j < _k and ident(entries[j]) == i)))',
                   'forall("i:ident", lambda i: implies(in_cache(self, i), cached(self, i) is old(cached(self, i))))',
                   'list_eq(_it, entries)'])})
    R.contract('zeroconf._cache', 'DNSCache.async_expire', P, params={'now': 'real'}, returns='list[DNSRecord]',
               requires=['wf_cache(self)'],
               modifies=['self.cache', 'self.service_cache'],
               ensures=['wf_cache(self)',
                        # exactly the expired entries are gone, the rest untouched (same objects)
                        'forall("i:ident", lambda i: in_cache(self, i) == (old(in_cache(self, i)) and not old(expired(cached(self, i), now))))',
                        'forall("i:ident", lambda i: implies(in_cache(self, i), cached(self, i) is old(cached(self, i))))',
                        # the report: every expired entry, each exactly once, as the cached object
                        'forall("j:int", lambda j: implies(0 <= j and j < len(result), '
                        '   old(in_cache(self, ident(result[j]))) and result[j] is old(cached(self, ident(result[j]))) and old(expired(result[j], now))))',
                        'forall("i:ident", lambda i: implies(old(in_cache(self, i)) and old(expired(cached(self, i), now)), '
                        '   exists("j:int", lambda j: 0 <= j and j < len(result) and result[j] is old(cached(self, i)))))',
                        'forall("j:int, m:int", lambda j, m: implies(0 <= j and j < m and m < len(result), ident(result[j]) != ident(result[m])))'])

    # --- lookups ------------------------------------------------------------------------------------
    R.contract('zeroconf._cache', 'DNSCache.async_get_unique', P, params={'entry': 'DNSRecord'}, returns='opt[DNSRecord]',
               requires=['wf_cache(self)'],
               ensures=['implies(in_cache(self, ident(entry)), result is cached(self, ident(entry)))',
                        'implies(not in_cache(self, ident(entry)), result is None)'])
    R.contract('zeroconf._cache', 'DNSCache.async_all_by_details', P,
               params={'name': 'str', 'type_': 'int', 'class_': 'int'}, returns='list[DNSRecord]',
               requires=['wf_cache(self)'],
               ensures=['forall("j:int", lambda j: implies(0 <= j and j < len(result), '
                        '   in_cache(self, ident(result[j])) and result[j] is cached(self, ident(result[j])) '
                        '   and result[j].key == lower(name) and result[j].type == type_ and result[j].class_ == class_))',
                        'forall("i:ident", lambda i: implies(in_cache(self, i) and i.key == lower(name) and i.type == type_ and i.class_ == class_, '
                        '   exists("j:int", lambda j: 0 <= j and j < len(result) and result[j] is cached(self, i))))'],
               loops={0: Loop(inv=[
                   'forall("j:int", lambda j: implies(0 <= j and j < len(matches), '
                   '   in_cache(self, ident(matches[j])) and matches[j] is cached(self, ident(matches[j])) '
                   '   and matches[j].key == lower(name) and matches[j].type == type_ and matches[j].class_ == class_))',
                   'forall("m:int", lambda m: implies(0 <= m and m < _k and _it[m].type == type_ and _it[m].class_ == class_, '
                   '   exists("j:int", lambda j: 0 <= j and j < len(matches) and matches[j] is _it[m])))'])})


def _gen_remove_key(g):
    c = g.cache()
    rec = g.value('DNSRecord')
    which = g.rng.choice(['cache', 'service_cache'])
    key = rec.key if g.rng.random() < 0.8 else g.rng.choice(['a.local.', 'zz.local.'])
    return {'cache': getattr(c, which), 'key': key, 'record': rec}


def install_generators(R):
    R.generators[('zeroconf._cache', '_remove_key')] = _gen_remove_key
