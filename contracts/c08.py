"""C08 - withdrawn services stay withdrawn: complete goodbyes (the deductive part) and the open finding about queued answers.

Goodbye completeness is carried by: the record builders and _add_broadcast_answer / generate_service_broadcast / _async_broadcast_service
(shared with C09: with override TTL 0 EVERY record of the message has TTL 0; PTR, SRV, TXT always, address and NSEC records iff
`broadcast_addresses`), Zeroconf.async_unregister_service (the service leaves the registry FIRST, then "no other registered service
on that host" is read from the registry, and exactly that decides whether the address/NSEC records are withdrawn; three goodbyes
125 ms apart with TTL 0) and generate_unregister_all_services (every registered service is withdrawn with its address records,
then the registry is emptied).

"No resurrection" (nothing with a non-zero TTL after the goodbyes) does NOT hold on the pinned tree for answers that were already
queued in the multicast aggregation queues when the service was unregistered (finding F7): the queues are never purged.  It is
recorded in known_findings.json with its demonstration (findings/F7_demo.py) and not repaired: the repair has to reach into both
queues from three call sites and change what async_ready sends; it is not a one-site patch."""
import z3
from pyvc.contracts import Loop
from pyvc.core import Sc, RefV, NoneV, Cont, PyConst
from contracts import c09, records, await_model

PROP = 'C08'
LEVEL = 'other'          # the no-resurrection clause does not hold on the tree (known finding F7): not a proof of the whole statement
BOUNDED_IN_QUICK = True
CORE = 'zeroconf._core'
ASSUMPTIONS = list(c09.ASSUMPTIONS) + [
    'ServiceRegistry.async_remove / async_get_infos_server / async_get_service_infos by their C03 contracts (verified there)',
    'the claim "never again transmitted with a non-zero TTL" is NOT proved: open finding F7 (answers already queued in the reply '
    'queues outlive the unregistration); an announcement task still sleeping when its service is unregistered can also follow the '
    'last goodbye (register-then-unregister within 450 ms) - both are outside what is claimed here',
]


def _reg_remove(ex, recv, args, kwargs, st, frame, node):
    """ServiceRegistry.async_remove(info | [infos]) by its C03 contract, for both argument forms (the verified C03 contract is written
    for a single ServiceInfo; the list form goes straight to the verified _remove)."""
    from pyvc.contracts import Contract
    arg = args[0]
    is_list = isinstance(arg, Cont)
    ens = ['wf_reg(self)', 'forall("k:str", lambda k: implies(self._services.has(k), old(self._services.has(k)) and self._services[k] is old(self._services[k])))']
    if is_list:
        ens.append('forall("j:int", lambda j: implies(0 <= j and j < len(info), not self._services.has(info[j].key)))')
    else:
        ens += ['not self._services.has(info.key)',
                'forall("k:str", lambda k: implies(k != info.key, self._services.has(k) == old(self._services.has(k))))']
    c = Contract('zeroconf._services.registry', 'ServiceRegistry.async_remove', 'C03',
                 params={'info': 'list[ServiceInfo]' if is_list else 'ServiceInfo'}, requires=['wf_reg(self)'],
                 modifies=['self._services', 'self.types', 'self.servers', 'self.has_entries'], ensures=ens, trusted=True)
    f = ex.ctx.repo.func('zeroconf._services.registry', 'ServiceRegistry.async_remove')
    ex.ctx.assumed.add('ServiceRegistry.async_remove applied by its C03 contract (single service or list of services)')
    yield from ex.call_by_contract(f, c, [recv] + list(args), kwargs, st, frame, node)


def build(R):
    c09.build(R, prop=PROP)
    R.stubs['method:ServiceRegistry.async_remove'] = _reg_remove
    R.shape('Zeroconf', {'registry': 'ServiceRegistry'})
    R.contract('zeroconf._services.info', 'ServiceInfo.set_server_if_missing', PROP, trusted=True, modifies=['self.server', 'self.server_key'],
               ensures=['memo_ok(self)', 'self.key == old(self.key)', 'self.other_ttl == old(self.other_ttl) and self.host_ttl == old(self.host_ttl)',
                        'implies(old(self.server) != "", self.server == old(self.server) and self.server_key == old(self.server_key))'],
               note='sets the host name to the instance name when absent (no memo depends on it before registration)')
    R.contract(CORE, 'Zeroconf.async_unregister_service', PROP, params={'info': 'ServiceInfo'}, returns='object',
               requires=['info is not None and allocated(info) and memo_ok(info)', 'info.other_ttl >= 0 and info.host_ttl >= 0',
                         'self.registry is not None and wf_reg(self.registry)', 'not removed',
                         # a service that went through registration has a host name (set_server_if_missing ran then)
                         'info.server != ""'],
               ghost={'removed': 'bool'},
               modifies=['*'],
               at_calls={
                   'self.registry.async_remove': ['ghost: removed = True'],
                   # "does another registered service use this host name" is asked AFTER this one has left the registry ...
                   'self.registry.async_get_infos_server': ['removed', 'not self.registry._services.has(info.key)'],
                   'self.registry.async_get_infos_server@args': ['_arg0 == info.server_key'],
                   # ... and the goodbyes withdraw the address and NSEC records exactly when no other one does: TTL 0, 125 ms spacing
                   'self._async_broadcast_service@args': ['_arg0 is info and _arg1 == 125 and _arg2 == 0',
                                                          'iff(_arg3, forall("k:str", lambda k: implies(self.registry._services.has(k), '
                                                          '   self.registry._services[k].server_key != info.server_key)))'],
               },
               ensures=[])
    R.contract('zeroconf._services.registry', 'ServiceRegistry.async_get_service_infos', 'C03', returns='list[ServiceInfo]', trusted=True,
               requires=['wf_reg(self)'],
               ensures=['forall("j:int", lambda j: implies(0 <= j and j < len(result), result[j] is not None and registered(self, result[j])))',
                        'forall("k:str", lambda k: implies(self._services.has(k), exists("j:int", lambda j: 0 <= j and j < len(result) and result[j] is self._services[k])))'],
               note='C03: the registered services (list of the name table\'s values)')
    NOUT = 'len(out.answers)'
    R.contract(CORE, 'Zeroconf.generate_unregister_all_services', PROP, returns='opt[DNSOutgoing]',
               requires=['self.registry is not None and wf_reg(self.registry)',
                         'forall("k:str", lambda k: implies(self.registry._services.has(k), allocated(self.registry._services[k]) and memo_ok(self.registry._services[k]) '
                         '   and self.registry._services[k].other_ttl >= 0 and self.registry._services[k].host_ttl >= 0))'],
               modifies=['*'],
               at_calls={
                   # every registered service is withdrawn WITH its address and NSEC records (TTL 0)
                   'self._add_broadcast_answer@args': ['_arg0 is out and _arg2 == 0', '_nargs == 3 or _arg3'],
                   # the registry is emptied only after the goodbye records of all of them were built
                   'self.registry.async_remove': ['_k0 == len(_it0)'],
               },
               ensures=[
                   'implies(old(card(self.registry._services)) == 0, result is None)',
                   'implies(result is not None, fresh_obj(result) and result.multicast and result.flags == 33792 and len(result.questions) == 0 '
                   '   and forall("p:int", lambda p: implies(0 <= p and p < len(result.answers), result.answers[p][0] is not None and result.answers[p][0].ttl == 0)))'],
               loops={0: Loop(inv=[
                   'out is not None and fresh_obj(out) and out.multicast and out.flags == 33792 and len(out.questions) == 0',
                   'forall("p:int", lambda p: implies(0 <= p and p < len(out.answers), out.answers[p][0] is not None and out.answers[p][0].ttl == 0))',
                   'forall("j:int", lambda j: implies(0 <= j and j < len(_it0), _it0[j] is not None and allocated(_it0[j]) and memo_ok(_it0[j]) '
                   '   and _it0[j].other_ttl >= 0 and _it0[j].host_ttl >= 0))',
                   'len(out.answers) >= 3 * _k0'],
                              modifies=['out.answers', 'ServiceInfo._dns_pointer_cache[*]', 'ServiceInfo._dns_service_cache[*]', 'ServiceInfo._dns_text_cache[*]'])})


def configure(ctx, R):
    records.configure(ctx)
    await_model.configure(ctx)
    install_generators(R)


def install_generators(R):
    """Concrete inputs: a real Zeroconf object (no sockets: built with __new__) over a real ServiceRegistry with services that share
    or do not share host names, IPv4-only / IPv6-only / dual-stack."""
    import socket

    def mk_info(g, k, host):
        from zeroconf import ServiceInfo
        fam = g.rng.choice(['4', '6', '46', '46'])
        addrs = []
        if '4' in fam:
            addrs.append(socket.inet_aton('10.0.0.%d' % (k + 1)))
        if '6' in fam:
            addrs.append(socket.inet_pton(socket.AF_INET6, 'fe80::%d' % (k + 1)))
        return ServiceInfo('_x._tcp.local.', 'inst%d._x._tcp.local.' % k, port=80 + k, server=host, addresses=addrs,
                           host_ttl=g.rng.choice([120, 300]), other_ttl=g.rng.choice([4500, 60]), properties={'a': str(k)})

    def mk_zc(g):
        from zeroconf import Zeroconf
        from zeroconf._services.registry import ServiceRegistry
        zc = Zeroconf.__new__(Zeroconf)
        zc.registry = ServiceRegistry()
        hosts = ['h1.local.', 'H1.local.', 'h2.local.']
        infos = [mk_info(g, k, g.rng.choice(hosts)) for k in range(g.rng.randint(0, 3))]
        for i in infos:
            zc.registry.async_add(i)
            if g.rng.random() < 0.5:
                i.dns_pointer(), i.dns_service(), i.dns_text()        # warm memos
        return zc, infos

    def g_all(g):
        zc, infos = mk_zc(g)
        return {'self': zc}
    R.generators[(CORE, 'Zeroconf.generate_unregister_all_services')] = g_all

    def g_bc(g):
        zc, infos = mk_zc(g)
        info = infos[0] if infos else mk_info(g, 7, 'h9.local.')
        return {'self': zc, 'info': info, 'ttl': g.rng.choice([None, 0, 0, 30]), 'broadcast_addresses': g.rng.random() < 0.7}
    R.generators[(CORE, 'Zeroconf.generate_service_broadcast')] = g_bc

    def g_add(g):
        from zeroconf._protocol.outgoing import DNSOutgoing
        d = g_bc(g)
        return {'self': d['self'], 'out': DNSOutgoing(33792), 'info': d['info'], 'override_ttl': d['ttl'], 'broadcast_addresses': d['broadcast_addresses']}
    R.generators[(CORE, 'Zeroconf._add_broadcast_answer')] = g_add
    # bounded only: the goodbye for all services withdraws, for EVERY registered service, its PTR/SRV/TXT and all its address and
    # NSEC records (the prover only shows "TTL 0 on everything that is in the message")
    R.contracts[(CORE, 'Zeroconf.generate_unregister_all_services')].ensures_concrete = [
        'goodbye_complete(self, result)']
    R.spec('goodbye_complete', [('zc', 'Zeroconf'), ('out', 'opt[DNSOutgoing]')], 'bool', lambda ex, st, zc, out: Sc(z3.BoolVal(True), None),
           concrete=_goodbye_complete)
    R.contracts[(CORE, 'Zeroconf.generate_service_broadcast')].ensures_concrete = ['broadcast_complete(info, result, ttl, broadcast_addresses)']
    R.spec('broadcast_complete', [('info', 'ServiceInfo'), ('out', 'DNSOutgoing'), ('ttl', 'optint'), ('b', 'bool')], 'bool',
           lambda ex, st, *a: Sc(z3.BoolVal(True), None), concrete=_broadcast_complete)


_SEEN = {}


def _expected(info, ttl, with_addresses):
    exp = [info.dns_pointer(override_ttl=ttl), info.dns_service(override_ttl=ttl), info.dns_text(override_ttl=ttl)]
    if with_addresses:
        exp += list(info.get_address_and_nsec_records(override_ttl=ttl))
    return exp


def _broadcast_complete(info, out, ttl, b):
    got = [r for r, _ in out.answers]
    for e in _expected(info, ttl, b):
        if not any(r == e and r.ttl == e.ttl for r in got):
            return False
    return all(ttl is None or r.ttl == ttl for r in got)


def _goodbye_complete(zc, out):
    # evaluated in the post-state: the registry is empty then, so the services are remembered by the generator-side snapshot taken
    # from the message itself: every PTR in the message names an instance; for each, SRV, TXT and (dual-stack) both address families
    # or the NSEC record must be there with TTL 0
    if out is None:
        return True
    from zeroconf import const
    recs = [r for r, _ in out.answers]
    names = {r.alias for r in recs if r.type == const._TYPE_PTR}
    for n in names:
        mine = [r for r in recs if r.name == n]
        if not any(r.type == const._TYPE_SRV for r in mine) or not any(r.type == const._TYPE_TXT for r in mine):
            return False
        srv = [r for r in mine if r.type == const._TYPE_SRV][0]
        host = [r for r in recs if r.name.lower() == srv.server.lower() and r.type in (const._TYPE_A, const._TYPE_AAAA)]
        fams = {r.type for r in host}
        if fams != {const._TYPE_A, const._TYPE_AAAA} and not any(r.type == const._TYPE_NSEC for r in mine):
            return False        # an address family is missing but no NSEC record of this instance says so
    return all(r.ttl == 0 for r in recs)


NO_CONCRETE = {'Zeroconf.async_unregister_service', 'ServiceInfo._dns_pointer', 'ServiceInfo._dns_service', 'ServiceInfo._dns_text',
               'ServiceInfo.dns_pointer', 'ServiceInfo.dns_service', 'ServiceInfo.dns_text', 'ServiceInfo.name.setter',
               'Zeroconf._async_broadcast_service'}



# ---- the open finding F7, reproduced on the real objects in every run ----------------------------------------------------------------
def scenario_queued_answer_outlives_unregistration(delayed=False):
    """A QM PTR query is answered into the aggregation queue (or, `delayed`, into the protected queue because the record was seen on
    the wire less than a second ago); the service is unregistered; the queue timer fires.  Returns the records of the withdrawn
    service that are then transmitted with a non-zero TTL."""
    from contracts.loop_model import concrete_world
    from zeroconf import ServiceInfo, const
    from zeroconf._cache import DNSCache
    from zeroconf._dns import DNSQuestion
    from zeroconf._handlers.multicast_outgoing_queue import MulticastOutgoingQueue
    from zeroconf._handlers.query_handler import QueryHandler
    from zeroconf._history import QuestionHistory
    from zeroconf._protocol.incoming import DNSIncoming
    from zeroconf._protocol.outgoing import DNSOutgoing
    from zeroconf._services.registry import ServiceRegistry
    import zeroconf._handlers.multicast_outgoing_queue as moq
    import copy
    now = 100000.0
    clock, timers, sent, loop = concrete_world(now)
    saved = moq.current_time_millis
    moq.current_time_millis = lambda: clock.now
    try:
        class ZC:
            def async_send(self, out, *a):
                sent.events.append((clock.now, out))
        zc = ZC()
        zc.loop, zc.registry, zc.cache, zc.question_history = loop, ServiceRegistry(), DNSCache(), QuestionHistory()
        zc.out_queue = MulticastOutgoingQueue(zc, 0, 500)
        zc.out_delay_queue = MulticastOutgoingQueue(zc, 1000, 200)
        qh = QueryHandler(zc)
        info = ServiceInfo('_x._tcp.local.', 'inst._x._tcp.local.', port=80, server='h.local.', addresses=[b'\x0a\x00\x00\x01'])
        zc.registry.async_add(info)
        if delayed:
            seen = copy.copy(info.dns_pointer())
            seen.created = now - 500.0
            zc.cache.async_add_records([seen])
        q = DNSOutgoing(const._FLAGS_QR_QUERY)
        q.add_question(DNSQuestion('_x._tcp.local.', const._TYPE_PTR, const._CLASS_IN))
        qh.handle_assembled_query([DNSIncoming(q.packets()[0], ('1.2.3.4', 5353), None, now)], '1.2.3.4', 5353, object(), ())
        queue = zc.out_delay_queue if delayed else zc.out_queue
        if len(queue.queue) != 1 or sent.events:
            return None                      # the scenario did not set up as expected: nothing concluded
        zc.registry.async_remove(info)       # unregistered (the goodbyes themselves are C08's proved part)
        clock.now = queue.queue[0].send_before
        queue.async_ready()
        return [(t, repr(r)) for t, out in sent.events for r, _ in out.answers if r.ttl > 0 and r.name == '_x._tcp.local.']
    finally:
        moq.current_time_millis = saved


def bounded_checks(run, tier, seed):
    viol = []
    n = 0
    for delayed in (False, True):
        n += 1
        late = scenario_queued_answer_outlives_unregistration(delayed)
        if late is None:
            viol.append({'signature': 'scenario-did-not-set-up', 'delayed': delayed})
        elif late:
            viol.append({'signature': 'queued-answer-outlives-unregistration', 'queue': 'out_delay_queue' if delayed else 'out_queue', 'sent': late[:3]})
    # one witness per signature
    uniq = {}
    for v in viol:
        uniq.setdefault(v['signature'], v)
    return {'no-resurrection-queued-answers': {
        'evaluations': n, 'violations': list(uniq.values()),
        'bound': 'two fixed scenarios on the real QueryHandler / MulticastOutgoingQueue / ServiceRegistry with a recording loop: a QM PTR '
                 'answer waiting in the aggregation queue resp. the protected queue when its service is unregistered'}}
