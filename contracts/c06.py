"""C06 - response ingestion and the record-update listener contract."""
import z3
from pyvc.contracts import Loop, View
from pyvc.core import Sc, RefV, NoneV, PyConst, FuncV, Cont, TupleV, fresh
from pyvc.types import T, INT, REAL, BOOL, Ref, ref, parse_type
from contracts import records, cache_model

PROP = 'C06'
ASSUMPTIONS = [
    'A1: float arithmetic treated as real arithmetic',
    'record identity model (ident) licensed by C20; cache contracts proved in C05',
    'T7: listener callbacks are arbitrary code that may add/remove listeners and read the cache; they do not '
    'mutate the cache, cached records or the datagram\'s records, and do not raise',
    'the answers of the datagram are distinct fresh objects created by the decoder with created == msg.now and '
    'ttl >= 0 (C02), none of them is an object already stored in the cache',
    'input class excluded (statement is contradictory there): one identity appearing with both zero and non-zero '
    'TTL in the same datagram',
    'lazily parsed answers are modelled as already present in DNSIncoming._answers (the parser is C02)',
]
EVT = 'tuple[int, RecordUpdateListener, int]'     # (kind, listener, id of the pair-list value: ghost lid(list))


def _log_event(kind):
    def stub(ex, recv, args, kwargs, st, frame, node):
        log = ex.ctx.ghost_objects['LOG']
        fs = ex.ctx.shapes.field('VLog', 'events')
        ev = Cont(__import__('pyvc.core', fromlist=['FieldLoc']).FieldLoc(log.term, fs.fid, fs.t.sort()), fs.t)
        et = fs.t.args[0]
        if kind == 1:
            recs = args[2]
            lt_ = ex.term(recs, st)
            lid = z3.Function('ghost_lid', lt_.sort(), z3.IntSort())
            lst = lid(lt_)
        else:
            lst = z3.IntVal(0)
        ex.l_append(ev, Sc(et.mk(z3.IntVal(kind), recv.term, lst), et), st)
        # frame of a callback (T7): it may add/remove listeners on any record manager
        fl = ex.ctx.shapes.field('RecordManager', 'listeners')
        st.heap[fl.fid] = fresh('Hv_listeners', z3.ArraySort(Ref, fl.t.sort()))
        ex.ctx.assumed.add('T7')
        yield st, NoneV()
    return stub


def _noop(ex, recv, args, kwargs, st, frame, node):
    yield st, NoneV()


def install(R):
    R.shape('RecordManager', {'zc': 'Zeroconf', 'cache': 'DNSCache', 'listeners': 'set[RecordUpdateListener]'})
    R.shape('RecordUpdate', {'new': 'DNSRecord', 'old': 'opt[DNSRecord]'})
    R.shape('DNSIncoming', {'now': 'real', '_answers': 'list[DNSRecord]'})
    R.shape('Zeroconf', {'cache': 'DNSCache', 'record_manager': 'RecordManager'})
    R.shape('RecordUpdateListener', {})
    R.shape('VLog', {'events': 'list[%s]' % EVT}, bases=[])
    R.ghost_objects['LOG'] = 'VLog'
    R.stubs['method:RecordUpdateListener.async_update_records'] = _log_event(1)
    R.stubs['method:RecordUpdateListener.async_update_records_complete'] = _log_event(2)
    R.stubs['method:Zeroconf.async_notify_all'] = _noop
    R.contract('zeroconf._protocol.incoming', 'DNSIncoming.answers', 'C02', returns='list[DNSRecord]',
               result_alias='self._answers', trusted=True,
               note='returns the parsed answer list (parser proved in C02; lazily parsed content modelled as present)')

    # ---- notification fan-out -------------------------------------------------------------------------
    called = ('forall("l:RecordUpdateListener", lambda l: implies(old(self.listeners).has(l), '
              '  exists("p:int", lambda p: old(len(LOG.events)) <= p and p < len(LOG.events) and LOG.events[p][1] is l)))')
    R.contract('zeroconf._handlers.record_manager', 'RecordManager.async_updates', PROP,
               params={'now': 'real', 'records': 'list[RecordUpdate]'},
               modifies=['LOG.events', 'RecordManager.listeners[*]'],
               ensures=['len(LOG.events) == old(len(LOG.events)) + old(card(self.listeners))',
                        'forall("p:int", lambda p: implies(0 <= p and p < old(len(LOG.events)), LOG.events[p] == old(LOG.events[p])))',
                        'forall("p:int", lambda p: implies(old(len(LOG.events)) <= p and p < len(LOG.events), '
                        '   LOG.events[p][0] == 1 and old(self.listeners).has(LOG.events[p][1]) and LOG.events[p][2] == uf("lid", records)))',
                        'forall("p:int, q:int", lambda p, q: implies(old(len(LOG.events)) <= p and p < q and q < len(LOG.events), '
                        '   LOG.events[p][1] is not LOG.events[q][1]))',
                        called],
               loops={0: Loop(inv=['forall("j:int", lambda j: implies(0 <= j and j < _k, LOG.events[old(len(LOG.events)) + j][1] is _it[j]))',
                                   'len(LOG.events) == old(len(LOG.events)) + _k',
                                   'forall("p:int", lambda p: implies(0 <= p and p < old(len(LOG.events)), LOG.events[p] == old(LOG.events[p])))',
                                   'forall("p:int", lambda p: implies(old(len(LOG.events)) <= p and p < len(LOG.events), '
                                   '   LOG.events[p][0] == 1 and LOG.events[p][1] is _it[p - old(len(LOG.events))] and LOG.events[p][2] == uf("lid", records)))'])})
    R.contract('zeroconf._handlers.record_manager', 'RecordManager.async_updates_complete', PROP,
               params={'notify': 'bool'},
               modifies=['LOG.events', 'RecordManager.listeners[*]'],
               ensures=['len(LOG.events) == old(len(LOG.events)) + old(card(self.listeners))',
                        'forall("p:int", lambda p: implies(0 <= p and p < old(len(LOG.events)), LOG.events[p] == old(LOG.events[p])))',
                        'forall("p:int", lambda p: implies(old(len(LOG.events)) <= p and p < len(LOG.events), '
                        '   LOG.events[p][0] == 2 and old(self.listeners).has(LOG.events[p][1])))',
                        'forall("p:int, q:int", lambda p, q: implies(old(len(LOG.events)) <= p and p < q and q < len(LOG.events), '
                        '   LOG.events[p][1] is not LOG.events[q][1]))',
                        called],
               loops={0: Loop(inv=['forall("j:int", lambda j: implies(0 <= j and j < _k, LOG.events[old(len(LOG.events)) + j][1] is _it[j]))',
                                   'len(LOG.events) == old(len(LOG.events)) + _k',
                                   'forall("p:int", lambda p: implies(0 <= p and p < old(len(LOG.events)), LOG.events[p] == old(LOG.events[p])))',
                                   'forall("p:int", lambda p: implies(old(len(LOG.events)) <= p and p < len(LOG.events), '
                                   '   LOG.events[p][0] == 2 and LOG.events[p][1] is _it[p - old(len(LOG.events))]))'])})


def build(R):
    records.install(R)
    cache_model.install(R)
    cache_model.install_flush_specs(R)
    cache_model.install_lookups(R)
    install(R)
    install_response(R)
    install_generators(R)
    install_listeners(R)
    install_add_listener(R)
    cache_model.install_generators(R)
    # contracts proved elsewhere are used by contract here (not re-verified under C06)


def configure(ctx, R):
    records.configure(ctx)


NO_CONCRETE = set()


# ---------------------------------------------------------------------------------------------------------
# async_updates_from_response
A = 'msg._answers'
C = 'self.cache'


def install_response(R):
    R.spec('floor_ttl', [('t', 'real'), ('ty', 'int')], 'real', 'ite(t != 0 and ty == 12 and t < 1125, 1125, t)')
    R.spec('occ', [('a', 'list[DNSRecord]'), ('k', 'int'), ('i', 'ident')], 'bool',
           'exists("j:int", lambda j: 0 <= j and j < k and ident(a[j]) == i)')
    R.spec('live_occ', [('a', 'list[DNSRecord]'), ('k', 'int'), ('i', 'ident')], 'bool',
           'exists("j:int", lambda j: 0 <= j and j < k and ident(a[j]) == i and old(a[j].ttl) != 0)')
    # the last occurrence below k of identity i is at j
    R.spec('last_occ', [('a', 'list[DNSRecord]'), ('k', 'int'), ('i', 'ident'), ('j', 'int')], 'bool',
           '0 <= j and j < k and ident(a[j]) == i and forall("m:int", lambda m: implies(j < m and m < k, ident(a[m]) != i))')
    R.spec('prev_of', [('c', 'DNSCache'), ('r', 'DNSRecord')], 'opt[DNSRecord]',
           'ite(in_cache(c, ident(r)), cached(c, ident(r)), None)')
    R.spec('qualifies', [('c', 'DNSCache'), ('r', 'DNSRecord')], 'bool', 'old(r.ttl) != 0 or in_cache(c, ident(r))')
    # the same two, about the cache as it was when the datagram arrived (arguments are evaluated by the caller)
    R.spec('qualifies0', [('c', 'DNSCache'), ('r', 'DNSRecord')], 'bool', 'old(r.ttl) != 0 or old(in_cache(c, ident(r)))')
    R.spec('prev_of0', [('c', 'DNSCache'), ('r', 'DNSRecord')], 'opt[DNSRecord]',
           'ite(old(in_cache(c, ident(r))), old(cached(c, ident(r))), None)')
    pre = [
        'wf_cache(%s)' % C,
        'forall("j:int", lambda j: implies(0 <= j and j < len(%s), %s[j] is not None and cls_is(%s[j], DNSRecord) '
        '   and %s[j].created == msg.now and %s[j].ttl >= 0))' % (A, A, A, A, A),
        'forall("j:int, m:int", lambda j, m: implies(0 <= j and j < m and m < len(%s), %s[j] is not %s[m]))' % (A, A, A),
        'forall("j:int, i:ident", lambda j, i: implies(0 <= j and j < len(%s) and in_cache(%s, i), cached(%s, i) is not %s[j]))' % (A, C, C, A),
        'forall("j:int, m:int", lambda j, m: implies(0 <= j and j < len(%s) and 0 <= m and m < len(%s) and ident(%s[j]) == ident(%s[m]), '
        '   (%s[j].ttl == 0) == (%s[m].ttl == 0)))' % (A, A, A, A, A, A),
        'msg is not None and self.cache is not None',
    ]
    # facts about the pair list, shared by the loop invariant (k = _k) and the postcondition (k = len(A))
    AI = 'uf("ai", %s)'          # ghost: index in the datagram of an answer object (objects are distinct, P3)

    def upd(k, final=False):
        r = 'updates[p].new'
        q = 'qualifies0(%s, %s)' % (C, r) if final else 'qualifies(%s, %s)' % (C, r)
        pv = 'prev_of0(%s, %s)' % (C, r) if final else 'prev_of(%s, %s)' % (C, r)
        qj = 'qualifies0(%s, %s[j])' % (C, A) if final else 'qualifies(%s, %s[j])' % (C, A)
        return [
            'forall("p:int", lambda p: implies(0 <= p and p < len(updates), updates[p] is not None and allocated(updates[p]) and fresh_obj(updates[p])))',
            'forall("p:int, q:int", lambda p, q: implies(0 <= p and p < q and q < len(updates), updates[p] is not updates[q]))',
            # every pair is (record of the datagram, previous cached copy or None), records that qualify only
            'forall("p:int", lambda p: implies(0 <= p and p < len(updates), 0 <= %s and %s < %s and %s[%s] is %s '
            '   and %s and updates[p].old is %s))' % (AI % r, AI % r, k, A, AI % r, r, q, pv),
            # ... every qualifying record has its pair ...
            'forall("j:int", lambda j: implies(0 <= j and j < %s and %s, '
            '   exists("p:int", lambda p: 0 <= p and p < len(updates) and updates[p].new is %s[j])))' % (k, qj, A),
            # ... and the pairs are in datagram order
            'forall("p:int, q:int", lambda p, q: implies(0 <= p and p < q and q < len(updates), %s < %s))'
            % (AI % 'updates[p].new', AI % 'updates[q].new'),
        ]

    def heap_facts(k):
        return [
            # the datagram's records: PTR floor applied below k, untouched above
            'forall("j:int", lambda j: implies(0 <= j and j < len(%s), %s[j].created == msg.now))' % (A, A),
            'forall("j:int", lambda j: implies(0 <= j and j < %s, %s[j].ttl == floor_ttl(old(%s[j].ttl), %s[j].type)))' % (k, A, A, A),
            'forall("j:int", lambda j: implies(%s <= j and j < len(%s), %s[j].ttl == old(%s[j].ttl)))' % (k, A, A, A),
            # cached entries: refreshed from the last non-goodbye occurrence, otherwise untouched
            'forall("i:ident", lambda i: implies(in_cache(%s, i) and live_occ(%s, %s, i), '
            '   cached(%s, i).created == msg.now and exists("j:int", lambda j: last_occ(%s, %s, i, j) and cached(%s, i).ttl == %s[j].ttl)))'
            % (C, A, k, C, A, k, C, A),
            'forall("i:ident", lambda i: implies(in_cache(%s, i) and not live_occ(%s, %s, i), '
            '   cached(%s, i).created == old(cached(%s, i).created) and cached(%s, i).ttl == old(cached(%s, i).ttl)))' % (C, A, k, C, C, C, C),
        ]
    base = ['now == msg.now', 'cache is self.cache', 'list_eq(_it, %s)' % A, 'list_eq(answers, %s)' % A]
    inv_adds = [

        'forall("p:int", lambda p: implies(0 <= p and p < len(address_adds), 0 <= %s and %s < _k and %s[%s] is address_adds[p] '
        '   and old(address_adds[p].ttl) != 0 and not in_cache(%s, ident(address_adds[p]))))'
        % (AI % 'address_adds[p]', AI % 'address_adds[p]', A, AI % 'address_adds[p]', C),
        'forall("p:int", lambda p: implies(0 <= p and p < len(other_adds), 0 <= %s and %s < _k and %s[%s] is other_adds[p] '
        '   and old(other_adds[p].ttl) != 0 and not in_cache(%s, ident(other_adds[p]))))'
        % (AI % 'other_adds[p]', AI % 'other_adds[p]', A, AI % 'other_adds[p]', C),
        'forall("j:int", lambda j: implies(0 <= j and j < _k and old(%s[j].ttl) != 0 and not in_cache(%s, ident(%s[j])) '
        '   and (%s[j].type == 1 or %s[j].type == 28), '
        '   exists("p:int", lambda p: 0 <= p and p < len(address_adds) and address_adds[p] is %s[j])))' % (A, C, A, A, A, A),
        'forall("j:int", lambda j: implies(0 <= j and j < _k and old(%s[j].ttl) != 0 and not in_cache(%s, ident(%s[j])) '
        '   and not (%s[j].type == 1 or %s[j].type == 28), '
        '   exists("p:int", lambda p: 0 <= p and p < len(other_adds) and other_adds[p] is %s[j])))' % (A, C, A, A, A, A),
        # later copy wins inside each add list: positions are in datagram order
        'forall("p:int, q:int", lambda p, q: implies(0 <= p and p < q and q < len(address_adds), %s < %s))'
        % (AI % 'address_adds[p]', AI % 'address_adds[q]'),
        'forall("p:int, q:int", lambda p, q: implies(0 <= p and p < q and q < len(other_adds), %s < %s))'
        % (AI % 'other_adds[p]', AI % 'other_adds[q]'),
    ]
    inv_sets = [
        'forall("i:ident", lambda i: removes.has(i) == (in_cache(%s, i) and exists("j:int", lambda j: 0 <= j and j < _k '
        '   and ident(%s[j]) == i and old(%s[j].ttl) == 0)))' % (C, A, A),
        'forall("i:ident", lambda i: implies(removes.has(i), ident(removes.keyobj(i)) == i))',
        'forall("p:int", lambda p: implies(0 <= p and p < len(address_adds), address_adds[p].type == 1 or address_adds[p].type == 28))',
        'forall("p:int", lambda p: implies(0 <= p and p < len(other_adds), not (other_adds[p].type == 1 or other_adds[p].type == 28)))',
        'forall("j:int", lambda j: implies(0 <= j and j < _k and %s[j].unique, '
        '   unique_types.has((%s[j].name, %s[j].type, %s[j].class_))))' % (A, A, A, A),
        'forall("t:tuple[str,int,int]", lambda t: unique_types.has(t) == exists("j:int", lambda j: 0 <= j and j < _k '
        '   and %s[j].unique and t[0] == %s[j].name and t[1] == %s[j].type and t[2] == %s[j].class_))' % (A, A, A, A),
        ]
    n = 'len(%s)' % A
    LM = ['DNSRecord.ttl[*]', 'DNSRecord.created[*]', 'RecordUpdate.new[*]', 'RecordUpdate.old[*]']
    final = ['wf_cache(%s)' % C] + [
        # (a) every non-goodbye record ends up cached, created at arrival, TTL of the last copy (PTR floored)
        'forall("j:int", lambda j: implies(0 <= j and j < %s and old(%s[j].ttl) != 0, in_cache(%s, ident(%s[j])) '
        '   and cached(%s, ident(%s[j])).created == msg.now '
        '   and exists("m:int", lambda m: last_occ(%s, %s, ident(%s[j]), m) '
        '          and cached(%s, ident(%s[j])).ttl == floor_ttl(old(%s[m].ttl), %s[m].type))))' % (n, A, C, A, C, A, A, n, A, C, A, A, A),
        # (b) every goodbye of a cached record removes it
        'forall("j:int", lambda j: implies(0 <= j and j < %s and old(%s[j].ttl) == 0, not in_cache(%s, ident(%s[j]))))' % (n, A, C, A),
        # identities not in the datagram: membership and object unchanged
        'forall("i:ident", lambda i: implies(not occ(%s, %s, i), in_cache(%s, i) == old(in_cache(%s, i))))' % (A, n, C, C),
        'forall("i:ident", lambda i: implies(not occ(%s, %s, i) and in_cache(%s, i), cached(%s, i) is old(cached(%s, i))))' % (A, n, C, C, C),
    ]
    L0 = 'old(len(LOG.events))'
    log_facts = [
        'implies(len(updates) == 0, len(LOG.events) == %s)' % L0,
        'forall("p:int", lambda p: implies(0 <= p and p < %s, LOG.events[p] == old(LOG.events[p])))' % L0,
        # first group: every listener registered on arrival, exactly once, with the pair list
        'implies(len(updates) > 0, len(LOG.events) >= %s + old(card(self.listeners)))' % L0,
        'implies(len(updates) > 0, forall("p:int", lambda p: implies(%s <= p and p < %s + old(card(self.listeners)), '
        '   LOG.events[p][0] == 1 and old(self.listeners).has(LOG.events[p][1]) and LOG.events[p][2] == uf("lid", updates))))' % (L0, L0),
        'implies(len(updates) > 0, forall("p:int, q:int", lambda p, q: implies(%s <= p and p < q and q < %s + old(card(self.listeners)), '
        '   LOG.events[p][1] is not LOG.events[q][1])))' % (L0, L0),
        'implies(len(updates) > 0, forall("l:RecordUpdateListener", lambda l: implies(old(self.listeners).has(l), '
        '   exists("p:int", lambda p: %s <= p and p < %s + old(card(self.listeners)) and LOG.events[p][1] is l))))' % (L0, L0),
        # second group: completion calls only, each listener at most once
        'forall("p:int", lambda p: implies(%s + old(card(self.listeners)) <= p and p < len(LOG.events), LOG.events[p][0] == 2))' % L0,
        'forall("p:int, q:int", lambda p, q: implies(%s + old(card(self.listeners)) <= p and p < q and q < len(LOG.events), '
        '   LOG.events[p][1] is not LOG.events[q][1]))' % L0,
    ]
    # (c) cache-flush: other cached records of the same name/type/class older than one second - and only those -
    #     are set to expire one second later; everything else not named by the datagram keeps created and ttl
    HIT = ('exists("m:int", lambda m: 0 <= m and m < %s and %s[m].unique and r.key == lower(%s[m].name) '
           'and r.type == %s[m].type and r.class_ == %s[m].class_)' % (n, A, A, A, A))
    NOTIN = 'old(in_cache(%s, ident(r))) and r is old(cached(%s, ident(r))) and not occ(%s, %s, ident(r))' % (C, C, A, n)
    flush_post = [
        'forall("r:DNSRecord", lambda r: implies(%s and %s and msg.now - old(r.created) > 1000, '
        '   r.created == msg.now and r.ttl == 1))' % (NOTIN, HIT),
        'forall("r:DNSRecord", lambda r: implies(%s and not (%s and msg.now - old(r.created) > 1000), '
        '   r.created == old(r.created) and r.ttl == old(r.ttl)))' % (NOTIN, HIT),
    ]
    views = [
        View('heap', loops={0: Loop(inv=base + heap_facts('_k'), modifies=LM)}, ensures=[], only_loops=True),
        View('pairs', loops={0: Loop(inv=base + upd('_k'), assume_only=heap_facts('_k'), modifies=LM)},
             ensures=upd(n, True), only_loops=True),
        View('adds', loops={0: Loop(inv=base + inv_adds, assume_only=heap_facts('_k'), modifies=LM)}, ensures=[], only_loops=True),
        View('sets', loops={0: Loop(inv=base + inv_sets, assume_only=heap_facts('_k'), modifies=LM)}, ensures=[], only_loops=True),
        # every invariant above is inductive on its own; here they are only assumed and combined after the loop
        View('final', loops={0: Loop(inv=[], assume_only=base + upd('_k') + heap_facts('_k') + inv_adds + inv_sets,
                                     modifies=LM)}, ensures=final + flush_post + log_facts,
             at_calls={
                 # listeners are told BEFORE anything is added to / removed from the cache ...
                 'async_updates': [
                     'forall("i:ident", lambda i: in_cache(%s, i) == old(in_cache(%s, i)))' % (C, C),
                     'forall("i:ident", lambda i: implies(in_cache(%s, i), cached(%s, i) is old(cached(%s, i))))' % (C, C, C),
                     # ... but refreshed TTLs are already visible
                     'forall("i:ident", lambda i: implies(in_cache(%s, i) and live_occ(%s, %s, i), cached(%s, i).created == msg.now))' % (C, A, n, C),
                     'len(updates) > 0'],
                 # ... and told again only when every add and every removal has happened
                 'async_updates_complete': [
                     'forall("j:int", lambda j: implies(0 <= j and j < %s and old(%s[j].ttl) != 0, in_cache(%s, ident(%s[j]))))' % (n, A, C, A),
                     'forall("j:int", lambda j: implies(0 <= j and j < %s and old(%s[j].ttl) == 0, not in_cache(%s, ident(%s[j]))))' % (n, A, C, A),
                     'len(updates) > 0',
                     'len(LOG.events) == %s + old(card(self.listeners))' % L0,
                     'forall("p:int", lambda p: implies(%s <= p and p < len(LOG.events), LOG.events[p][0] == 1))' % L0],
             }),
    ]
    R.contract('zeroconf._handlers.record_manager', 'RecordManager.async_updates_from_response', PROP,
               params={'msg': 'DNSIncoming'}, requires=pre,
               modifies=['DNSRecord.ttl[*]', 'DNSRecord.created[*]', 'RecordUpdate.new[*]', 'RecordUpdate.old[*]',
                         'self.cache.cache', 'self.cache.service_cache', 'LOG.events', 'RecordManager.listeners[*]'],
               ghost_out={'updates': 'list[RecordUpdate]'},
               ghost_defs=['forall("j:int", lambda j: implies(0 <= j and j < len(%s), %s == j))' % (A, AI % (A + '[j]'))],
               views=views)


# ---------------------------------------------------------------------------------------------------------
# concrete harness (bounded cross-check / replay search): real RecordManager, recording listeners
class _VLog:
    def __init__(self):
        self.events = []


def _mk_manager(g, nlisteners):
    from zeroconf._handlers.record_manager import RecordManager
    from zeroconf._updates import RecordUpdateListener
    log = _VLog()
    captured = {}

    class ZC:
        def __init__(self, cache):
            self.cache = cache

        def async_notify_all(self):
            pass

    class L(RecordUpdateListener):
        def async_update_records(self, zc, now, records):
            captured['updates'] = records
            log.events.append((1, self, id(records)))

        def async_update_records_complete(self):
            log.events.append((2, self, 0))
    zc = ZC(g.cache())
    rm = RecordManager(zc)
    zc.record_manager = rm
    for _ in range(nlisteners):
        rm.listeners.add(L())
    return rm, log, captured


class _Msg:
    def __init__(self, answers, now):
        self._answers = answers
        self.now = now

    def answers(self):
        return self._answers


def _gen_updates(g):
    rm, log, captured = _mk_manager(g, g.rng.randint(0, 3))
    recs = [object() for _ in range(g.rng.randint(0, 3))]
    return {'self': rm, 'now': 1000.0, 'records': recs, '__env__': {'LOG': log},
            '__ghost_funcs__': {'lid': lambda l: id(l)}}


def _gen_complete(g):
    rm, log, captured = _mk_manager(g, g.rng.randint(0, 3))
    return {'self': rm, 'notify': g.rng.random() < 0.5, '__env__': {'LOG': log}}


def _gen_response(g):
    import copy
    rm, log, captured = _mk_manager(g, g.rng.randint(1, 2))
    now = g.rng.choice([2000.0, 2500.0, 5000.0, 130000.0])
    cached = [r for st in rm.cache.cache.values() for r in st]
    answers = []
    zero = {}
    for _ in range(g.rng.randint(0, 4)):
        if cached and g.rng.random() < 0.6:
            r = copy.copy(g.rng.choice(cached))
        elif answers and g.rng.random() < 0.3:
            r = copy.copy(g.rng.choice(answers))
        else:
            r = g.record()
        from pyvc.concrete import ident_of
        i = ident_of(r)
        if i not in zero:
            zero[i] = g.rng.random() < 0.3
        r.ttl = 0 if zero[i] else g.rng.choice([1, 120, 1124, 1125, 4500])
        r.created = now
        answers.append(r)
    msg = _Msg(answers, now)
    return {'self': rm, 'msg': msg, '__env__': {'LOG': log},
            '__ghost_funcs__': {'lid': lambda l: id(l), 'ai': lambda r: [k for k, a in enumerate(answers) if a is r][0]},
            '__ghost_out__': lambda kw, res: {'updates': captured.get('updates', [])}}


def install_generators(R):
    K = 'zeroconf._handlers.record_manager'
    R.generators[(K, 'RecordManager.async_updates')] = _gen_updates
    R.generators[(K, 'RecordManager.async_updates_complete')] = _gen_complete
    R.generators[(K, 'RecordManager.async_updates_from_response')] = _gen_response
    R.generators[(K, 'RecordManager._async_update_matching_records')] = _gen_matching
    R.generators[(K, 'RecordManager.async_remove_listener')] = _gen_remove_listener
    R.generators[(K, 'RecordManager.async_add_listener')] = _gen_add_listener


def install_listeners(R):
    """async_add_listener / _async_update_matching_records / async_remove_listener"""
    K = 'zeroconf._handlers.record_manager'
    R.shape('DNSQuestion', {})
    L0 = 'old(len(LOG.events))'
    ans = ('(q.class_ == r.class_ and (q.type == r.type or q.type == 255) and q.name == r.name)')
    R.spec('answers_q', [('q', 'DNSQuestion'), ('r', 'DNSRecord')], 'bool', ans)
    R.contract(K, 'RecordManager._async_update_matching_records', PROP,
               params={'listener': 'RecordUpdateListener', 'questions': 'list[DNSQuestion]'},
               requires=['wf_cache(self.cache)', 'self.cache is not None',
                         'forall("j:int", lambda j: implies(0 <= j and j < len(questions), questions[j] is not None))'],
               modifies=['LOG.events', 'RecordManager.listeners[*]', 'RecordUpdate.new[*]', 'RecordUpdate.old[*]'],
               ghost_out={'records': 'list[RecordUpdate]', 'now': 'real'},
               ensures=[
                   # the replay list: one (record, None) pair per (question, unexpired cached record answering it)
                   'forall("p:int", lambda p: implies(0 <= p and p < len(records), records[p].old is None '
                   '   and in_cache(self.cache, ident(records[p].new)) and records[p].new is cached(self.cache, ident(records[p].new)) '
                   '   and not expired(records[p].new, now) '
                   '   and exists("j:int", lambda j: 0 <= j and j < len(questions) and answers_q(questions[j], records[p].new))))',
                   'forall("j:int, i:ident", lambda j, i: implies(0 <= j and j < len(questions) and in_cache(self.cache, i) '
                   '   and not expired(cached(self.cache, i), now) and answers_q(questions[j], cached(self.cache, i)), '
                   '   exists("p:int", lambda p: 0 <= p and p < len(records) and records[p].new is cached(self.cache, i))))',
                   # nothing to report: no call at all
                   'implies(len(records) == 0, len(LOG.events) == %s)' % L0,
                   # otherwise exactly: async_update_records(listener, pairs) then async_update_records_complete(listener)
                   'implies(len(records) > 0, len(LOG.events) == %s + 2 and LOG.events[%s][0] == 1 and LOG.events[%s][1] is listener '
                   '   and LOG.events[%s][2] == uf("lid", records) and LOG.events[%s + 1][0] == 2 and LOG.events[%s + 1][1] is listener)'
                   % (L0, L0, L0, L0, L0, L0),
                   'forall("p:int", lambda p: implies(0 <= p and p < %s, LOG.events[p] == old(LOG.events[p])))' % L0])
    R.contract(K, 'RecordManager.async_remove_listener', PROP, params={'listener': 'RecordUpdateListener'},
               modifies=['self.listeners'],
               raises={'KeyError': 'not self.listeners.has(listener)'}, raises_exact=['KeyError'],
               ensures=['forall("l:RecordUpdateListener", lambda l: self.listeners.has(l) == (old(self.listeners).has(l) and l is not listener))'],
               note='set.remove raises KeyError for an unregistered listener; the except clause names ValueError, so the '
                    'KeyError escapes (stated here as the function\'s actual behaviour; callers are checked against it)')


def _gen_matching(g):
    rm, log, captured = _mk_manager(g, 0)
    from zeroconf._updates import RecordUpdateListener

    class L(RecordUpdateListener):
        def async_update_records(self, zc, now, records):
            captured['records'] = records
            log.events.append((1, self, id(records)))

        def async_update_records_complete(self):
            log.events.append((2, self, 0))
    lst = L()
    from zeroconf._dns import DNSQuestion
    cached = [r for st in rm.cache.cache.values() for r in st]
    qs = []
    for _ in range(g.rng.randint(0, 3)):
        if cached and g.rng.random() < 0.8:
            r = g.rng.choice(cached)
            qs.append(DNSQuestion(g.rng.choice([r.name, r.name.upper()]), g.rng.choice([r.type, 255, 12]), g.rng.choice([r.class_, 1])))
        else:
            qs.append(g.question())
    times = [r.created + 1000 * r.ttl + d for r in cached for d in (-1, 0, 1)] or [2000.0]
    clock = max(1.0, g.rng.choice(times))
    return {'self': rm, 'listener': lst, 'questions': qs, '__env__': {'LOG': log}, '__clock__': clock,
            '__ghost_funcs__': {'lid': lambda l: id(l)},
            '__ghost_out__': lambda kw, res: {'records': captured.get('records', [])}}


def _gen_remove_listener(g):
    rm, log, captured = _mk_manager(g, g.rng.randint(0, 2))
    from zeroconf._updates import RecordUpdateListener
    l = g.rng.choice(list(rm.listeners)) if rm.listeners and g.rng.random() < 0.6 else RecordUpdateListener()
    return {'self': rm, 'listener': l}


def install_add_listener(R):
    K = 'zeroconf._handlers.record_manager'
    L0 = 'old(len(LOG.events))'
    R.contract(K, 'RecordManager.async_add_listener', PROP,
               params={'listener': 'RecordUpdateListener', 'question': 'list[DNSQuestion]'},
               requires=['wf_cache(self.cache)', 'self.cache is not None', 'listener is not None',
                         'forall("j:int", lambda j: implies(0 <= j and j < len(question), question[j] is not None))'],
               modifies=['self.listeners', 'LOG.events', 'RecordManager.listeners[*]', 'RecordUpdate.new[*]', 'RecordUpdate.old[*]'],
               ensures=['len(LOG.events) == %s or (len(LOG.events) == %s + 2 and LOG.events[%s][0] == 1 and LOG.events[%s][1] is listener '
                        '   and LOG.events[%s + 1][0] == 2 and LOG.events[%s + 1][1] is listener)' % (L0, L0, L0, L0, L0, L0),
                        'forall("p:int", lambda p: implies(0 <= p and p < %s, LOG.events[p] == old(LOG.events[p])))' % L0],
               at_calls={'_async_update_matching_records': ['self.listeners.has(listener)']},
               note='verified for the list-of-questions form used by the browser and by ServiceInfo; the single-question '
                    'and None forms differ only in the wrapper lines')


def _gen_add_listener(g):
    d = _gen_matching(g)
    d['question'] = d.pop('questions')
    d.pop('__ghost_out__', None)
    return d
