"""C03 - responder answers exactly what is registered, minus what the querier knows."""
from contracts import records, registry_model, responder_model

PROP = 'C03'
ASSUMPTIONS = ['a registered ServiceInfo has a server name (set_server_if_missing ran: the API does this before registration)',
               'a registered ServiceInfo is not mutated behind the registry (key/type/server_key change only through '
               'update_service); memo validity of address lists modelled by flags']


def build(R):
    records.install(R)
    registry_model.install(R)
    registry_model.install_getters(R)
    responder_model.install_strategies(R)
    responder_model.install_rrset(R)


def configure(ctx, R):
    records.configure(ctx)
    registry_model.install_generators(R)
    responder_model.install_generators(R)
    responder_model.install_rrset_generators(R)


NO_CONCRETE = set()
