"""C03 - responder answers exactly what is registered, minus what the querier knows."""
from contracts import records, registry_model, responder_model

PROP = 'C03'
ASSUMPTIONS = ['a registered ServiceInfo has a server name (set_server_if_missing ran: the API does this before registration)',
               'a registered ServiceInfo is not mutated behind the registry (key/type/server_key change only through '
               'update_service); memo validity of address lists modelled by flags',
               'ServiceInfo._dns_addresses / _dns_nsec / _get_address_and_nsec_records (list comprehensions over ipaddress objects) enter by '
               'assumed contracts: one address record per address of the host (server key, A or AAAA, host TTL, cache-flush), has_addr_type(s, t) '
               'names whether that list has a record of type t']


def build(R):
    records.install(R)
    registry_model.install(R)
    registry_model.install_getters(R)
    responder_model.install_strategies(R)
    responder_model.install_rrset(R)
    from contracts import c09
    c09.install_builders(R, PROP)          # the service's own record builders (memo soundness, TTLs, cache-flush class)
    responder_model.install_answers(R)


def configure(ctx, R):
    records.configure(ctx)
    registry_model.install_generators(R)
    responder_model.install_generators(R)
    responder_model.install_rrset_generators(R)
    responder_model.install_answer_generators(R)


NO_CONCRETE = set()
