"""C03 - responder answers exactly what is registered, minus what the querier knows."""
from contracts import records, registry_model

PROP = 'C03'
ASSUMPTIONS = ['a registered ServiceInfo has a server name (set_server_if_missing ran: the API does this before registration)',
               'a registered ServiceInfo is not mutated behind the registry (key/type/server_key change only through '
               'update_service); memo validity of address lists modelled by flags']


def build(R):
    records.install(R)
    registry_model.install(R)
    registry_model.install_getters(R)


def configure(ctx, R):
    records.configure(ctx)


NO_CONCRETE = {'ServiceRegistry._remove_from_index', 'ServiceRegistry._add', 'ServiceRegistry._remove'}
