"""C10 - browser refresh queries: schedule arithmetic, one live entry per instance, rate limit, the pass timer."""
import z3
from pyvc.contracts import Loop, View
from pyvc.core import Sc, NoneV, Cont, FieldLoc, PyConst
from contracts import records, loop_model, heap_model

PROP = 'C10'
B = 'zeroconf._services.browser'
SQ = '_ScheduledPTRQuery'
ASSUMPTIONS = [
    'A1 float as real; A5 ideal timers and one clock (loop.time()*1000 == current_time_millis())',
    'T3-heapq: a list only changed through heappush/heappop/clear keeps its minimum (by when_millis) in front '
    '(contracts/heap_model.py); when_millis of an entry is never written after construction (static scan + frames)',
    'async_send_ready_queries (question type choice + generate_service_query, C13 + send loop) is a ghost log event '
    'QLOG(now, first_request, types)',
    'an instance is pointed to by records of at most one browsed type (the schedule is keyed by instance name only)',
]
QEV = 'tuple[real, bool, set[str]]'


def _send_ready(ex, recv, args, kwargs, st, frame, node):
    o = ex.ctx.ghost_objects['QLOG']
    fs = ex.ctx.shapes.field('VQlog', 'events')
    ev = Cont(FieldLoc(o.term, fs.fid, fs.t.sort()), fs.t)
    et = ev.t.args[0]
    first = ex.term(args[0], st)
    now = ex.term(args[1], st, et.args[0])
    types = ex.c_term(args[2], st)
    ex.l_append(ev, Sc(et.mk(now, first, types), et), st)
    yield st, NoneV()


def build(R):
    records.install(R)
    loop_model.install(R)
    heap_model.install(R, B, SQ, 'when_millis')
    R.shape('VQlog', {'events': 'list[%s]' % QEV}, bases=[])
    R.ghost_objects['QLOG'] = 'VQlog'
    R.stubs['method:QueryScheduler.async_send_ready_queries'] = _send_ready
    R.shape(SQ, {'alias': 'str', 'name': 'str', 'ttl': 'int', 'cancelled': 'bool', 'expire_time_millis': 'real', 'when_millis': 'real'})
    R.shape('Zeroconf', {'done': 'bool'})
    R.shape('QueryScheduler', {'_zc': 'Zeroconf', '_types': 'set[str]', '_min_time_between_queries_millis': 'int',
                               '_loop': 'opt[EventLoop]', '_startup_queries_sent': 'int',
                               '_next_scheduled_for_alias': 'dict[str, %s]' % SQ, '_query_heap': 'list[%s]' % SQ,
                               '_next_run': 'opt[TimerHandle]', '_next_run_not_before_millis': 'real', '_clock_resolution_millis': 'real',
                               '_first_random_delay_interval': 'tuple[int, int]'})
    R.contract('zeroconf._dns', 'DNSRecord.get_expiration_time', 'C05', params={'percent': 'int'}, returns='real',
               ensures=['result == self.created + percent * self.ttl * 10'], trusted=True,
               note='one-line arithmetic, proved in C05 for the cache; restated here so that the product with the constant '
                    'percentage stays linear')
    R.spec('in_heap', [('s', 'QueryScheduler'), ('q', SQ)], 'bool',
           'exists("j:int", lambda j: 0 <= j and j < len(s._query_heap) and s._query_heap[j] is q)')
    # structural invariant: the map holds exactly the live (non-cancelled) heap entries, one per instance name
    R.spec('sq_ok', [('s', 'QueryScheduler')], 'bool',
           'forall("a:str", lambda a: implies(s._next_scheduled_for_alias.has(a), s._next_scheduled_for_alias[a] is not None '
           '   and cls_is(s._next_scheduled_for_alias[a], %s) and lower(s._next_scheduled_for_alias[a].alias) == a '
           '   and not s._next_scheduled_for_alias[a].cancelled and in_heap(s, s._next_scheduled_for_alias[a]))) and '
           'forall("j:int", lambda j: implies(0 <= j and j < len(s._query_heap), s._query_heap[j] is not None '
           '   and cls_is(s._query_heap[j], %s) and allocated(s._query_heap[j]) '
           '   and implies(not s._query_heap[j].cancelled, s._next_scheduled_for_alias.has(lower(s._query_heap[j].alias)) '
           '        and s._next_scheduled_for_alias[lower(s._query_heap[j].alias)] is s._query_heap[j]))) and '
           'forall("j:int, m:int", lambda j, m: implies(0 <= j and j < m and m < len(s._query_heap), s._query_heap[j] is not s._query_heap[m])) and '
           'forall("j:int", lambda j: implies(0 <= j and j < len(s._query_heap), s._query_heap[0].when_millis <= s._query_heap[j].when_millis)) and '
           's._min_time_between_queries_millis >= 0 and s._clock_resolution_millis >= 0 and s._startup_queries_sent >= 0 and '
           'implies(s._next_run is not None, s._loop is not None and allocated(s._next_run))' % (SQ, SQ))
    # the pass timer (DESIGN 3.3 WF_sched): the handle in _next_run is a pending wake-up of this scheduler - during start-up for
    # the next start-up pass, afterwards for a refresh pass that is due (a) not before the minimum spacing after the previous
    # pass and (b) no later than the earliest scheduled query or that spacing instant, whichever is later
    R.spec('armed', [('s', 'QueryScheduler')], 'bool',
           's._next_run is not None and not s._next_run.cancelled and exists("p:int", lambda p: 0 <= p and p < len(TIMERS.events) '
           '   and TIMERS.events[p][3] is s._next_run and TIMERS.events[p][1] is s '
           '   and ((s._startup_queries_sent < 4 and TIMERS.events[p][2] == mid("_process_startup_queries")) or '
           '        (s._startup_queries_sent >= 4 and TIMERS.events[p][2] == mid("_process_ready_types") '
           '         and s._next_run_not_before_millis <= TIMERS.events[p][0] '
           '         and (len(s._query_heap) == 0 or TIMERS.events[p][0] <= s._query_heap[0].when_millis '
           '              or TIMERS.events[p][0] <= s._next_run_not_before_millis))))')
    # no second chain: every other wake-up ever armed for this scheduler is cancelled or already due (it has fired)
    R.spec('solo', [('s', 'QueryScheduler')], 'bool',
           'forall("p:int", lambda p: implies(0 <= p and p < len(TIMERS.events), TIMERS.events[p][3] is not None and cls_is(TIMERS.events[p][3], TimerHandle) and allocated(TIMERS.events[p][3]))) and '
           'forall("p:int", lambda p: implies(0 <= p and p < len(TIMERS.events) and TIMERS.events[p][1] is s '
           '   and TIMERS.events[p][3] is not s._next_run, TIMERS.events[p][3].cancelled or TIMERS.events[p][0] <= CLOCK.now))')
    # the wake-up in _next_run is the one that fired (A5: a callback runs no earlier than its due time)
    R.spec('fired', [('s', 'QueryScheduler')], 'bool',
           's._next_run is not None and forall("p:int", lambda p: implies(0 <= p and p < len(TIMERS.events) '
           '   and TIMERS.events[p][3] is s._next_run, TIMERS.events[p][0] <= CLOCK.now))')
    MAPF = ('forall("a:str", lambda a: implies(a != %s, self._next_scheduled_for_alias.has(a) == old(self._next_scheduled_for_alias.has(a)) '
            '   and implies(self._next_scheduled_for_alias.has(a), self._next_scheduled_for_alias[a] is old(self._next_scheduled_for_alias[a]))))')
    OBJF = ('forall("q:%s", lambda q: implies(old(allocated(q)), q.alias == old(q.alias) and q.name == old(q.name) and q.ttl == old(q.ttl) '
            '   and q.expire_time_millis == old(q.expire_time_millis) and q.when_millis == old(q.when_millis)))' % SQ)
    CANF = 'forall("q:%s", lambda q: implies(old(allocated(q)) and q is not %%s, q.cancelled == old(q.cancelled)))' % SQ
    HEAPF = 'forall("q:%s", lambda q: in_heap(self, q) == (old(in_heap(self, q)) or q is %%s))' % SQ
    MOD_PUSH = ['self._next_scheduled_for_alias', 'self._query_heap', 'self._next_run', 'TIMERS.events', 'TimerHandle.cancelled[*]']
    T0 = 'old(len(TIMERS.events))'
    Q0 = 'old(len(QLOG.events))'
    # what scheduling a query does to the pass timer: keeps it sufficient (re-arming it for an earlier deadline, F8),
    # never starts a second chain, and does nothing at all while no wake-up is pending (inside a pass / stopped)
    TIMF = ['implies(old(armed(self)), armed(self))', 'implies(old(solo(self)), solo(self))',
            'implies(old(self._next_run) is None, self._next_run is None and len(TIMERS.events) == %s)' % T0,
            'implies(old(self._next_run) is not None, self._next_run is not None)',
            'len(TIMERS.events) >= %s' % T0,
            'forall("p:int", lambda p: implies(0 <= p and p < %s, TIMERS.events[p] == old(TIMERS.events[p])))' % T0,
            'forall("p:int", lambda p: implies(%s <= p and p < len(TIMERS.events), TIMERS.events[p][1] is self and TIMERS.events[p][3] is self._next_run))' % T0,
            'forall("h:TimerHandle", lambda h: implies(old(allocated(h)) and h is not old(self._next_run), h.cancelled == old(h.cancelled)))']
    R.contract(B, 'QueryScheduler._schedule_ptr_query', PROP, params={'scheduled_query': SQ},
               requires=['sq_ok(self)', 'scheduled_query is not None and allocated(scheduled_query) and not scheduled_query.cancelled',
                         'not in_heap(self, scheduled_query)', 'not self._next_scheduled_for_alias.has(lower(scheduled_query.alias))'],
               modifies=MOD_PUSH,
               ensures=['sq_ok(self)', 'self._next_scheduled_for_alias.has(lower(scheduled_query.alias)) '
                        'and self._next_scheduled_for_alias[lower(scheduled_query.alias)] is scheduled_query',
                        MAPF % 'lower(scheduled_query.alias)', HEAPF % 'scheduled_query', 'len(self._query_heap) == old(len(self._query_heap)) + 1'] + TIMF)
    NEW = 'self._next_scheduled_for_alias[lower(pointer.alias)]'
    R.contract(B, 'QueryScheduler._schedule_ptr_refresh', PROP,
               params={'pointer': 'DNSPointer', 'expire_time_millis': 'real', 'refresh_time_millis': 'real'},
               requires=['sq_ok(self)', 'pointer is not None and pointer.ttl >= 0', 'not self._next_scheduled_for_alias.has(lower(pointer.alias))'],
               modifies=MOD_PUSH,
               ensures=['sq_ok(self)', 'self._next_scheduled_for_alias.has(lower(pointer.alias)) and fresh_obj(%s)' % NEW,
                        '%s.when_millis == refresh_time_millis and %s.expire_time_millis == expire_time_millis '
                        'and %s.name == pointer.name and %s.alias == pointer.alias and not %s.cancelled' % (NEW, NEW, NEW, NEW, NEW),
                        '%s.ttl <= pointer.ttl and pointer.ttl < %s.ttl + 1' % (NEW, NEW),
                        MAPF % 'lower(pointer.alias)', HEAPF % NEW, OBJF, CANF % 'None'] + TIMF)
    R.contract(B, 'QueryScheduler.cancel_ptr_refresh', PROP, params={'pointer': 'DNSPointer'},
               requires=['sq_ok(self)', 'pointer is not None'],
               modifies=['self._next_scheduled_for_alias', SQ + '.cancelled[*]'],
               ensures=['sq_ok(self)', 'not self._next_scheduled_for_alias.has(lower(pointer.alias))',
                        # withdrawn: the entry that was live for this instance will never produce a query
                        'implies(old(self._next_scheduled_for_alias.has(lower(pointer.alias))), old(self._next_scheduled_for_alias[lower(pointer.alias)]).cancelled)',
                        MAPF % 'lower(pointer.alias)',
                        'forall("q:%s", lambda q: implies(not (old(self._next_scheduled_for_alias.has(lower(pointer.alias))) '
                        '   and q is old(self._next_scheduled_for_alias[lower(pointer.alias)])), q.cancelled == old(q.cancelled)))' % SQ,
                        # ... whatever the spelling of the instance name in the goodbye (F10)
                        'forall("q:%s", lambda q: implies(in_heap(self, q) and lower(q.alias) == lower(pointer.alias), q.cancelled))' % SQ,
                        'implies(old(armed(self)), armed(self))', 'implies(old(solo(self)), solo(self))'])
    R75 = '(pointer.created + 750 * pointer.ttl)'
    CUR = 'old(self._next_scheduled_for_alias[lower(pointer.alias)])'
    KEEP = ('(old(self._next_scheduled_for_alias.has(lower(pointer.alias))) and -self._min_time_between_queries_millis <= %s - old(self._next_scheduled_for_alias[lower(pointer.alias)].when_millis) '
            'and %s - old(self._next_scheduled_for_alias[lower(pointer.alias)].when_millis) <= self._min_time_between_queries_millis)' % (R75, R75))
    R.contract(B, 'QueryScheduler.reschedule_ptr_first_refresh', PROP, params={'pointer': 'DNSPointer'},
               requires=['sq_ok(self)', 'pointer is not None and pointer.ttl >= 0'],
               modifies=MOD_PUSH + [SQ + '.cancelled[*]'],
               ensures=['sq_ok(self)', 'self._next_scheduled_for_alias.has(lower(pointer.alias))', MAPF % 'lower(pointer.alias)', OBJF,
                        # within `delay` of the pending refresh: left alone
                        'implies(%s, %s is %s and len(self._query_heap) == old(len(self._query_heap)) '
                        '   and forall("q:%s", lambda q: q.cancelled == old(q.cancelled)))' % (KEEP, NEW, CUR, SQ),
                        # otherwise: a new entry at 75 %% of the TTL, expiring with the record; the superseded one is dead
                        'implies(not %s, fresh_obj(%s) and %s.when_millis == %s and %s.expire_time_millis == pointer.created + 1000 * pointer.ttl '
                        '   and %s.name == pointer.name and %s.ttl <= pointer.ttl and pointer.ttl < %s.ttl + 1 '
                        '   and implies(old(self._next_scheduled_for_alias.has(lower(pointer.alias))), %s.cancelled) '
                        '   and forall("q:%s", lambda q: implies(old(allocated(q)) and not (old(self._next_scheduled_for_alias.has(lower(pointer.alias))) and q is %s), '
                        '        q.cancelled == old(q.cancelled))))' % (KEEP, NEW, NEW, R75, NEW, NEW, NEW, NEW, CUR, SQ, CUR),
                        # refreshed under another spelling of the instance name: still one live entry for the instance (F10)
                        'forall("q:%s", lambda q: implies(in_heap(self, q) and lower(q.alias) == lower(pointer.alias) and not q.cancelled, q is %s))' % (SQ, NEW)] + TIMF)
    NQ = 'self._next_scheduled_for_alias[lower(query.alias)]'
    LATE = '(now_millis + 100 * query.ttl >= query.expire_time_millis)'
    R.contract(B, 'QueryScheduler.schedule_rescue_query', PROP,
               params={'query': SQ, 'now_millis': 'real', 'additional_percentage': 'real'},
               requires=['sq_ok(self)', 'query is not None and allocated(query)', 'additional_percentage * 10 == 1',
                         'not self._next_scheduled_for_alias.has(lower(query.alias))'],
               modifies=MOD_PUSH,
               ensures=['sq_ok(self)', OBJF, CANF % 'None', MAPF % 'lower(query.alias)',
                        'implies(%s, not self._next_scheduled_for_alias.has(lower(query.alias)) and len(self._query_heap) == old(len(self._query_heap)) '
                        '   and forall("q:%s", lambda q: in_heap(self, q) == old(in_heap(self, q))))' % (LATE, SQ),
                        'implies(not %s, self._next_scheduled_for_alias.has(lower(query.alias)) and fresh_obj(%s) '
                        '   and %s.when_millis == now_millis + 100 * query.ttl and %s.expire_time_millis == query.expire_time_millis '
                        '   and %s.name == query.name and %s.ttl == query.ttl and %s.alias == query.alias and not %s.cancelled '
                        '   and len(self._query_heap) == old(len(self._query_heap)) + 1 '
                        '   and forall("q:%s", lambda q: in_heap(self, q) == (old(in_heap(self, q)) or q is %s)))' % (LATE, NQ, NQ, NQ, NQ, NQ, NQ, NQ, SQ, NQ)] + TIMF)
    R.contract(B, 'QueryScheduler.start', PROP, params={'loop': 'EventLoop'},
               requires=['loop is not None', 'self._first_random_delay_interval[0] <= self._first_random_delay_interval[1]',
                         'sq_ok(self)', 'self._next_run is None', 'self._startup_queries_sent == 0'],
               modifies=['self._loop', 'self._next_run', 'TIMERS.events', 'TimerHandle.cancelled[*]'],
               ensures=['self._loop is loop', 'sq_ok(self)', 'armed(self)', 'implies(old(solo(self)), solo(self))', 'len(TIMERS.events) == %s + 1' % T0,
                        'CLOCK.now + self._first_random_delay_interval[0] <= TIMERS.events[%s][0] and TIMERS.events[%s][0] <= CLOCK.now + self._first_random_delay_interval[1]' % (T0, T0),
                        'TIMERS.events[%s][1] is self and TIMERS.events[%s][2] == mid("_process_startup_queries") and TIMERS.events[%s][3] is self._next_run' % (T0, T0, T0),
                        'self._next_run is not None and not self._next_run.cancelled',
                        'forall("p:int", lambda p: implies(0 <= p and p < %s, TIMERS.events[p] == old(TIMERS.events[p])))' % T0])
    R.contract(B, 'QueryScheduler.stop', PROP,
               requires=['sq_ok(self)'],
               modifies=['self._next_run', 'self._next_scheduled_for_alias', 'self._query_heap', 'TimerHandle.cancelled[*]'],
               ensures=['sq_ok(self)', 'self._next_run is None', 'len(self._query_heap) == 0',
                        'forall("a:str", lambda a: not self._next_scheduled_for_alias.has(a))',
                        'implies(old(self._next_run) is not None, old(self._next_run).cancelled)',
                        'forall("h:TimerHandle", lambda h: implies(h is not old(self._next_run), h.cancelled == old(h.cancelled)))',
                        'implies(old(solo(self)), solo(self))'])
    K = 'old(self._startup_queries_sent)'
    R.contract(B, 'QueryScheduler._process_startup_queries', PROP,
               requires=['self._loop is not None and self._zc is not None', 'sq_ok(self)', 'self._startup_queries_sent < 4'],
               modifies=['self._startup_queries_sent', 'self._next_run', 'self._next_run_not_before_millis', 'TIMERS.events',
                         'TimerHandle.cancelled[*]', 'QLOG.events'],
               ensures=[
                   'sq_ok(self)',
                   # keeps running: a wake-up is pending again, the only one of this scheduler (given that the one that fired was)
                   'implies(not self._zc.done, armed(self))',
                   'implies(not self._zc.done and old(solo(self)) and old(fired(self)), solo(self))',
                   # the instance was closed under the browser: the chain ends silently
                   'implies(self._zc.done, len(TIMERS.events) == %s and len(QLOG.events) == %s and self._startup_queries_sent == %s)' % (T0, Q0, K),
                   # otherwise: one query for all types, QU-eligible only on the very first pass ...
                   'implies(not self._zc.done, len(QLOG.events) == %s + 1 and QLOG.events[%s][0] == CLOCK.now and QLOG.events[%s][1] == (%s == 0) '
                   '   and forall("t:str", lambda t: QLOG.events[%s][2].has(t) == self._types.has(t)) and self._startup_queries_sent == %s + 1)' % (Q0, Q0, Q0, K, Q0, K),
                   # ... then 1 s, 4 s, 9 s to the next start-up pass, and `delay` after the fourth into refresh mode
                   'implies(not self._zc.done, len(TIMERS.events) == %s + 1 and TIMERS.events[%s][1] is self and TIMERS.events[%s][3] is self._next_run '
                   '   and self._next_run is not None and not self._next_run.cancelled)' % (T0, T0, T0),
                   'implies(not self._zc.done and %s + 1 < 4, TIMERS.events[%s][0] == CLOCK.now + 1000 * (%s + 1) * (%s + 1) '
                   '   and TIMERS.events[%s][2] == mid("_process_startup_queries"))' % (K, T0, K, K, T0),
                   'implies(not self._zc.done and %s + 1 >= 4, TIMERS.events[%s][0] == CLOCK.now + self._min_time_between_queries_millis '
                   '   and TIMERS.events[%s][2] == mid("_process_ready_types"))' % (K, T0, T0),
                   'forall("p:int", lambda p: implies(0 <= p and p < %s, TIMERS.events[p] == old(TIMERS.events[p])))' % T0,
                   'forall("p:int", lambda p: implies(0 <= p and p < %s, QLOG.events[p] == old(QLOG.events[p])))' % Q0])

    # ---- the refresh pass -------------------------------------------------------------------------------------------
    END = '(CLOCK.now + self._clock_resolution_millis)'
    DUE = '(old(in_heap(self, q)) and not old(q.cancelled) and q.when_millis <= %s)' % END
    QLATE = '(CLOCK.now + 100 * q.ttl >= q.expire_time_millis)'
    RQ = 'self._next_scheduled_for_alias[lower(q.alias)]'
    NB = '(CLOCK.now + self._min_time_between_queries_millis)'
    PRT_MAIN = dict(
               ensures=[
                   'sq_ok(self)', OBJF, CANF % 'None',
                   'forall("p:int", lambda p: implies(0 <= p and p < %s, TIMERS.events[p] == old(TIMERS.events[p])))' % T0,
                   'forall("p:int", lambda p: implies(0 <= p and p < %s, QLOG.events[p] == old(QLOG.events[p])))' % Q0,
                   # the instance was closed under the browser: the chain ends silently, nothing is touched
                   'implies(self._zc.done, len(TIMERS.events) == %s and len(QLOG.events) == %s and len(self._query_heap) == old(len(self._query_heap)) '
                   '   and forall("q:%s", lambda q: in_heap(self, q) == old(in_heap(self, q))))' % (T0, Q0, SQ),
                   # keeps running: exactly one new wake-up, `delay` after this pass or at the earliest scheduled query if that is later
                   'implies(not self._zc.done, armed(self) and self._next_run_not_before_millis == %s and len(TIMERS.events) == %s + 1 '
                   '   and TIMERS.events[%s][1] is self and TIMERS.events[%s][2] == mid("_process_ready_types") and TIMERS.events[%s][3] is self._next_run '
                   '   and TIMERS.events[%s][0] >= %s '
                   '   and implies(len(self._query_heap) == 0 or self._query_heap[0].when_millis <= %s, TIMERS.events[%s][0] == %s) '
                   '   and implies(len(self._query_heap) > 0 and self._query_heap[0].when_millis > %s, TIMERS.events[%s][0] == self._query_heap[0].when_millis))'
                   % (NB, T0, T0, T0, T0, T0, NB, NB, T0, NB, NB, T0),
                   # every live query that is due is asked now: one query for the set of their types (none if nothing is due) ...
                   'implies(not self._zc.done, len(QLOG.events) == %s or len(QLOG.events) == %s + 1)' % (Q0, Q0),
                   'implies(not self._zc.done, forall("q:%s", lambda q: implies(%s, len(QLOG.events) == %s + 1 and QLOG.events[%s][2].has(q.name))))' % (SQ, DUE, Q0, Q0),
                   'implies(not self._zc.done and len(QLOG.events) == %s + 1, QLOG.events[%s][0] == CLOCK.now and not QLOG.events[%s][1] '
                   '   and forall("t:str", lambda t: implies(QLOG.events[%s][2].has(t), exists("q:%s", lambda q: %s and q.name == t))))' % (Q0, Q0, Q0, Q0, SQ, DUE),
                   # ... each leaves the schedule and is rescheduled 10 % of its TTL later unless it would have expired by then
                   'implies(not self._zc.done, forall("q:%s", lambda q: implies(%s, not in_heap(self, q) '
                   '   and implies(%s, not self._next_scheduled_for_alias.has(lower(q.alias))) '
                   '   and implies(not %s, self._next_scheduled_for_alias.has(lower(q.alias)) and fresh_obj(%s) and in_heap(self, %s) and not %s.cancelled '
                   '        and %s.when_millis == CLOCK.now + 100 * q.ttl and %s.expire_time_millis == q.expire_time_millis and %s.name == q.name '
                   '        and %s.ttl == q.ttl and %s.alias == q.alias))))' % (SQ, DUE, QLATE, QLATE, RQ, RQ, RQ, RQ, RQ, RQ, RQ, RQ),
                   # queries that are not due yet stay scheduled as they were; nothing that was not scheduled appears except the rescues
                   'implies(not self._zc.done, forall("q:%s", lambda q: implies(old(in_heap(self, q)) and not old(q.cancelled) and q.when_millis > %s, '
                   '   in_heap(self, q) and self._next_scheduled_for_alias.has(lower(q.alias)) and self._next_scheduled_for_alias[lower(q.alias)] is q)))' % (SQ, END),
                   'implies(not self._zc.done, forall("q:%s", lambda q: implies(in_heap(self, q) and old(allocated(q)), old(in_heap(self, q)) and q.when_millis > %s)))' % (SQ, END),
               ],
               loops={
                   0: Loop(inv=[
                       'sq_ok(self)', 'next_scheduled is None', 'self._next_run is None',
                       'len(TIMERS.events) == %s and len(QLOG.events) == %s' % (T0, Q0),
                       'forall("q:%s", lambda q: implies(in_heap(self, q), old(in_heap(self, q))))' % SQ,
                       # what has left the heap so far was cancelled, or live and due (then it waits in schedule_rescue)
                       'forall("q:%s", lambda q: implies(old(in_heap(self, q)) and not in_heap(self, q), old(q.cancelled) or '
                       '   (q.when_millis <= end_time_millis and exists("m:int", lambda m: 0 <= m and m < len(schedule_rescue) and schedule_rescue[m] is q))))' % SQ,
                       'forall("m:int", lambda m: implies(0 <= m and m < len(schedule_rescue), schedule_rescue[m] is not None and old(allocated(schedule_rescue[m])) '
                       '   and old(in_heap(self, schedule_rescue[m])) and not in_heap(self, schedule_rescue[m]) and not old(schedule_rescue[m].cancelled) '
                       '   and schedule_rescue[m].when_millis <= end_time_millis and ready_types.has(schedule_rescue[m].name) '
                       '   and not self._next_scheduled_for_alias.has(lower(schedule_rescue[m].alias))))',
                       'forall("m:int, j:int", lambda m, j: implies(0 <= m and m < j and j < len(schedule_rescue), '
                       '   lower(schedule_rescue[m].alias) != lower(schedule_rescue[j].alias)))',
                       'forall("t:str", lambda t: implies(ready_types.has(t), exists("m:int", lambda m: 0 <= m and m < len(schedule_rescue) and schedule_rescue[m].name == t)))',
                       # the still scheduled live queries keep their map entries
                       'forall("a:str", lambda a: implies(self._next_scheduled_for_alias.has(a), old(self._next_scheduled_for_alias.has(a)) '
                       '   and self._next_scheduled_for_alias[a] is old(self._next_scheduled_for_alias[a])))',
                       OBJF, CANF % 'None'],
                       modifies=['self._next_scheduled_for_alias', 'self._query_heap'],
                       decreases='len(self._query_heap)'),
                   1: Loop(inv=[
                       'sq_ok(self)', 'self._next_run is None', 'len(TIMERS.events) == %s and len(QLOG.events) == %s' % (T0, Q0),
                       'forall("p:int", lambda p: implies(0 <= p and p < %s, TIMERS.events[p] == old(TIMERS.events[p])))' % T0,
                       'forall("h:TimerHandle", lambda h: implies(old(allocated(h)), h.cancelled == old(h.cancelled)))',
                       'forall("m:int", lambda m: implies(_k1 <= m and m < len(_it1), not self._next_scheduled_for_alias.has(lower(_it1[m].alias))))',
                       'list_eq(_it1, schedule_rescue)',
                       # rescues pushed so far
                       'forall("m:int", lambda m: implies(0 <= m and m < _k1, '
                       '   implies(CLOCK.now + 100 * _it1[m].ttl >= _it1[m].expire_time_millis, not self._next_scheduled_for_alias.has(lower(_it1[m].alias))) '
                       '   and implies(not (CLOCK.now + 100 * _it1[m].ttl >= _it1[m].expire_time_millis), self._next_scheduled_for_alias.has(lower(_it1[m].alias)) '
                       '        and fresh_obj(self._next_scheduled_for_alias[lower(_it1[m].alias)]) and in_heap(self, self._next_scheduled_for_alias[lower(_it1[m].alias)]) '
                       '        and not self._next_scheduled_for_alias[lower(_it1[m].alias)].cancelled '
                       '        and self._next_scheduled_for_alias[lower(_it1[m].alias)].when_millis == CLOCK.now + 100 * _it1[m].ttl '
                       '        and self._next_scheduled_for_alias[lower(_it1[m].alias)].expire_time_millis == _it1[m].expire_time_millis '
                       '        and self._next_scheduled_for_alias[lower(_it1[m].alias)].name == _it1[m].name '
                       '        and self._next_scheduled_for_alias[lower(_it1[m].alias)].ttl == _it1[m].ttl '
                       '        and self._next_scheduled_for_alias[lower(_it1[m].alias)].alias == _it1[m].alias)))',
                       # the heap: the old entries that stayed (all later than this pass), plus fresh rescue entries
                       'forall("q:%s", lambda q: implies(in_heap(self, q) and old(allocated(q)), old(in_heap(self, q)) and q.when_millis > end_time_millis))' % SQ,
                       'forall("q:%s", lambda q: implies(old(in_heap(self, q)) and not in_heap(self, q), old(q.cancelled) or '
                       '   (q.when_millis <= end_time_millis and exists("m:int", lambda m: 0 <= m and m < len(schedule_rescue) and schedule_rescue[m] is q))))' % SQ,
                       'forall("m:int", lambda m: implies(0 <= m and m < len(_it1), _it1[m] is not None and old(allocated(_it1[m])) and not in_heap(self, _it1[m])))',
                       'forall("m:int, j:int", lambda m, j: implies(0 <= m and m < j and j < len(_it1), lower(_it1[m].alias) != lower(_it1[j].alias)))',
                       OBJF, CANF % 'None'],
                       modifies=['self._next_scheduled_for_alias', 'self._query_heap', 'self._next_run', 'TIMERS.events', 'TimerHandle.cancelled[*]']),
               }
)

    TFR = ['self._next_run is None', 'len(TIMERS.events) == %s' % T0,
           'forall("p:int", lambda p: implies(0 <= p and p < %s, TIMERS.events[p] == old(TIMERS.events[p])))' % T0,
           'forall("h:TimerHandle", lambda h: implies(old(allocated(h)), h.cancelled == old(h.cancelled)))']
    PRT_VIEWS = [
        View('main', loops=PRT_MAIN['loops'], ensures=PRT_MAIN['ensures']),
        # the single-chain invariant only needs the timer log and the handle flags: proved in a view of its own
        View('timers', loops={0: Loop(inv=list(TFR), modifies=['self._next_scheduled_for_alias', 'self._query_heap']),
                              1: Loop(inv=list(TFR), modifies=['self._next_scheduled_for_alias', 'self._query_heap', 'self._next_run',
                                                               'TIMERS.events', 'TimerHandle.cancelled[*]'])},
             ensures=['implies(not self._zc.done and old(solo(self)) and old(fired(self)), solo(self))'], only_loops=True)]
    R.contract(B, 'QueryScheduler._process_ready_types', PROP,
               requires=['self._loop is not None and self._zc is not None', 'sq_ok(self)', 'self._startup_queries_sent >= 4'],
               modifies=['self._next_run', 'self._next_run_not_before_millis', 'self._next_scheduled_for_alias', 'self._query_heap',
                         'TIMERS.events', 'TimerHandle.cancelled[*]', 'QLOG.events'],
               views=PRT_VIEWS)


def install_generators(R):
    """Concrete inputs for the bounded cross-check / replay search: a REAL QueryScheduler on the recording loop of
    contracts/loop_model (timers, clock) with the query log attached to async_send_ready_queries."""
    import heapq
    ALIASES = ['a._x._tcp.local.', 'A._x._tcp.local.', 'b._x._tcp.local.', 'B._x._tcp.local.', 'c._x._tcp.local.', 'd._y._tcp.local.']

    def mk(g, mode=None, heap_max=4):
        from zeroconf._services.browser import QueryScheduler, _ScheduledPTRQuery
        r = g.rng
        now = r.choice([100000.0, 1000000.0])
        clock, timers, sent, loop = loop_model.concrete_world(now)
        qlog = loop_model.CObj()
        qlog.events = []

        class QS(QueryScheduler):
            __slots__ = ()

            def async_send_ready_queries(self, first_request, now_millis, ready_types):
                qlog.events.append((now_millis, first_request, set(ready_types)))
        zc = loop_model.CObj()
        zc.done = r.random() < 0.12
        delay = r.choice([1000, 10000, 60000])
        s = QS(zc, {'_x._tcp.local.', '_y._tcp.local.'}, None, 5353, True, delay, (20, 120), None)
        s._clock_resolution_millis = r.choice([0.0, 1.0])
        used = set()
        for _ in range(r.randint(0, heap_max)):
            al = r.choice(ALIASES)
            ttl = r.choice([1125, 1200, 4500])
            when = now + r.choice([-5000.0, -1.0, 0.0, 1.0, 2.0, 500.0, 5000.0, 900000.0])
            e = _ScheduledPTRQuery(al, al.split('.', 1)[1], ttl, when + r.choice([50000.0, 250.0 * ttl]), when)
            if al.lower() in used or r.random() < 0.25:
                e.cancelled = True
            else:
                used.add(al.lower())
                s._next_scheduled_for_alias[al.lower()] = e
            heapq.heappush(s._query_heap, e)
        mode = mode or r.choice(['idle', 'startup', 'refresh', 'refresh', 'refresh'])
        if mode != 'idle':
            s._loop = loop
        # some spent / cancelled wake-ups of this scheduler from the past
        for _ in range(r.randint(0, 2)):
            h = loop.call_at((now - r.choice([1.0, 5000.0])) / 1000.0, s._process_ready_types)
            if r.random() < 0.5:
                h.cancel()
        if mode == 'startup':
            s._startup_queries_sent = r.choice([0, 1, 2, 3])
            s._next_run = loop.call_at((now + r.choice([-1.0, 0.0, 50.0, 1000.0])) / 1000.0, s._process_startup_queries)
        elif mode == 'refresh':
            s._startup_queries_sent = 4
            nb = now + r.choice([-20000.0, -1.0, 0.0, 5000.0, float(delay)])
            s._next_run_not_before_millis = nb
            head = s._query_heap[0].when_millis if s._query_heap else None
            due = max(head, nb) if (head is not None and r.random() < 0.8) else nb
            if r.random() < 0.15:
                due = max(due, now) + 7777.0        # an insufficient wake-up: `armed` is false, the implications are vacuous
            s._next_run = loop.call_at(due / 1000.0, s._process_ready_types)
        env = {'CLOCK': clock, 'TIMERS': timers, 'SENT': sent, 'QLOG': qlog}
        return s, env, now

    R.mk_sched = mk

    def ptr(g, now, alias=None):
        from zeroconf._dns import DNSPointer
        from zeroconf import const
        r = g.rng
        al = alias or r.choice(ALIASES)
        return DNSPointer(al.split('.', 1)[1], const._TYPE_PTR, const._CLASS_IN, r.choice([1125, 1200, 4500]), al,
                          created=now - r.choice([0.0, 1000.0, 800000.0, 900000.0]))

    def g_sq(g):
        from zeroconf._services.browser import _ScheduledPTRQuery
        s, env, now = mk(g)
        al = g.rng.choice(ALIASES)
        when = now + g.rng.choice([-1.0, 0.0, 1.0, 400.0, 4000.0, 850000.0])
        q = _ScheduledPTRQuery(al, al.split('.', 1)[1], 1200, when + 300000.0, when)
        return {'self': s, 'scheduled_query': q, '__env__': env, '__clock__': now}
    R.generators[(B, 'QueryScheduler._schedule_ptr_query')] = g_sq

    def g_refresh(g):
        s, env, now = mk(g)
        p = ptr(g, now)
        return {'self': s, 'pointer': p, 'expire_time_millis': p.created + 1000.0 * p.ttl,
                'refresh_time_millis': p.created + 750.0 * p.ttl, '__env__': env, '__clock__': now}
    R.generators[(B, 'QueryScheduler._schedule_ptr_refresh')] = g_refresh

    def g_ptr(g):
        s, env, now = mk(g)
        return {'self': s, 'pointer': ptr(g, now), '__env__': env, '__clock__': now}
    R.generators[(B, 'QueryScheduler.cancel_ptr_refresh')] = g_ptr
    R.generators[(B, 'QueryScheduler.reschedule_ptr_first_refresh')] = g_ptr

    def g_rescue(g):
        from zeroconf._services.browser import _ScheduledPTRQuery
        s, env, now = mk(g)
        al = g.rng.choice(ALIASES)
        ttl = g.rng.choice([1125, 4500])
        q = _ScheduledPTRQuery(al, al.split('.', 1)[1], ttl, now + g.rng.choice([100.0 * ttl - 1, 100.0 * ttl, 100.0 * ttl + 1, 250.0 * ttl]), now - 1.0)
        return {'self': s, 'query': q, 'now_millis': now, 'additional_percentage': 0.1, '__env__': env, '__clock__': now}
    R.generators[(B, 'QueryScheduler.schedule_rescue_query')] = g_rescue

    def g_start(g):
        s, env, now = mk(g, mode='idle')
        return {'self': s, 'loop': loop_model.CLoop(env['CLOCK'], env['TIMERS']), '__env__': env, '__clock__': now}
    R.generators[(B, 'QueryScheduler.start')] = g_start

    def g_self(mode):
        def gen(g):
            s, env, now = mk(g, mode=mode)
            if s._next_run is not None and g.rng.random() < 0.8:
                # the wake-up fires: the clock has reached its due time
                due = [e for e in env['TIMERS'].events if e[3] is s._next_run][0][0]
                now = max(now, due) + g.rng.choice([0.0, 3.0])
                env['CLOCK'].now = now
            return {'self': s, '__env__': env, '__clock__': now}
        return gen
    R.generators[(B, 'QueryScheduler.stop')] = g_self(None)
    R.generators[(B, 'QueryScheduler._process_startup_queries')] = g_self('startup')
    R.generators[(B, 'QueryScheduler._process_ready_types')] = g_self('refresh')


def configure(ctx, R):
    records.configure(ctx)
    install_generators(R)


NO_CONCRETE = set()
