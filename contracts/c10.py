"""C10 - browser refresh queries: schedule arithmetic, one live entry per instance, rate limit, the pass timer."""
import z3
from pyvc.contracts import Loop
from pyvc.core import Sc, NoneV, Cont, FieldLoc, PyConst
from contracts import records, loop_model, heap_model

PROP = 'C10'
B = 'zeroconf._services.browser'
SQ = '_ScheduledPTRQuery'
ASSUMPTIONS = [
    'A1 float as real; A5 ideal timers and one clock (loop.time()*1000 == current_time_millis())',
    'T3-heapq: a list only changed through heappush/heappop/clear keeps its minimum (by when_millis) in front '
    '(contracts/heap_model.py); when_millis of an entry is never written after construction (static scan + frames)',
    'async_send_ready_queries (question type choice + generate_service_query, C13 + send loop) is a ghost log event '
    'QLOG(now, first_request, types)',
    'an instance is pointed to by records of at most one browsed type (the schedule is keyed by instance name only)',
]
QEV = 'tuple[real, bool, set[str]]'


def _send_ready(ex, recv, args, kwargs, st, frame, node):
    o = ex.ctx.ghost_objects['QLOG']
    fs = ex.ctx.shapes.field('VQlog', 'events')
    ev = Cont(FieldLoc(o.term, fs.fid, fs.t.sort()), fs.t)
    et = ev.t.args[0]
    first = ex.term(args[0], st)
    now = ex.term(args[1], st, et.args[0])
    types = ex.c_term(args[2], st)
    ex.l_append(ev, Sc(et.mk(now, first, types), et), st)
    yield st, NoneV()


def build(R):
    records.install(R)
    loop_model.install(R)
    heap_model.install(R, B, SQ, 'when_millis')
    R.shape('VQlog', {'events': 'list[%s]' % QEV}, bases=[])
    R.ghost_objects['QLOG'] = 'VQlog'
    R.stubs['method:QueryScheduler.async_send_ready_queries'] = _send_ready
    R.shape(SQ, {'alias': 'str', 'name': 'str', 'ttl': 'int', 'cancelled': 'bool', 'expire_time_millis': 'real', 'when_millis': 'real'})
    R.shape('Zeroconf', {'done': 'bool'})
    R.shape('QueryScheduler', {'_zc': 'Zeroconf', '_types': 'set[str]', '_min_time_between_queries_millis': 'int',
                               '_loop': 'opt[EventLoop]', '_startup_queries_sent': 'int',
                               '_next_scheduled_for_alias': 'dict[str, %s]' % SQ, '_query_heap': 'list[%s]' % SQ,
                               '_next_run': 'opt[TimerHandle]', '_clock_resolution_millis': 'real',
                               '_first_random_delay_interval': 'tuple[int, int]'})
    R.contract('zeroconf._dns', 'DNSRecord.get_expiration_time', 'C05', params={'percent': 'int'}, returns='real',
               ensures=['result == self.created + percent * self.ttl * 10'], trusted=True,
               note='one-line arithmetic, proved in C05 for the cache; restated here so that the product with the constant '
                    'percentage stays linear')
    R.spec('in_heap', [('s', 'QueryScheduler'), ('q', SQ)], 'bool',
           'exists("j:int", lambda j: 0 <= j and j < len(s._query_heap) and s._query_heap[j] is q)')
    # structural invariant: the map holds exactly the live (non-cancelled) heap entries, one per instance name
    R.spec('sq_ok', [('s', 'QueryScheduler')], 'bool',
           'forall("a:str", lambda a: implies(s._next_scheduled_for_alias.has(a), s._next_scheduled_for_alias[a] is not None '
           '   and cls_is(s._next_scheduled_for_alias[a], %s) and lower(s._next_scheduled_for_alias[a].alias) == a '
           '   and not s._next_scheduled_for_alias[a].cancelled and in_heap(s, s._next_scheduled_for_alias[a]))) and '
           'forall("j:int", lambda j: implies(0 <= j and j < len(s._query_heap), s._query_heap[j] is not None '
           '   and cls_is(s._query_heap[j], %s) and allocated(s._query_heap[j]) '
           '   and implies(not s._query_heap[j].cancelled, s._next_scheduled_for_alias.has(lower(s._query_heap[j].alias)) '
           '        and s._next_scheduled_for_alias[lower(s._query_heap[j].alias)] is s._query_heap[j]))) and '
           'forall("j:int, m:int", lambda j, m: implies(0 <= j and j < m and m < len(s._query_heap), s._query_heap[j] is not s._query_heap[m])) and '
           'forall("j:int", lambda j: implies(0 <= j and j < len(s._query_heap), s._query_heap[0].when_millis <= s._query_heap[j].when_millis)) and '
           's._min_time_between_queries_millis >= 0 and s._clock_resolution_millis >= 0' % (SQ, SQ))
    MAPF = ('forall("a:str", lambda a: implies(a != %s, self._next_scheduled_for_alias.has(a) == old(self._next_scheduled_for_alias.has(a)) '
            '   and implies(self._next_scheduled_for_alias.has(a), self._next_scheduled_for_alias[a] is old(self._next_scheduled_for_alias[a]))))')
    OBJF = ('forall("q:%s", lambda q: implies(old(allocated(q)), q.alias == old(q.alias) and q.name == old(q.name) and q.ttl == old(q.ttl) '
            '   and q.expire_time_millis == old(q.expire_time_millis) and q.when_millis == old(q.when_millis)))' % SQ)
    CANF = 'forall("q:%s", lambda q: implies(old(allocated(q)) and q is not %%s, q.cancelled == old(q.cancelled)))' % SQ
    HEAPF = 'forall("q:%s", lambda q: in_heap(self, q) == (old(in_heap(self, q)) or q is %%s))' % SQ
    MOD_PUSH = ['self._next_scheduled_for_alias', 'self._query_heap']
    R.contract(B, 'QueryScheduler._schedule_ptr_query', PROP, params={'scheduled_query': SQ},
               requires=['sq_ok(self)', 'scheduled_query is not None and allocated(scheduled_query) and not scheduled_query.cancelled',
                         'not in_heap(self, scheduled_query)', 'not self._next_scheduled_for_alias.has(lower(scheduled_query.alias))'],
               modifies=MOD_PUSH,
               ensures=['sq_ok(self)', 'self._next_scheduled_for_alias.has(lower(scheduled_query.alias)) '
                        'and self._next_scheduled_for_alias[lower(scheduled_query.alias)] is scheduled_query',
                        MAPF % 'lower(scheduled_query.alias)', HEAPF % 'scheduled_query', 'len(self._query_heap) == old(len(self._query_heap)) + 1'])
    NEW = 'self._next_scheduled_for_alias[lower(pointer.alias)]'
    R.contract(B, 'QueryScheduler._schedule_ptr_refresh', PROP,
               params={'pointer': 'DNSPointer', 'expire_time_millis': 'real', 'refresh_time_millis': 'real'},
               requires=['sq_ok(self)', 'pointer is not None and pointer.ttl >= 0', 'not self._next_scheduled_for_alias.has(lower(pointer.alias))'],
               modifies=MOD_PUSH,
               ensures=['sq_ok(self)', 'self._next_scheduled_for_alias.has(lower(pointer.alias)) and fresh_obj(%s)' % NEW,
                        '%s.when_millis == refresh_time_millis and %s.expire_time_millis == expire_time_millis '
                        'and %s.name == pointer.name and %s.alias == pointer.alias and not %s.cancelled' % (NEW, NEW, NEW, NEW, NEW),
                        '%s.ttl <= pointer.ttl and pointer.ttl < %s.ttl + 1' % (NEW, NEW),
                        MAPF % 'lower(pointer.alias)', HEAPF % NEW, OBJF, CANF % 'None'])
    R.contract(B, 'QueryScheduler.cancel_ptr_refresh', PROP, params={'pointer': 'DNSPointer'},
               requires=['sq_ok(self)', 'pointer is not None'],
               modifies=['self._next_scheduled_for_alias', SQ + '.cancelled[*]'],
               ensures=['sq_ok(self)', 'not self._next_scheduled_for_alias.has(lower(pointer.alias))',
                        # withdrawn: the entry that was live for this instance will never produce a query
                        'implies(old(self._next_scheduled_for_alias.has(lower(pointer.alias))), old(self._next_scheduled_for_alias[lower(pointer.alias)]).cancelled)',
                        MAPF % 'lower(pointer.alias)',
                        'forall("q:%s", lambda q: implies(not (old(self._next_scheduled_for_alias.has(lower(pointer.alias))) '
                        '   and q is old(self._next_scheduled_for_alias[lower(pointer.alias)])), q.cancelled == old(q.cancelled)))' % SQ,
                        # ... whatever the spelling of the instance name in the goodbye (F10)
                        'forall("q:%s", lambda q: implies(in_heap(self, q) and lower(q.alias) == lower(pointer.alias), q.cancelled))' % SQ])
    R75 = '(pointer.created + 750 * pointer.ttl)'
    CUR = 'old(self._next_scheduled_for_alias[lower(pointer.alias)])'
    KEEP = ('(old(self._next_scheduled_for_alias.has(lower(pointer.alias))) and -self._min_time_between_queries_millis <= %s - old(self._next_scheduled_for_alias[lower(pointer.alias)].when_millis) '
            'and %s - old(self._next_scheduled_for_alias[lower(pointer.alias)].when_millis) <= self._min_time_between_queries_millis)' % (R75, R75))
    R.contract(B, 'QueryScheduler.reschedule_ptr_first_refresh', PROP, params={'pointer': 'DNSPointer'},
               requires=['sq_ok(self)', 'pointer is not None and pointer.ttl >= 0'],
               modifies=MOD_PUSH + [SQ + '.cancelled[*]'],
               ensures=['sq_ok(self)', 'self._next_scheduled_for_alias.has(lower(pointer.alias))', MAPF % 'lower(pointer.alias)', OBJF,
                        # within `delay` of the pending refresh: left alone
                        'implies(%s, %s is %s and len(self._query_heap) == old(len(self._query_heap)) '
                        '   and forall("q:%s", lambda q: q.cancelled == old(q.cancelled)))' % (KEEP, NEW, CUR, SQ),
                        # otherwise: a new entry at 75 %% of the TTL, expiring with the record; the superseded one is dead
                        'implies(not %s, fresh_obj(%s) and %s.when_millis == %s and %s.expire_time_millis == pointer.created + 1000 * pointer.ttl '
                        '   and %s.name == pointer.name and %s.ttl <= pointer.ttl and pointer.ttl < %s.ttl + 1 '
                        '   and implies(old(self._next_scheduled_for_alias.has(lower(pointer.alias))), %s.cancelled) '
                        '   and forall("q:%s", lambda q: implies(old(allocated(q)) and not (old(self._next_scheduled_for_alias.has(lower(pointer.alias))) and q is %s), '
                        '        q.cancelled == old(q.cancelled))))' % (KEEP, NEW, NEW, R75, NEW, NEW, NEW, NEW, CUR, SQ, CUR),
                        # refreshed under another spelling of the instance name: still one live entry for the instance (F10)
                        'forall("q:%s", lambda q: implies(in_heap(self, q) and lower(q.alias) == lower(pointer.alias) and not q.cancelled, q is %s))' % (SQ, NEW)])
    NQ = 'self._next_scheduled_for_alias[lower(query.alias)]'
    LATE = '(now_millis + 100 * query.ttl >= query.expire_time_millis)'
    R.contract(B, 'QueryScheduler.schedule_rescue_query', PROP,
               params={'query': SQ, 'now_millis': 'real', 'additional_percentage': 'real'},
               requires=['sq_ok(self)', 'query is not None and allocated(query)', 'additional_percentage * 10 == 1',
                         'not self._next_scheduled_for_alias.has(lower(query.alias))'],
               modifies=MOD_PUSH,
               ensures=['sq_ok(self)', OBJF, CANF % 'None', MAPF % 'lower(query.alias)',
                        'implies(%s, not self._next_scheduled_for_alias.has(lower(query.alias)) and len(self._query_heap) == old(len(self._query_heap)) '
                        '   and forall("q:%s", lambda q: in_heap(self, q) == old(in_heap(self, q))))' % (LATE, SQ),
                        'implies(not %s, self._next_scheduled_for_alias.has(lower(query.alias)) and fresh_obj(%s) '
                        '   and %s.when_millis == now_millis + 100 * query.ttl and %s.expire_time_millis == query.expire_time_millis '
                        '   and %s.name == query.name and %s.ttl == query.ttl and %s.alias == query.alias and not %s.cancelled '
                        '   and len(self._query_heap) == old(len(self._query_heap)) + 1 '
                        '   and forall("q:%s", lambda q: in_heap(self, q) == (old(in_heap(self, q)) or q is %s)))' % (LATE, NQ, NQ, NQ, NQ, NQ, NQ, NQ, SQ, NQ)])
    T0 = 'old(len(TIMERS.events))'
    Q0 = 'old(len(QLOG.events))'
    R.contract(B, 'QueryScheduler.start', PROP, params={'loop': 'EventLoop'},
               requires=['loop is not None', 'self._first_random_delay_interval[0] <= self._first_random_delay_interval[1]'],
               modifies=['self._loop', 'self._next_run', 'TIMERS.events', 'TimerHandle.cancelled[*]'],
               ensures=['self._loop is loop', 'len(TIMERS.events) == %s + 1' % T0,
                        'CLOCK.now + self._first_random_delay_interval[0] <= TIMERS.events[%s][0] and TIMERS.events[%s][0] <= CLOCK.now + self._first_random_delay_interval[1]' % (T0, T0),
                        'TIMERS.events[%s][1] is self and TIMERS.events[%s][2] == mid("_process_startup_queries") and TIMERS.events[%s][3] is self._next_run' % (T0, T0, T0),
                        'self._next_run is not None and not self._next_run.cancelled',
                        'forall("p:int", lambda p: implies(0 <= p and p < %s, TIMERS.events[p] == old(TIMERS.events[p])))' % T0])
    R.contract(B, 'QueryScheduler.stop', PROP,
               requires=['sq_ok(self)'],
               modifies=['self._next_run', 'self._next_scheduled_for_alias', 'self._query_heap', 'TimerHandle.cancelled[*]'],
               ensures=['sq_ok(self)', 'self._next_run is None', 'len(self._query_heap) == 0',
                        'forall("a:str", lambda a: not self._next_scheduled_for_alias.has(a))',
                        'implies(old(self._next_run) is not None, old(self._next_run).cancelled)',
                        'forall("h:TimerHandle", lambda h: implies(h is not old(self._next_run), h.cancelled == old(h.cancelled)))'])
    K = 'old(self._startup_queries_sent)'
    R.contract(B, 'QueryScheduler._process_startup_queries', PROP,
               requires=['self._loop is not None and self._zc is not None', 'self._startup_queries_sent >= 0',
                         'self._min_time_between_queries_millis >= 0'],
               modifies=['self._startup_queries_sent', 'self._next_run', 'TIMERS.events', 'TimerHandle.cancelled[*]', 'QLOG.events'],
               ensures=[
                   # the instance was closed under the browser: the chain ends silently
                   'implies(self._zc.done, len(TIMERS.events) == %s and len(QLOG.events) == %s and self._startup_queries_sent == %s)' % (T0, Q0, K),
                   # otherwise: one query for all types, QU-eligible only on the very first pass ...
                   'implies(not self._zc.done, len(QLOG.events) == %s + 1 and QLOG.events[%s][0] == CLOCK.now and QLOG.events[%s][1] == (%s == 0) '
                   '   and forall("t:str", lambda t: QLOG.events[%s][2].has(t) == self._types.has(t)) and self._startup_queries_sent == %s + 1)' % (Q0, Q0, Q0, K, Q0, K),
                   # ... then 1 s, 4 s, 9 s to the next start-up pass, and `delay` after the fourth into refresh mode
                   'implies(not self._zc.done, len(TIMERS.events) == %s + 1 and TIMERS.events[%s][1] is self and TIMERS.events[%s][3] is self._next_run '
                   '   and self._next_run is not None and not self._next_run.cancelled)' % (T0, T0, T0),
                   'implies(not self._zc.done and %s + 1 < 4, TIMERS.events[%s][0] == CLOCK.now + 1000 * (%s + 1) * (%s + 1) '
                   '   and TIMERS.events[%s][2] == mid("_process_startup_queries"))' % (K, T0, K, K, T0),
                   'implies(not self._zc.done and %s + 1 >= 4, TIMERS.events[%s][0] == CLOCK.now + self._min_time_between_queries_millis '
                   '   and TIMERS.events[%s][2] == mid("_process_ready_types"))' % (K, T0, T0),
                   'forall("p:int", lambda p: implies(0 <= p and p < %s, TIMERS.events[p] == old(TIMERS.events[p])))' % T0,
                   'forall("p:int", lambda p: implies(0 <= p and p < %s, QLOG.events[p] == old(QLOG.events[p])))' % Q0])


def configure(ctx, R):
    records.configure(ctx)


NO_CONCRETE = {'QueryScheduler._schedule_ptr_query', 'QueryScheduler._schedule_ptr_refresh', 'QueryScheduler.cancel_ptr_refresh',
               'QueryScheduler.reschedule_ptr_first_refresh', 'QueryScheduler.schedule_rescue_query', 'QueryScheduler.start',
               'QueryScheduler.stop', 'QueryScheduler._process_startup_queries'}
