"""`await` and the event loop between awaits (DESIGN.md 3.4, assumption A5).

Code between two awaits is atomic.  At an await point every heap location may have been changed by other tasks and
callbacks, so the model HAVOCS THE WHOLE HEAP (locals of the coroutine survive: they are not heap locations) and then
assumes only
  * the clock: an `asyncio.sleep(d)` returns exactly d seconds later (ideal timer; d = 0: same instant); any other await
    returns at some later-or-equal instant;
  * the built-in RELY conditions below - monotone facts of the asyncio/zeroconf environment that no interleaved step can
    undo (each is listed verbatim in the evidence as an assumption; where they are about repository fields a static scan
    in the property module checks who assigns the field);
  * the `rely` clauses of the contract of the coroutine under verification (two-state predicates over old()/current).
Coroutines with contracts are applied at the call (their contract already includes their own await points); awaiting the
returned value is the identity."""
import z3
from pyvc.core import Sc, RefV, NoneV, PyConst, FuncV, Cont, TupleV, FieldLoc, VCError, fresh
from pyvc.types import REAL, Ref, NONE

RELY_BUILTIN = [
    # logs only grow
    'len(TIMERS.events) >= old(len(TIMERS.events))',
    'forall("p:int", lambda p: implies(0 <= p and p < old(len(TIMERS.events)), TIMERS.events[p] == old(TIMERS.events[p])))',
    'len(SENT.events) >= old(len(SENT.events))',
    'forall("p:int", lambda p: implies(0 <= p and p < old(len(SENT.events)), SENT.events[p] == old(SENT.events[p])))',
    # a cancelled timer handle stays cancelled (asyncio)
    'forall("h:TimerHandle", lambda h: implies(old(allocated(h)) and old(h.cancelled), h.cancelled))',
]


def await_point(ex, st, frame, node, dur_ms=None, note=''):
    pre = st.fork()
    pre.spec = True
    clock = ex.ctx.ghost_objects['CLOCK']
    fs = ex.ctx.shapes.field('VClock', 'now')
    now0 = z3.Select(st.heap_arr(fs.fid, fs.t.sort()), clock.term)
    a0 = st.alloc_arr()
    ex.havoc_loc('*', pre, st, frame)
    # the clock
    arr = st.heap_arr(fs.fid, fs.t.sort())
    if dur_ms is not None:
        st.heap[fs.fid] = z3.Store(arr, clock.term, now0 + dur_ms)
    else:
        st.assume(z3.Select(arr, clock.term) >= now0)
    # other tasks may allocate: the allocation set only grows
    a1 = fresh('alloc', a0.sort())
    x = z3.Const('x!aw', Ref)
    st.assume(z3.ForAll([x], z3.Implies(z3.Select(a0, x), z3.Select(a1, x)), patterns=[z3.Select(a0, x)]))
    st.heap['$alloc'] = a1
    s = st.fork()
    s.spec = True
    s.old = pre
    rely = list(RELY_BUILTIN)
    c = getattr(frame, 'contract', None)
    root = getattr(frame, 'root_contract', None) or c
    rely += list(getattr(root, 'rely', []) or [])
    for r in rely:
        st.assume(ex.spec_bool(r, s, frame))
    ex.ctx.assumed.add('A5-await: at an await the whole heap is havocked; assumed afterwards: ideal clock, logs only grow, '
                       'cancelled handles stay cancelled, and the rely clauses of the coroutine\'s contract')


def _sleep(ex, args, kwargs, st, frame, node):
    d = ex.term(args[0], st, REAL)
    await_point(ex, st, frame, node, d * 1000)
    yield st, NoneV()


def _await_identity(ex, v, st, frame, node):
    yield st, v


def install(R):
    from contracts.common import stub
    R.stubs['asyncio.sleep'] = stub(_sleep)


def configure(ctx):
    ctx.await_hook = _await_identity
