"""C19 - service-name validation and TXT round trip.

NOT a deductive proof.  The engine has no string model (str is an uninterpreted sort with lower/len/encode-length only),
and service_type_name / _set_properties / _unpack_text_into_properties are str/bytes-manipulation from end to end
(split, join, slicing, regular expressions, partition, Union[str, bytes] values).  DESIGN.md section 4 C19 planned a
slice-view encoding for them; it was not built.  What stands in, labelled BOUNDED and never counted as proved:

  * the contract of service_type_name - "returns Valid(s, strict) or raises BadTypeInNameException and nothing else",
    with Valid written position-wise from the property statement, not from the code or its regular expressions -
    evaluated by CPython around the REAL function for every string over a small adversarial alphabet up to a bound,
    before every trailer, in both modes, plus boundary lengths (15/16 characters, 63/64 bytes, 256/257 characters);
  * the contract of the TXT pair - "what ServiceInfo(properties=d).text decodes to, in the library and in an independent
    RFC 6763 section 6 parser, is d as bytes (the library reads an empty value back as None)" - for every dictionary of up
    to 3 entries over a vocabulary of str/bytes keys and str/bytes/None/empty/'='-containing values, plus 255-byte items.

The only mechanically discharged obligations here are static scans of the pattern texts in const.py."""
import ast
import itertools

PROP = 'C19'
LEVEL = 'other'
BOUNDED_IN_QUICK = True
ALLOW_NO_SMT = True
ASSUMPTIONS = ['bounded stand-in only: no obligation of this property is discharged by the deductive engine (no string model)',
               'Valid(s, strict) is an executable transcription of the rules in the property statement',
               'TXT precondition (RFC 6763 6.4 and the quantifier): encoded keys are distinct and contain no "="; items <= 255 bytes']


def build(R):
    pass


def configure(ctx, R):
    pass


# ---- the specification -------------------------------------------------------------------------------------------
LETTERS = set('abcdefghijklmnopqrstuvwxyzABCDEFGHIJKLMNOPQRSTUVWXYZ')
DIGITS = set('0123456789')


def service_label_ok(label, strict):
    if not label.startswith('_'):
        return False
    body = label[1:]
    if len(body) < 1 or (strict and len(body) > 15):
        return False
    allowed = LETTERS | DIGITS | {'-'} | (set() if strict else {'_'})
    if any(ch not in allowed for ch in body):
        return False
    if body[0] == '-' or body[-1] == '-' or '--' in body:
        return False
    return any(ch in LETTERS for ch in body)


def valid(s, strict):
    """the service type the validator must return, or None if the name must be rejected"""
    if len(s) > 256:
        return None
    for tr in ('._tcp.local.', '._udp.local.'):
        if s.endswith(tr):
            body, trailer, has_protocol = s[:-len(tr)], tr, True
            break
    else:
        if strict or not s.endswith('.local.'):
            return None
        body, trailer, has_protocol = s[:-len('.local.')], 'local.', False
    labels = body.split('.')
    service = ''
    if has_protocol:
        service = labels.pop()
        if not service_label_ok(service, strict):
            return None
        if labels == ['']:
            return None                      # the name starts with '.'
    if labels and labels[-1] == '_sub':
        labels.pop()
        if not labels or labels[0] == '':
            return None                      # _sub needs a subtype name
    if labels:
        instance = '.'.join(labels)          # dots inside an instance label are allowed
        if len(instance.encode('utf-8')) > 63:
            return None
        if any(ord(ch) < 0x20 or ord(ch) == 0x7f for ch in instance):
            return None
    return service + trailer


def rfc6763_parse(text):
    """independent RFC 6763 section 6 reader: list of (key, value) with value None for a key-only item and b'' for 'key='"""
    out = []
    i = 0
    while i < len(text):
        n = text[i]
        item = text[i + 1:i + 1 + n]
        i += 1 + n
        if not item:
            continue                          # 6.1: zero-length items are skipped
        eq = item.find(b'=')
        if eq == 0:
            continue                          # 6.4: an item beginning with '=' is ignored
        if eq < 0:
            out.append((item, None))
        else:
            out.append((item[:eq], item[eq + 1:]))
    return out


# ---- static scans (the only discharged obligations) ----------------------------------------------------------------
def static_checks(repo):
    out = []
    m = repo.modules['zeroconf.const']
    pats = {}
    for node in m.tree.body:
        if isinstance(node, ast.Assign) and isinstance(node.targets[0], ast.Name) and node.targets[0].id.startswith('_HAS_'):
            v = node.value
            if isinstance(v, ast.Call) and v.args and isinstance(v.args[0], ast.Constant):
                pats[node.targets[0].id] = v.args[0].value
    exp = {'_HAS_A_TO_Z': {r'[A-Za-z]'},
           '_HAS_ONLY_A_TO_Z_NUM_HYPHEN': {r'^[A-Za-z0-9\-]+\Z'},
           '_HAS_ONLY_A_TO_Z_NUM_HYPHEN_UNDERSCORE': {r'^[A-Za-z0-9\-\_]+\Z', r'^[A-Za-z0-9\-_]+\Z'},
           '_HAS_ASCII_CONTROL_CHARS': {r'[\x00-\x1f\x7f]'}}
    for name, want in exp.items():
        got = pats.get(name)
        out.append(('C19/const.%s/pattern-text' % name, got in want,
                    'pattern text of %s is %r; the rule needs one of %s (note: `$` also matches before a final newline, '
                    'the whole-string anchor is \\Z)' % (name, got, sorted(want))))
    return out


# ---- bounded stand-ins ----------------------------------------------------------------------------------------------
ALPHABET = ['_', 'a', 'Z', '-', '.', '1', '\n', 'é']
TRAILERS = ['._tcp.local.', '._udp.local.', '.local.', '_tcp.local.', '._tcp.local', '']


def _names(tier):
    maxlen = 4 if tier == 'quick' else 5
    for n in range(0, maxlen + 1):
        for tup in itertools.product(ALPHABET, repeat=n):
            yield ''.join(tup)


def _boundary_names():
    out = []
    for n in (1, 14, 15, 16, 17, 40):
        for lab in ('_' + 'a' * n, '_' + 'a' * (n - 1) + '-' if n > 1 else '_-', '_' + '1' * n, '_' + 'a' + '_' * (n - 1)):
            for tr in ('._tcp.local.', '._udp.local.'):
                out.extend([lab + tr, 'inst.' + lab + tr, 'x._sub.' + lab + tr])
    for n in (62, 63, 64, 65):
        out.append('i' * n + '._x._tcp.local.')
        out.append('é' * (n // 2) + ('i' if n % 2 else '') + '._x._tcp.local.')
        out.append('i' * (n - 2) + '.i' + '._x._tcp.local.')
        out.append('s' * n + '._sub._x._tcp.local.')
    for total in (255, 256, 257, 258):
        tail = '._tcp.local.'
        out.append('a._' + 'x' * (total - len(tail) - 3) + tail)
        tail = '.local.'
        out.append('a' * 60 + '.' + 'b' * (total - len(tail) - 61) + tail)
    for ch in ('\x00', '\x1f', '\x7f', '\x80', ' ', '\t'):
        out.extend(['a%sb._x._tcp.local.' % ch, '_a%sb._tcp.local.' % ch, 'a%sb.local.' % ch])
    out.extend(['_._tcp.local.', '._tcp.local.', '_sub._x._tcp.local.', '._sub._x._tcp.local.', 'a._sub._sub._x._tcp.local.',
                '.local.', 'local.', 'a.local.', '_x._tcp.local.\n', '_x\n._tcp.local.', '_x._TCP.local.', '_x._tcp.LOCAL.'])
    return out


def check_validator(tier):
    import zeroconf._utils.name as nm
    from zeroconf._exceptions import BadTypeInNameException
    real = getattr(nm.service_type_name, '__wrapped__', nm.service_type_name)
    n = 0
    viol = []
    seen = set()

    def one(s, strict):
        nonlocal n
        n += 1
        want = valid(s, strict)
        try:
            got = real(s, strict=strict)
            exc = None
        except BadTypeInNameException:
            got, exc = None, 'BadTypeInNameException'
        except Exception as e:          # noqa: any other exception is a violation of "no other error"
            got, exc = None, type(e).__name__
        if exc not in (None, 'BadTypeInNameException'):
            sig = 'raises-' + exc
        elif got != want:
            sig = 'accepts-invalid' if want is None else ('rejects-valid' if got is None else 'wrong-type')
        else:
            return
        if sig not in seen or len(viol) < 6:
            seen.add(sig)
            viol.append({'signature': sig, 'input': s, 'strict': strict, 'returned': got, 'raised': exc, 'expected': want})
    for stem in _names(tier):
        for tr in TRAILERS:
            for strict in (True, False):
                one(stem + tr, strict)
    for s in _boundary_names():
        for strict in (True, False):
            one(s, strict)
    # keep one witness per signature
    uniq = {}
    for v in viol:
        uniq.setdefault(v['signature'], v)
    return {'evaluations': n, 'violations': list(uniq.values()),
            'bound': 'every string over %r of length <= %d before each of %r, both modes, plus %d boundary names'
                     % (ALPHABET, 4 if tier == 'quick' else 5, TRAILERS, len(_boundary_names()))}


KEYS = ['a', b'a', 'B', b'k1', 'é', 'k' * 250]
VALUES = [None, '', b'', 'x', b'x', '=', b'a=b', 'a=b=', b'\xff\x00', 'é', 0, True, 'v' * 4]


def _kb(k):
    return k if isinstance(k, bytes) else k.encode('utf-8')


def _vb(v):
    if v is None:
        return None
    return v if isinstance(v, bytes) else str(v).encode('utf-8')


def check_txt(tier):
    from zeroconf import ServiceInfo
    n = 0
    uniq = {}
    T = '_x._tcp.local.'

    def one(d):
        nonlocal n
        n += 1
        want = [(_kb(k), _vb(v)) for k, v in d.items()]
        try:
            info = ServiceInfo(T, 'i.' + T, port=1, properties=d, server='h.local.')
            text = info.text
            lib = ServiceInfo(T, 'i.' + T, port=1, properties=text, server='h.local.').properties
        except Exception as e:      # noqa
            uniq.setdefault('raises-' + type(e).__name__, {'signature': 'raises-' + type(e).__name__, 'properties': repr(d)})
            return
        ind = rfc6763_parse(text)
        if ind != want:
            uniq.setdefault('independent-parser-differs', {'signature': 'independent-parser-differs', 'properties': repr(d),
                                                           'text': repr(text), 'parsed': repr(ind), 'expected': repr(want)})
        lib_want = {k: (v or None) for k, v in want}
        if dict(lib) != lib_want or list(lib) != [k for k, _ in want]:
            uniq.setdefault('library-decode-differs', {'signature': 'library-decode-differs', 'properties': repr(d),
                                                       'text': repr(text), 'decoded': repr(dict(lib)), 'expected': repr(lib_want)})
    size = 2 if tier == 'quick' else 3
    for r in range(0, size + 1):
        for ks in itertools.permutations(KEYS, r):
            if len({_kb(k) for k in ks}) != len(ks):
                continue                                  # precondition: encoded keys distinct
            for vs in itertools.product(VALUES, repeat=r):
                if any(len(_kb(k)) + (0 if v is None else 1 + len(_vb(v))) > 255 for k, v in zip(ks, vs)):
                    continue
                one(dict(zip(ks, vs)))
    # items at the 255-byte limit
    one({'k' * 254: ''})
    one({'k' * 254: None, 'a': 'b'})
    one({b'k' * 100: b'v' * 154})
    return {'evaluations': n, 'violations': list(uniq.values()),
            'bound': 'all dictionaries of <= %d entries over keys %r and values %r (encoded keys distinct), plus 255-byte items; '
                     'decoded by the library and by an independent RFC 6763 section 6 parser' % (size, [repr(k)[:12] for k in KEYS],
                                                                                               [repr(v)[:10] for v in VALUES])}


def bounded_checks(run, tier, seed):
    return {'validator-small-scope': check_validator(tier), 'txt-round-trip-small-scope': check_txt(tier)}
