"""C05 - record cache agrees with the RFC 6762 section 10 model (abstract record model)."""
from contracts import records, cache_model

PROP = 'C05'
ASSUMPTIONS = ['A1: float arithmetic treated as real arithmetic',
               'record identity model (ident) licensed by C20',
               'iteration order of dict/set is an arbitrary enumeration of the members']


def build(R):
    records.install(R)
    cache_model.install(R)
    cache_model.install_generators(R)
    cache_model.install_flush_specs(R)
    cache_model.install_lookups(R)


def configure(ctx, R):
    records.configure(ctx)


def static_checks(repo):
    return [(PROP + '/' + a, b, c) for a, b, c in records.static_checks(repo)]
