"""C16 - back-to-back duplicate datagrams change nothing (frame condition of the duplicate guard)."""
import z3
from pyvc.core import Sc, RefV, NoneV, PyConst, FuncV, Cont, TupleV, fresh
from pyvc.types import T, INT, REAL, BOOL, BYTES, Ref, ref, NONE
from contracts import records

PROP = 'C16'
K = 'zeroconf._listener'
ASSUMPTIONS = [
    'DNSIncoming(...) is modelled as a fresh object whose valid/flags/_has_qu_question fields are arbitrary (the decoder '
    'is C02); only "a new message object is stored" is used',
    'callees reached after the guard (record manager, query path) are abstracted by arbitrary effects: the claim proved '
    'is the frame of the guarded early return and the state written by a processed delivery',
    'verified for the (address, port) form of addrs; the 4-tuple IPv6 form differs only in tuple unpacking',
    'second processing of datagrams that contain a QU question (which the statement exempts) is not claimed',
]
GUARD = ('self.data == data and now - 1000 < self.last_time and self.last_message is not None '
         'and not self.last_message._has_qu_question')


def _ctor_incoming(ex, args, kwargs, st, frame, node):
    o = fresh('new_DNSIncoming', Ref)
    st.assume(o != NONE)
    st.assume(ex.ctx.shapes.exact_class_term(o, 'DNSIncoming'))
    st.allocate(o)
    obj = RefV(o, ref('DNSIncoming'), False)
    for f, v in (('data', args[0]), ('now', args[3] if len(args) > 3 else None)):
        if v is None:
            continue
        fs = ex.ctx.shapes.field('DNSIncoming', f)
        st.heap[fs.fid] = z3.Store(st.heap_arr(fs.fid, fs.t.sort()), o, ex.term(v, st, fs.t))
    yield st, obj


def build(R):
    records.install(R)
    R.shape('AsyncListener', {'zc': 'Zeroconf', '_registry': 'ServiceRegistry', '_record_manager': 'RecordManager',
                              '_query_handler': 'QueryHandler', 'data': 'bytes', 'last_time': 'real',
                              'last_message': 'opt[DNSIncoming]', 'transport': 'opt[_WrappedTransport]',
                              'sock_description': 'str'})
    R.shape('DNSIncoming', {'data': 'bytes', 'now': 'real', 'valid': 'bool', 'flags': 'int', '_has_qu_question': 'bool'})
    R.shape('ServiceRegistry', {'has_entries': 'bool'})
    R.shape('RecordManager', {})
    R.shape('QueryHandler', {})
    R.shape('Zeroconf', {})
    R.shape('_WrappedTransport', {}, bases=[])
    R.stubs['ctor:DNSIncoming'] = _ctor_incoming
    R.contract('zeroconf._handlers.record_manager', 'RecordManager.async_updates_from_response', 'C06',
               params={'msg': 'DNSIncoming'}, modifies=['*'], ensures=['heap_eq("AsyncListener.data")', 'heap_eq("AsyncListener.last_time")', 'heap_eq("AsyncListener.last_message")', 'heap_eq("DNSIncoming.data")', 'heap_eq("DNSIncoming.now")'], trusted=True,
               note='abstracted: arbitrary effect except on the listener bookkeeping fields and the message bytes/time, which only _listener.py and the decoder assign (static scan)')
    R.contract(K, 'AsyncListener.handle_query_or_defer', 'C12',
               params={'msg': 'DNSIncoming', 'addr': 'str', 'port': 'int', 'transport': '_WrappedTransport',
                       'v6_flow_scope': 'tuple[]'}, modifies=['*'], ensures=['heap_eq("AsyncListener.data")', 'heap_eq("AsyncListener.last_time")', 'heap_eq("AsyncListener.last_message")', 'heap_eq("DNSIncoming.data")', 'heap_eq("DNSIncoming.now")'], trusted=True,
               note='abstracted: arbitrary effect except on the listener bookkeeping fields')
    R.contract(K, 'AsyncListener._process_datagram_at_time', PROP,
               params={'debug': 'bool', 'data_len': 'int', 'now': 'real', 'data': 'bytes', 'addrs': 'tuple[str,int]'},
               requires=['self._record_manager is not None', 'self._registry is not None'],
               modifies=['*'],
               ensures=[
                   # a duplicate (same bytes, < 1000 ms after the stored one, stored message has no QU question):
                   # nothing is written, nothing is called
                   'implies(old(%s), heap_unchanged())' % GUARD,
                   # any other delivery is recorded: bytes, time and the new message object
                   'implies(not old(%s), self.data == data and self.last_time == now and self.last_message is not None '
                   '        and fresh_obj(self.last_message) and self.last_message.data == data and self.last_message.now == now)' % GUARD])
    # two deliveries of the same bytes: after the first one is processed at now1 the guard holds at every
    # now2 in [now1, now1 + 1000) when the stored message has no QU question
    R.lemma('second_delivery_is_suppressed', PROP,
            {'l': 'AsyncListener', 'data': 'bytes', 'now1': 'real', 'now2': 'real'},
            ['l.data == data and l.last_time == now1 and l.last_message is not None and not l.last_message._has_qu_question',
             'now1 <= now2 and now2 < now1 + 1000'],
            ['l.data == data and now2 - 1000 < l.last_time and l.last_message is not None and not l.last_message._has_qu_question'])
    # a suppressed first copy followed by a second one at the same instant is suppressed as well (state untouched)
    R.lemma('suppression_is_stable', PROP,
            {'l': 'AsyncListener', 'data': 'bytes', 'now': 'real'},
            ['l.data == data and now - 1000 < l.last_time and l.last_message is not None and not l.last_message._has_qu_question'],
            ['l.data == data and now - 1000 < l.last_time and l.last_message is not None and not l.last_message._has_qu_question'])


def configure(ctx, R):
    records.configure(ctx)
    R.generators[(K, 'AsyncListener._process_datagram_at_time')] = _gen_process


NO_CONCRETE = set()


def static_checks(repo):
    """the listener bookkeeping fields are assigned only in _listener.py (constructor and _process_datagram_at_time)"""
    import ast
    bad = []
    for mn, m in repo.modules.items():
        for q, f in m.funcs.items():
            for n in ast.walk(f.node):
                if isinstance(n, ast.Attribute) and isinstance(n.ctx, ast.Store) and n.attr in ('last_time', 'last_message'):
                    if not (mn == 'zeroconf._listener' and f.node.name in ('__init__', '_process_datagram_at_time')):
                        bad.append('%s:%s line %d' % (mn, q, n.lineno))
                if isinstance(n, ast.Attribute) and isinstance(n.ctx, ast.Store) and n.attr == 'data' and mn == 'zeroconf._listener':
                    if f.node.name not in ('__init__', '_process_datagram_at_time'):
                        bad.append('%s:%s line %d' % (mn, q, n.lineno))
    return [('C16/static/listener-bookkeeping-fields', not bad,
             'AsyncListener.data/last_time/last_message are assigned only by the constructor and _process_datagram_at_time'
             + ('; offending: %s' % bad if bad else ''))]


def _gen_process(g):
    from zeroconf._listener import AsyncListener
    from zeroconf._protocol.outgoing import DNSOutgoing
    from zeroconf._protocol.incoming import DNSIncoming
    from zeroconf import const as c

    class Calls:
        def __init__(self):
            self.calls = []

        def async_updates_from_response(self, msg):
            self.calls.append(('resp', msg))

        def handle_assembled_query(self, *a):
            self.calls.append(('query', a))

    class Reg:
        has_entries = True

    class ZC:
        loop = None
    zc = ZC()
    zc.registry = Reg()
    zc.record_manager = Calls()
    zc.query_handler = zc.record_manager
    lst = AsyncListener(zc)
    lst.transport = object()

    def packet():
        kind = g.rng.choice(['resp', 'qm', 'qu', 'junk'])
        if kind == 'junk':
            return g.rng.choice([b'', b'\x00' * 5, b'\xff' * 20])
        out = DNSOutgoing(c._FLAGS_QR_RESPONSE | c._FLAGS_AA if kind == 'resp' else c._FLAGS_QR_QUERY)
        if kind == 'resp':
            out.add_answer_at_time(g.record(['A', 'PTR', 'TXT']), 0)
        else:
            q = g.question()
            q.unicast = kind == 'qu'
            out.add_question(q)
        return out.packets()[0]
    pool = [packet() for _ in range(3)]
    # optionally a previous delivery
    now = g.rng.choice([5000.0, 6000.0])
    if g.rng.random() < 0.8:
        prev = g.rng.choice(pool)
        lst.data = prev
        lst.last_time = now - g.rng.choice([0, 1, 999, 1000, 1001, 5000])
        lst.last_message = DNSIncoming(prev, ('1.2.3.4', 5353), None, lst.last_time) if g.rng.random() < 0.9 else None
    data = g.rng.choice(pool)
    return {'self': lst, 'debug': False, 'data_len': len(data), 'now': now, 'data': data, 'addrs': ('1.2.3.4', g.rng.choice([5353, 4000]))}
