"""ServiceRegistry representation invariant and contracts (C03; used by C08, C09, C17)."""
from pyvc.contracts import Loop

P = 'C03'
M = 'zeroconf._services.registry'

IDX = """forall("t:str", lambda t: implies(g.{idx}.has(t), len(g.{idx}[t]) > 0)) and
 forall("t:str, j:int", lambda t, j: implies(g.{idx}.has(t) and 0 <= j and j < len(g.{idx}[t]),
        g._services.has(g.{idx}[t][j]) and {keyof} == t)) and
 forall("t:str, j:int, m:int", lambda t, j, m: implies(g.{idx}.has(t) and 0 <= j and j < m and m < len(g.{idx}[t]), g.{idx}[t][j] != g.{idx}[t][m])) and
 forall("k:str", lambda k: implies(g._services.has(k), g.{idx}.has({keyk}) and
        exists("j:int", lambda j: 0 <= j and j < len(g.{idx}[{keyk}]) and g.{idx}[{keyk}][j] == k)))"""


def install(R):
    R.shape('ServiceRegistry', {'_services': 'dict[str, ServiceInfo]', 'types': 'dict[str, list[str]]',
                                'servers': 'dict[str, list[str]]', 'has_entries': 'bool'})
    R.shape('ServiceInfo', {'type': 'str', '_name': 'str', 'key': 'str', 'server': 'str', 'server_key': 'str',
                            'port': 'int', 'weight': 'int', 'priority': 'int', 'text': 'bytes',
                            'host_ttl': 'real', 'other_ttl': 'real',
                            '_dns_pointer_cache': 'opt[DNSPointer]', '_dns_service_cache': 'opt[DNSService]',
                            '_dns_text_cache': 'opt[DNSText]', '_dns_address_cache_valid': 'bool',
                            '_addr_nsec_cache_valid': 'bool'})
    R.spec('wf_reg', [('g', 'ServiceRegistry')], 'bool',
           'forall("k:str", lambda k: implies(g._services.has(k), g._services[k] is not None and g._services[k].key == k)) and '
           + IDX.format(idx='types', keyof='lower(g._services[g.types[t][j]].type)', keyk='lower(g._services[k].type)').replace('\n', ' ')
           + ' and ' + IDX.format(idx='servers', keyof='g._services[g.servers[t][j]].server_key', keyk='g._services[k].server_key').replace('\n', ' ')
           + ' and g.has_entries == (card(g._services) > 0)')
    R.spec('registered', [('g', 'ServiceRegistry'), ('i', 'ServiceInfo')], 'bool',
           'g._services.has(i.key) and g._services[i.key] is i')
    # memo cleared on (re)registration: stub of ServiceInfo.async_clear_cache
    R.contract('zeroconf._services.info', 'ServiceInfo.async_clear_cache', P,
               modifies=['self._dns_pointer_cache', 'self._dns_service_cache', 'self._dns_text_cache',
                         'self._dns_address_cache_valid', 'self._addr_nsec_cache_valid'],
               ensures=['self._dns_pointer_cache is None and self._dns_service_cache is None and self._dns_text_cache is None',
                        'not self._dns_address_cache_valid and not self._addr_nsec_cache_valid'],
               trusted=True, note='five assignments of None (address memo lists modelled by validity flags)')
    R.contract(M, 'ServiceRegistry._remove_from_index', P,
               params={'index': 'dict[str, list[str]]', 'index_key': 'str', 'name': 'str'},
               raises={'KeyError': 'not index.has(index_key)',
                       'ValueError': 'index.has(index_key) and not exists("j:int", lambda j: 0 <= j and j < len(index[index_key]) and index[index_key][j] == name)'},
               raises_exact=['KeyError', 'ValueError'], ghost_out={'__rm_index': 'int'},
               modifies=['index'],
               ensures=[
                   'forall("t:str", lambda t: implies(t != index_key, index.has(t) == old(index.has(t))))',
                   'forall("t:str", lambda t: implies(t != index_key and index.has(t), list_eq(index[t], old(index[t]))))',
                   # the bucket loses exactly the first occurrence of name; an emptied bucket is dropped
                   'index.has(index_key) == (old(len(index[index_key])) > 1)',
                   'implies(index.has(index_key), len(index[index_key]) == old(len(index[index_key])) - 1)',
                   # w (ghost) = position of the first occurrence of name: everything before it stays, everything after moves up
                   '0 <= __rm_index and __rm_index < old(len(index[index_key])) and old(index[index_key][__rm_index]) == name',
                   'forall("j:int", lambda j: implies(0 <= j and j < __rm_index, old(index[index_key][j]) != name))',
                   'implies(index.has(index_key), forall("j:int", lambda j: implies(0 <= j and j < len(index[index_key]), '
                   '   index[index_key][j] == old(index[index_key])[ite(j < __rm_index, j, j + 1)])))',
                   # the same, read from the old list: every other element is still there (one place up after w)
                   'forall("m:int", lambda m: implies(0 <= m and m < old(len(index[index_key])) and m != __rm_index, '
                   '   index.has(index_key) and index[index_key][ite(m < __rm_index, m, m - 1)] == old(index[index_key])[m]))',
               ])
    R.contract(M, 'ServiceRegistry._add', P, params={'info': 'ServiceInfo'},
               requires=['wf_reg(self)', 'info is not None'],
               raises={'ServiceNameAlreadyRegistered': 'self._services.has(info.key)'},
               raises_exact=['ServiceNameAlreadyRegistered'],
               modifies=['self._services', 'self.types', 'self.servers', 'self.has_entries',
                         'info._dns_pointer_cache', 'info._dns_service_cache', 'info._dns_text_cache',
                         'info._dns_address_cache_valid', 'info._addr_nsec_cache_valid'],
               ensures=[
                        # the name is in its two buckets afterwards and every bucket still holds what it held (stated first: these are the
                        # witnesses the index invariant needs; no position is promised)
                        'self.types.has(lower(info.type)) and exists("j:int", lambda j: 0 <= j and j < len(self.types[lower(info.type)]) and self.types[lower(info.type)][j] == info.key)',
                        'self.servers.has(info.server_key) and exists("j:int", lambda j: 0 <= j and j < len(self.servers[info.server_key]) and self.servers[info.server_key][j] == info.key)',
                        'forall("t:str, j:int", lambda t, j: implies(old(self.types.has(t)) and 0 <= j and j < old(len(self.types[t])), '
                        '   self.types.has(t) and exists("m:int", lambda m: 0 <= m and m < len(self.types[t]) and self.types[t][m] == old(self.types[t][j]))))',
                        'forall("t:str, j:int", lambda t, j: implies(old(self.servers.has(t)) and 0 <= j and j < old(len(self.servers[t])), '
                        '   self.servers.has(t) and exists("m:int", lambda m: 0 <= m and m < len(self.servers[t]) and self.servers[t][m] == old(self.servers[t][j]))))',
                        'wf_reg(self)',
                        'forall("k:str", lambda k: self._services.has(k) == (old(self._services.has(k)) or k == info.key))',
                        'forall("k:str", lambda k: implies(self._services.has(k), self._services[k] is ite(k == info.key, info, old(self._services[k]))))',
                        # replies built after (re)registration use fresh records
                        'info._dns_pointer_cache is None and info._dns_service_cache is None and info._dns_text_cache is None '
                        'and not info._dns_address_cache_valid and not info._addr_nsec_cache_valid',
                        'self.has_entries'])
    R.contracts[(M, 'ServiceRegistry._add')].chain_ensures = True
    R.contract(M, 'ServiceRegistry._remove', P, params={'infos': 'list[ServiceInfo]'},
               requires=['wf_reg(self)', 'forall("j:int", lambda j: implies(0 <= j and j < len(infos), infos[j] is not None))'],
               modifies=['self._services', 'self.types', 'self.servers', 'self.has_entries'],
               ensures=['wf_reg(self)',
                        'forall("k:str", lambda k: self._services.has(k) == (old(self._services.has(k)) and '
                        '   not exists("j:int", lambda j: 0 <= j and j < len(infos) and infos[j].key == k)))',
                        'forall("k:str", lambda k: implies(self._services.has(k), self._services[k] is old(self._services[k])))'],
               loops={0: Loop(inv=['wf_reg_core(self)',
                                   'forall("k:str", lambda k: self._services.has(k) == (old(self._services.has(k)) and '
                                   '   not exists("j:int", lambda j: 0 <= j and j < _k and infos[j].key == k)))',
                                   'forall("k:str", lambda k: implies(self._services.has(k), self._services[k] is old(self._services[k])))',
                                   'list_eq(_it, infos)'],
                              modifies=['self._services', 'self.types', 'self.servers'])})
    R.spec('wf_reg_core', [('g', 'ServiceRegistry')], 'bool',
           'forall("k:str", lambda k: implies(g._services.has(k), g._services[k] is not None and g._services[k].key == k)) and '
           + IDX.format(idx='types', keyof='lower(g._services[g.types[t][j]].type)', keyk='lower(g._services[k].type)').replace('\n', ' ')
           + ' and ' + IDX.format(idx='servers', keyof='g._services[g.servers[t][j]].server_key', keyk='g._services[k].server_key').replace('\n', ' '))


def install_getters(R):
    R.contract(M, 'ServiceRegistry.async_update', P, params={'info': 'ServiceInfo'},
               requires=['wf_reg(self)', 'info is not None'],
               modifies=['self._services', 'self.types', 'self.servers', 'self.has_entries',
                         'info._dns_pointer_cache', 'info._dns_service_cache', 'info._dns_text_cache',
                         'info._dns_address_cache_valid', 'info._addr_nsec_cache_valid'],
               ensures=['wf_reg(self)', 'registered(self, info)',
                        'forall("k:str", lambda k: self._services.has(k) == (old(self._services.has(k)) or k == info.key))',
                        'forall("k:str", lambda k: implies(self._services.has(k) and k != info.key, self._services[k] is old(self._services[k])))',
                        # after an update replies are built from fresh records only
                        'info._dns_pointer_cache is None and info._dns_service_cache is None and info._dns_text_cache is None '
                        'and not info._dns_address_cache_valid and not info._addr_nsec_cache_valid'])
    R.contract(M, 'ServiceRegistry.async_remove', P, params={'info': 'ServiceInfo'},
               requires=['wf_reg(self)', 'info is not None'],
               modifies=['self._services', 'self.types', 'self.servers', 'self.has_entries'],
               ensures=['wf_reg(self)', 'not self._services.has(info.key)',
                        'forall("k:str", lambda k: implies(k != info.key, self._services.has(k) == old(self._services.has(k))))',
                        'forall("k:str", lambda k: implies(self._services.has(k), self._services[k] is old(self._services[k])))'],
               note='verified for a single ServiceInfo argument (the list form goes straight to _remove)')
    R.contract(M, 'ServiceRegistry.async_get_info_name', P, params={'name': 'str'}, returns='opt[ServiceInfo]',
               requires=['wf_reg(self)'],
               ensures=['implies(self._services.has(name), result is self._services[name])',
                        'implies(not self._services.has(name), result is None)'])
    R.contract(M, 'ServiceRegistry.async_get_types', P, returns='list[str]', requires=['wf_reg(self)'],
               ensures=['forall("j:int", lambda j: implies(0 <= j and j < len(result), self.types.has(result[j])))',
                        'forall("t:str", lambda t: implies(self.types.has(t), exists("j:int", lambda j: 0 <= j and j < len(result) and result[j] == t)))',
                        # hence (wf_reg: every bucket is non-empty and holds registered names of that type): exactly the
                        # lower-cased types of the currently registered services
                        'forall("j:int", lambda j: implies(0 <= j and j < len(result), len(self.types[result[j]]) > 0 '
                        '   and self._services.has(self.types[result[j]][0]) and lower(self._services[self.types[result[j]][0]].type) == result[j]))'])
    by_index = lambda idx, keyexpr: [
        'forall("j:int", lambda j: implies(0 <= j and j < len(result), result[j] is not None and registered(self, result[j]) and %s == %s))' % (keyexpr.replace('X', 'result[j]'), '{q}'),
        'forall("k:str", lambda k: implies(self._services.has(k) and %s == %s, exists("j:int", lambda j: 0 <= j and j < len(result) and result[j] is self._services[k])))' % (keyexpr.replace('X', 'self._services[k]'), '{q}'),
        'forall("j:int, m:int", lambda j, m: implies(0 <= j and j < m and m < len(result), result[j] is not result[m]))',
        # (consequence of the first two, stated for the callers) non-empty exactly when some registered service has that key
        '(len(result) > 0) == exists("k:str", lambda k: self._services.has(k) and %s == %s)' % (keyexpr.replace('X', 'self._services[k]'), '{q}')]
    R.contract(M, 'ServiceRegistry._async_get_by_index', P, params={'records': 'dict[str, list[str]]', 'key': 'str'},
               returns='list[ServiceInfo]',
               requires=['wf_reg(self)',
                         'forall("j:int", lambda j: implies(records.has(key) and 0 <= j and j < len(records[key]), self._services.has(records[key][j])))'],
               ensures=['implies(not records.has(key), len(result) == 0)',
                        'implies(records.has(key), len(result) == len(records[key]) and '
                        '   forall("j:int", lambda j: implies(0 <= j and j < len(result), result[j] is self._services[records[key][j]])))'])
    R.contract(M, 'ServiceRegistry.async_get_infos_type', P, params={'type_': 'str'}, returns='list[ServiceInfo]',
               requires=['wf_reg(self)'],
               ensures=[e.format(q='type_') for e in by_index('types', 'lower(X.type)')])
    R.contract(M, 'ServiceRegistry.async_get_infos_server', P, params={'server': 'str'}, returns='list[ServiceInfo]',
               requires=['wf_reg(self)'],
               ensures=[e.format(q='server') for e in by_index('servers', 'X.server_key')])


# ---- concrete harness --------------------------------------------------------------------------------------
TYPES = ['_x._tcp.local.', '_X._tcp.local.', '_y._udp.local.']
HOSTS = ['host.local.', 'HOST.local.', 'h2.local.']


def mk_info(g, used):
    from zeroconf import ServiceInfo
    for _ in range(20):
        ty = g.rng.choice(TYPES)
        inst = g.rng.choice(['a', 'A', 'b', 'c'])
        name = '%s.%s' % (inst, ty)
        if name.lower() in used:
            continue
        used.add(name.lower())
        addrs = g.rng.choice([[b'\x01\x02\x03\x04'], [b'\x00' * 15 + b'\x01'], [b'\x01\x02\x03\x04', b'\x00' * 15 + b'\x01'], []])
        return ServiceInfo(ty, name, 80, 0, 0, {'k': 'v'}, g.rng.choice(HOSTS), host_ttl=g.rng.choice([120, 60]),
                           other_ttl=g.rng.choice([4500, 100]), addresses=addrs)
    return None


def mk_registry(g):
    from zeroconf._services.registry import ServiceRegistry
    r = ServiceRegistry()
    used = set()
    for _ in range(g.rng.randint(0, 4)):
        i = mk_info(g, used)
        if i is not None:
            r.async_add(i)
    return r


def _gen_info_arg(g, registered_bias=0.6):
    r = mk_registry(g)
    infos = list(r._services.values())
    if infos and g.rng.random() < registered_bias:
        old = g.rng.choice(infos)
        if g.rng.random() < 0.5:
            return r, old
        # a NEW ServiceInfo for the same instance name (what update_service is given): other port / host / subtype
        from zeroconf import ServiceInfo
        ty = old.type if g.rng.random() < 0.5 else '_sub1._sub.' + old.type.split('._sub.')[-1]
        host = old.server if g.rng.random() < 0.6 else g.rng.choice(HOSTS)
        return r, ServiceInfo(ty, old.name, 81, 0, 0, {'k': 'w'}, host, host_ttl=60, other_ttl=100, addresses=[b'\x05\x06\x07\x08'])
    return r, mk_info(g, set())


def install_generators(R):
    G = R.generators

    def g_add(g):
        r, i = _gen_info_arg(g, 0.3)
        return {'self': r, 'info': i}

    def g_remove(g):
        r = mk_registry(g)
        infos = list(r._services.values())
        pick = [x for x in infos if g.rng.random() < 0.5]
        if g.rng.random() < 0.3:
            extra = mk_info(g, set())
            if extra is not None:
                pick.append(extra)
        return {'self': r, 'infos': pick}

    def g_index(g):
        r = mk_registry(g)
        idx = r.types if g.rng.random() < 0.5 else r.servers
        keys = list(idx)
        if keys and g.rng.random() < 0.8:
            k = g.rng.choice(keys)
            nm = g.rng.choice(idx[k]) if g.rng.random() < 0.8 else 'zz'
        else:
            k, nm = 'nokey', 'zz'
        return {'index': idx, 'index_key': k, 'name': nm}
    G[(M, 'ServiceRegistry._add')] = g_add
    G[(M, 'ServiceRegistry._remove')] = g_remove
    G[(M, 'ServiceRegistry._remove_from_index')] = g_index
    G[(M, 'ServiceRegistry.async_update')] = lambda g: dict(zip(('self', 'info'), _gen_info_arg(g, 0.7)))
    G[(M, 'ServiceRegistry.async_remove')] = lambda g: dict(zip(('self', 'info'), _gen_info_arg(g, 0.7)))
    G[(M, 'ServiceRegistry.async_get_info_name')] = lambda g: {'self': mk_registry(g), 'name': g.rng.choice(['a._x._tcp.local.', 'A._x._tcp.local.', 'b._y._udp.local.'])}
    G[(M, 'ServiceRegistry.async_get_types')] = lambda g: {'self': mk_registry(g)}
    G[(M, 'ServiceRegistry.async_get_infos_type')] = lambda g: {'self': mk_registry(g), 'type_': g.rng.choice([t.lower() for t in TYPES] + TYPES)}
    G[(M, 'ServiceRegistry.async_get_infos_server')] = lambda g: {'self': mk_registry(g), 'server': g.rng.choice([h.lower() for h in HOSTS] + HOSTS)}

    def g_by_index(g):
        r = mk_registry(g)
        idx = r.types if g.rng.random() < 0.5 else r.servers
        return {'self': r, 'records': idx, 'key': g.rng.choice(list(idx) + ['nokey'])}
    G[(M, 'ServiceRegistry._async_get_by_index')] = g_by_index
