"""C18 - service-info lookup: bounded, cache-first, never from expired data.

Functions under contract: ServiceInfo._process_record_threadsafe (where every field may come from), _get_ip_addresses_from_cache_lifo,
_load_from_cache, _is_complete, async_request (await model: deadline, cache-first, QU then QM, listener removed on every exit),
_add_question_with_known_answers and _generate_request_query (which questions are asked, with which known answers)."""
import z3
from pyvc.contracts import Loop
from pyvc.core import Sc, RefV, NoneV, Cont, FieldLoc, PyConst, FuncV, TermLoc, VCError, fresh
from pyvc.types import Ref, NONE, ref, BOOL, INT, REAL, STR, parse_type, ident_of
from contracts import records, loop_model, cache_model, await_model, c13, outgoing_model

PROP = 'C18'
I = 'zeroconf._services.info'
QU, QM = 1, 2
ASSUMPTIONS = [
    'Optional[str] fields ServiceInfo.server / server_key are modelled as strings; None is the empty string, and no cached record '
    'has an empty name (decoded names end in a dot: C02)',
    'get_ip_address_object_from_record(record) is an uninterpreted function of the record identity (address bytes and scope) to an '
    'address object or None; equality of address objects is identity of that object (the library caches them per value)',
    'DNSQuestionType members are modelled by their values (QU = 1, QM = 2); truthiness of an enum member is True',
    'A5 await model (contracts/await_model.py); ServiceInfo.async_wait(t) returns within max(t, 0) ms of the ideal clock (timeout) or '
    'earlier (notified); while waiting, records may arrive and change the lookup\'s fields (whole heap havocked)',
    'the lookup object starts without caller-supplied addresses (AsyncServiceInfo(type_, name) as async_get_service_info builds it)',
    'Zeroconf.async_add_listener/async_remove_listener are the ghost registration flag of the lookup (the record manager is C06)',
    'cache lookups get_by_details / get_all_by_details by their C05 contracts; question history by its C13 contracts',
]


def _ip_fn():
    from pyvc.types import Ident
    return z3.Function('ipobj', Ident, Ref)


def _get_ip(ex, args, kwargs, st, frame, node):
    r = args[0]
    o = _ip_fn()(ident_of(r.term))
    v = RefV(o, ref('IPAddr'), True)
    st.assume(z3.Or(o == NONE, ex.ctx.shapes.exact_class_term(o, 'IPAddr')))
    yield st, v


def _listen(flag):
    def f(ex, recv, args, kwargs, st, frame, node):
        fs = ex.ctx.shapes.field('ServiceInfo', 'g_registered')
        st.heap[fs.fid] = z3.Store(st.heap_arr(fs.fid, z3.BoolSort()), args[0].term, z3.BoolVal(flag))
        yield st, NoneV()
    return f


def _async_wait(ex, recv, args, kwargs, st, frame, node):
    """ServiceInfo.async_wait(timeout_ms, loop): an await point that ends at most max(timeout, 0) ms later"""
    clock = ex.ctx.ghost_objects['CLOCK']
    fs = ex.ctx.shapes.field('VClock', 'now')
    now0 = z3.Select(st.heap_arr(fs.fid, fs.t.sort()), clock.term)
    t = ex.term(args[0], st, REAL)
    await_model.await_point(ex, st, frame, node)
    now1 = z3.Select(st.heap_arr(fs.fid, fs.t.sort()), clock.term)
    st.assume(now1 <= now0 + z3.If(t > 0, t, 0))
    yield st, NoneV()


def build(R):
    c13.build(R)            # records, cache model + lookups (C05), question history contracts (C13)
    loop_model.install(R)
    await_model.install(R)
    from contracts.common import stub
    R.shape('IPAddr', {'version': 'int'}, bases=[])
    R.shape('ServiceInfo', {'_name': 'str', 'key': 'str', 'server': 'str', 'server_key': 'str', 'port': 'int', 'weight': 'int',
                            'priority': 'int', 'text': 'bytes', '_ipv4_addresses': 'list[IPAddr]', '_ipv6_addresses': 'list[IPAddr]',
                            'g_registered': 'bool', 'type': 'str'})
    R.shape('Zeroconf', {'cache': 'DNSCache', 'question_history': 'QuestionHistory', 'loop': 'opt[EventLoop]', 'started': 'bool',
                         'done': 'bool'})
    R.shape('QuestionHistory', {}, bases=[])
    R.stubs[I + ':get_ip_address_object_from_record'] = stub(_get_ip)
    # the address-object helpers behind that abstraction: total (a malformed / short address yields None, never an exception)
    U = 'zeroconf._utils.ipaddress'
    R.shape('IPAddr', {'is_link_local': 'bool'})

    def _cached_ip(ex, args, kwargs, st, frame, node):
        o = fresh('ipobj', Ref)
        st.assume(z3.Or(o == NONE, ex.ctx.shapes.exact_class_term(o, 'IPAddr')))
        ex.ctx.assumed.add('cached_ip_addresses_wrapper(x) returns an address object or None and raises nothing (lru_cache over two '
                           'try/except (AddressValueError, NetmaskValueError) constructor calls)')
        yield st, RefV(o, ref('IPAddr'), True)
    R.stubs[U + ':cached_ip_addresses_wrapper'] = stub(_cached_ip)
    R.stubs[U + ':IPADDRESS_SUPPORTS_SCOPE_ID'] = lambda ex, st, frame: Sc(fresh('supports_scope', z3.BoolSort()), BOOL)
    R.contract(U, 'ip_bytes_and_scope_to_address', PROP, params={'address': 'bytes', 'scope': 'int'}, returns='opt[IPAddr]',
               requires=[], modifies=[], raises={}, ensures=[])
    R.contract(U, 'get_ip_address_object_from_record', PROP, params={'record': 'DNSAddress'}, returns='opt[IPAddr]',
               requires=['record is not None'], modifies=[], raises={}, ensures=[])
    R.stubs[I + ':QU_QUESTION'] = lambda ex, st, frame: PyConst(QU)
    R.stubs[I + ':QM_QUESTION'] = lambda ex, st, frame: PyConst(QM)
    R.stubs['method:Zeroconf.async_add_listener'] = _listen(True)
    R.stubs['method:Zeroconf.async_remove_listener'] = _listen(False)
    R.stubs['method:ServiceInfo.async_wait'] = _async_wait
    R.spec('ipobj', [('r', 'DNSRecord')], 'opt[IPAddr]', lambda ex, st, r: RefV(_ip_fn()(ident_of(r.term)), ref('IPAddr'), True),
           concrete=lambda r: __import__('zeroconf._utils.ipaddress', fromlist=['x']).get_ip_address_object_from_record(r))
    # an address the lookup holds comes from a cached / delivered address record of its host
    HOSTREC = ('(r is not None and cls_is(r, DNSAddress) and r.key == %s and ipobj(r) is a)')
    R.contract(I, 'ServiceInfo._set_text', PROP, params={'text': 'bytes'}, modifies=['self.text', 'ServiceInfo._properties[*]', 'ServiceInfo._decoded_properties[*]'],
               ensures=['self.text == text'], trusted=True, note='two assignments and a cache reset (C19 scope)')
    R.shape('ServiceInfo', {'_properties': 'object', '_decoded_properties': 'object'})
    R.spec('complete', [('s', 'ServiceInfo')], 'bool', 'len(s._ipv4_addresses) > 0 or len(s._ipv6_addresses) > 0')
    R.spec('holds', [('s', 'ServiceInfo'), ('a', 'IPAddr')], 'bool',
           'exists("j:int", lambda j: 0 <= j and j < len(s._ipv4_addresses) and s._ipv4_addresses[j] is a) '
           'or exists("j:int", lambda j: 0 <= j and j < len(s._ipv6_addresses) and s._ipv6_addresses[j] is a)')
    SAME_SRV = ('self._name == old(self._name) and self.key == old(self.key) and self.server == old(self.server) and self.server_key == old(self.server_key) '
                'and self.port == old(self.port) and self.weight == old(self.weight) and self.priority == old(self.priority)')
    SAME_ADDR = 'list_eq(self._ipv4_addresses, old(self._ipv4_addresses)) and list_eq(self._ipv6_addresses, old(self._ipv6_addresses))'
    IS_SRV = '(exact_class(record, DNSService) and record.key == old(self.key))'
    IS_TXT = '(exact_class(record, DNSText) and record.key == old(self.key))'
    IS_ADDR = '(exact_class(record, DNSAddress) and record.key == old(self.server_key))'
    R.contract(I, 'ServiceInfo._get_ip_addresses_from_cache_lifo', PROP, params={'zc': 'Zeroconf', 'now': 'real', 'type': 'int'},
               returns='list[IPAddr]',
               requires=['zc is not None and zc.cache is not None and wf_cache(zc.cache)'],
               ensures=[
                   # every address comes from a cached address record of the host, of the asked type, that has NOT expired at `now`
                   'forall("j:int", lambda j: implies(0 <= j and j < len(result), result[j] is not None and exists("i:ident", lambda i: '
                   '   in_cache(zc.cache, i) and i.key == lower(self.server_key) and i.type == type and i.class_ == 1 '
                   '   and not expired(cached(zc.cache, i), now) and ipobj(cached(zc.cache, i)) is result[j])))',
                   # (completeness - ALL live cached addresses are loaded - is not proved: the solvers do not close the chain
                   #  lookup -> filter -> reverse within the budget; it is exercised by the concrete cross-check only)
                   'forall("j:int, m:int", lambda j, m: implies(0 <= j and j < m and m < len(result), result[j] is not result[m]))'],
               loops={0: Loop(inv=[
                   'forall("j:int", lambda j: implies(0 <= j and j < len(address_list), address_list[j] is not None and exists("m:int", lambda m: 0 <= m and m < _k0 '
                   '   and not expired(_it0[m], now) and ipobj(_it0[m]) is address_list[j])))',
                   'forall("j:int, m:int", lambda j, m: implies(0 <= j and j < m and m < len(address_list), address_list[j] is not address_list[m]))'],
                   modifies=[])})
    R.contract(I, 'ServiceInfo._process_record_threadsafe', PROP, params={'zc': 'Zeroconf', 'record': 'DNSRecord', 'now': 'real'},
               returns='bool',
               requires=['record is not None', 'zc is not None and zc.cache is not None and wf_cache(zc.cache)'],
               modifies=['self._name', 'self.key', 'self.server', 'self.server_key', 'self.port', 'self.weight', 'self.priority', 'self.text',
                         'self._ipv4_addresses', 'self._ipv6_addresses', 'ServiceInfo._properties[*]', 'ServiceInfo._decoded_properties[*]'],
               ensures=[
                   # an expired record changes nothing
                   'implies(expired(record, now), not result and %s and %s and self.text == old(self.text))' % (SAME_SRV, SAME_ADDR),
                   # host, port, priority, weight only from a live SRV record of this instance
                   'implies(not (%s and not expired(record, now)), %s)' % (IS_SRV, SAME_SRV),
                   'implies(%s and not expired(record, now), self.server_key == record.server_key and self.port == record.port '
                   '   and self.weight == record.weight and self.priority == record.priority and self.key == record.key)' % IS_SRV,
                   # TXT only from a live TXT record of this instance
                   'implies(not (%s and not expired(record, now)), self.text == old(self.text))' % IS_TXT,
                   'implies(%s and not %s and not expired(record, now), self.text == as_(record, DNSText).text)' % (IS_TXT, IS_ADDR),
                   # addresses: unchanged unless a live address record of the host arrives, or a live SRV moves the host
                   'implies(not ((%s or (%s and record.server_key != old(self.server_key))) and not expired(record, now)), %s)' % (IS_ADDR, IS_SRV, SAME_ADDR),
                   'implies(%s and ipobj(record) is None, %s)' % (IS_ADDR, SAME_ADDR),
                   # a live address record of the host: its address is held afterwards and nothing else was added
                   'implies(%s and not expired(record, now) and ipobj(record) is not None, holds(self, ipobj(record)) '
                   '   and forall("a:IPAddr", lambda a: implies(holds(self, a), old(holds(self, a)) or a is ipobj(record))))' % IS_ADDR,
                   # whatever happens short of a host move, no held address is dropped
                   'implies(not (%s and record.server_key != old(self.server_key) and not expired(record, now)), '
                   '   forall("a:IPAddr", lambda a: implies(old(holds(self, a)), holds(self, a))))' % IS_SRV,
               ])

    # the listener entry point the record manager calls for every batch of cache changes: a loop over the batch
    R.shape('RecordUpdate', {'new': 'DNSRecord', 'old': 'opt[DNSRecord]'})
    R.shape('ServiceInfo', {'_new_records_futures': 'opt[set[object]]'})
    R.contract('zeroconf._utils.asyncio', '_resolve_all_futures_to_none', 'C17', params={'futures': 'set[object]'}, trusted=True,
               modifies=['futures'], raises={}, note='C17 (future helpers verified there): sets each pending future and clears the set; raises nothing')
    PMOD0 = ['self._name', 'self.key', 'self.server', 'self.server_key', 'self.port', 'self.weight', 'self.priority', 'self.text',
             'self._ipv4_addresses', 'self._ipv6_addresses', 'ServiceInfo._properties[*]', 'ServiceInfo._decoded_properties[*]']
    R.contract(I, 'ServiceInfo.async_update_records', PROP, params={'zc': 'Zeroconf', 'now': 'real', 'records': 'list[RecordUpdate]'},
               requires=['zc is not None and zc.cache is not None and wf_cache(zc.cache)',
                         'forall("j:int", lambda j: implies(0 <= j and j < len(records), records[j] is not None and records[j].new is not None))'],
               modifies=PMOD0 + ['self._new_records_futures'], raises={}, ensures=[],
               loops={0: Loop(inv=['wf_cache(zc.cache)'], modifies=PMOD0)})
    # ---- completeness and the cache load -----------------------------------------------------------------------------------------
    PMOD = ['self._name', 'self.key', 'self.server', 'self.server_key', 'self.port', 'self.weight', 'self.priority', 'self.text',
            'self._ipv4_addresses', 'self._ipv6_addresses', 'ServiceInfo._properties[*]', 'ServiceInfo._decoded_properties[*]']
    R.contract(I, 'ServiceInfo._load_from_cache', PROP, params={'zc': 'Zeroconf', 'now': 'real'}, returns='bool',
               requires=['zc is not None and zc.cache is not None and wf_cache(zc.cache)',
                         # records of wire type A / AAAA in the cache are DNSAddress objects (what the decoder C02 and the builders produce)
                         'forall("i:ident", lambda i: implies(in_cache(zc.cache, i) and (i.type == 1 or i.type == 28), exact_class(cached(zc.cache, i), DNSAddress)))'],
               modifies=PMOD,
               ensures=['result == complete(self)'],
               # NOT proved (solver budget): that EVERY live cached address of the host is held after the load (the invariant
               # "holds(ip of every processed live record)" is not closed by z3/cvc5 within the budget) - seed
               # C18-load-skips-addresses-when-srv-cached is therefore missed by the prover
               loops={0: Loop(inv=[], modifies=PMOD), 1: Loop(inv=[], modifies=PMOD)})
    # bounded only (concrete harness): every live cached address record of the (unchanged) host is held after the load
    R.contracts[(I, 'ServiceInfo._load_from_cache')].ensures_concrete = [
        'implies(self.server_key == old(self.server_key), forall("i:ident", lambda i: implies(in_cache(zc.cache, i) '
        '   and i.key == lower(self.server_key) and (i.type == 1 or i.type == 28) and i.class_ == 1 and cls_is(cached(zc.cache, i), DNSAddress) '
        '   and not expired(cached(zc.cache, i), now) and ipobj(cached(zc.cache, i)) is not None, holds(self, ipobj(cached(zc.cache, i))))))']
    # ---- the questions of one query ---------------------------------------------------------------------------------------------
    outgoing_model.install_shapes(R)
    KA = '(in_cache(cache, a) and a.key == lower(name) and a.type == type_ and a.class_ == class_ and not stale(cached(cache, a), now))'
    ANY_KA = 'exists("a:ident", lambda a: %s)' % KA
    QI = 'mk_qident(name, type_, class_)'
    from pyvc.types import IDENT, lower
    from contracts.records import mk_ident, rd_cons
    rd_none = rd_cons('RD_None')[0]
    R.spec('mk_qident', [('name', 'str'), ('t', 'int'), ('c', 'int')], 'ident',
           lambda ex, st, name, t, c: Sc(mk_ident(z3.IntVal(0), lower(ex.term(name, st)), ex.num(t, st)[0], ex.num(c, st)[0] % 32768, rd_none()), IDENT))
    SUPP = ('(old(question_history._history.has(%s)) and now - old(question_history._history[%s][0]) <= 999 '
            'and forall("a:ident", lambda a: implies(old(question_history._history[%s][1].has(a)), %s)))' % (QI, QI, QI, KA))
    ASKED = '(not (skip_if_known_answers and %s) and (qu_question or not %s))' % (ANY_KA, SUPP)
    NQ = 'old(len(out.questions))'
    NA = 'old(len(out.answers))'
    R.contract(I, 'ServiceInfo._add_question_with_known_answers', PROP,
               params={'out': 'DNSOutgoing', 'qu_question': 'bool', 'question_history': 'QuestionHistory', 'cache': 'DNSCache', 'now': 'real',
                       'name': 'str', 'type_': 'int', 'class_': 'int', 'skip_if_known_answers': 'bool'},
               requires=['out is not None and question_history is not None and cache is not None and wf_cache(cache) and hist_ok(question_history)',
                         '0 <= class_ and class_ < 32768',
                         'forall("i:ident", lambda i: implies(in_cache(cache, i), cached(cache, i).ttl >= 0))'],
               modifies=['out.questions', 'out.answers', 'question_history._history', 'DNSEntry.unique[*]'],
               ensures=[
                   'hist_ok(question_history)',
                   # asked unless (a) SRV/TXT whose non-stale answer is cached, or (b) QM and suppressed by the history; QU is never suppressed
                   'implies(not %s, len(out.questions) == %s and len(out.answers) == %s '
                   '   and forall("i:ident", lambda i: question_history._history.has(i) == old(question_history._history.has(i))))' % (ASKED, NQ, NA),
                   'implies(%s, len(out.questions) == %s + 1 and ident(out.questions[%s]) == %s and out.questions[%s].unique == qu_question '
                   '   and fresh_obj(out.questions[%s]))' % (ASKED, NQ, NQ, QI, NQ, NQ),
                   # with exactly the cached records of that name/type/class that are not stale (more than half the TTL left), at `now`
                   'implies(%s, forall("a:ident", lambda a: %s == exists("p:int", lambda p: %s <= p and p < len(out.answers) and ident(out.answers[p][0]) == a)) '
                   '   and forall("p:int", lambda p: implies(%s <= p and p < len(out.answers), out.answers[p][1] == now and out.answers[p][0] is cached(cache, ident(out.answers[p][0])))))'
                   % (ASKED, KA, NA, NA),
                   # a QM question that is asked is remembered with its time and known answers; a QU question leaves no trace
                   'implies(%s and qu_question, forall("i:ident", lambda i: question_history._history.has(i) == old(question_history._history.has(i))))' % ASKED,
                   'implies(%s and not qu_question, question_history._history.has(%s) and question_history._history[%s][0] == now '
                   '   and forall("a:ident", lambda a: question_history._history[%s][1].has(a) == %s))' % (ASKED, QI, QI, QI, KA),
                   'forall("p:int", lambda p: implies(0 <= p and p < %s, out.questions[p] is old(out.questions[p])))' % NQ,
                   # a builder whose questions all carry this QU/QM flag stays that way
                   'implies(old(forall("p:int", lambda p: implies(0 <= p and p < len(out.questions), out.questions[p] is not None and allocated(out.questions[p]) '
                   '        and iff(out.questions[p].unique, qu_question)))), '
                   '   forall("p:int", lambda p: implies(0 <= p and p < len(out.questions), out.questions[p] is not None and allocated(out.questions[p]) '
                   '        and iff(out.questions[p].unique, qu_question))))',
                   'len(out.questions) <= %s + 1' % NQ,
                   # only the new question object gets its QU bit set: every entry that existed keeps its flag
                   'forall("e:DNSEntry", lambda e: implies(old(allocated(e)), e.unique == old(e.unique)))',
                   'forall("p:int", lambda p: implies(0 <= p and p < %s, out.answers[p][0] is old(out.answers[p][0]) and out.answers[p][1] == old(out.answers[p][1])))' % NA],
               loops={0: Loop(inv=['len(out.answers) == %s + _k0' % NA,
                                   # the known answers are cached records with more than half their TTL left: none is dropped as expired
                                   'forall("m:int", lambda m: implies(0 <= m and m < len(_it0), _it0[m] is not None and _it0[m].ttl >= 0 and not stale(_it0[m], now) '
                                   '   and in_cache(cache, ident(_it0[m])) and _it0[m] is cached(cache, ident(_it0[m]))))',
                                   'forall("p:int", lambda p: implies(%s <= p and p < len(out.answers), out.answers[p][1] == now and out.answers[p][0] is _it0[p - %s]))' % (NA, NA),
                                   'forall("p:int", lambda p: implies(0 <= p and p < %s, out.answers[p][0] is old(out.answers[p][0]) and out.answers[p][1] == old(out.answers[p][1])))' % NA,
                                   'forall("m:int", lambda m: implies(0 <= m and m < _k0, out.answers[%s + m][0] is _it0[m]))' % NA],
                              modifies=['out.answers'])})

    R.contract(I, 'ServiceInfo._generate_request_query', PROP, params={'zc': 'Zeroconf', 'now': 'real', 'question_type': 'optint'},
               returns='DNSOutgoing',
               requires=['zc is not None and zc.cache is not None and zc.question_history is not None and wf_cache(zc.cache) and hist_ok(zc.question_history)',
                         'forall("i:ident", lambda i: implies(in_cache(zc.cache, i), cached(zc.cache, i).ttl >= 0))'],
               modifies=['zc.question_history._history', 'DNSEntry.unique[*]'],
               ensures=['result is not None and fresh_obj(result) and hist_ok(zc.question_history)', 'len(result.questions) <= 4',
                        # QU or QM for the whole query, as requested
                        'forall("p:int", lambda p: implies(0 <= p and p < len(result.questions), result.questions[p] is not None '
                        '   and iff(result.questions[p].unique, question_type == 1)))',
                        # QU queries leave the question history untouched (never suppressed, never recorded)
                        'implies(question_type == 1, forall("i:ident", lambda i: zc.question_history._history.has(i) == old(zc.question_history._history.has(i))))',
                        # every known answer listed is a cached record with more than half of its TTL left, written at `now`
                        'forall("p:int", lambda p: implies(0 <= p and p < len(result.answers), result.answers[p][1] == now '
                        '   and in_cache(zc.cache, ident(result.answers[p][0])) and not stale(result.answers[p][0], now)))'])
    # ---- the lookup ---------------------------------------------------------------------------------------------------------------
    CORE = 'zeroconf._core'
    R.shape('Zeroconf', {'g_started': 'bool'})
    R.contract(CORE, 'Zeroconf.started', PROP, returns='bool', trusted=True, ensures=['result == self.g_started'], note='engine start event (ghost flag)')
    R.contract(CORE, 'Zeroconf.async_wait_for_start', PROP, trusted=True, modifies=['*'],
               ensures=['heap_eq("ServiceInfo.g_registered")', 'heap_eq("Zeroconf.cache")', 'heap_eq("Zeroconf.question_history")', 'heap_eq("Zeroconf.loop")',
                        'implies(old(self.cache is not None and wf_cache(self.cache)), wf_cache(self.cache))',
                        'implies(old(self.question_history is not None and hist_ok(self.question_history)), hist_ok(self.question_history))',
                        'implies(old(forall("i:ident", lambda i: implies(in_cache(self.cache, i), cached(self.cache, i).ttl >= 0))), '
                        '   forall("i:ident", lambda i: implies(in_cache(self.cache, i), cached(self.cache, i).ttl >= 0)))',
                        'implies(old(forall("i:ident", lambda i: implies(in_cache(self.cache, i) and (i.type == 1 or i.type == 28), exact_class(cached(self.cache, i), DNSAddress)))), forall("i:ident", lambda i: implies(in_cache(self.cache, i) and (i.type == 1 or i.type == 28), exact_class(cached(self.cache, i), DNSAddress))))'],
               note='waits for the engine: an await point; the cache and history stay well-formed (C05 / C13 invariants) and in place')
    S0 = 'old(len(SENT.events))'
    LOOKUP_OK = ('zc is not None and zc.cache is not None and zc.question_history is not None and zc.loop is not None and wf_cache(zc.cache) '
                 'and hist_ok(zc.question_history) and forall("i:ident", lambda i: implies(in_cache(zc.cache, i), cached(zc.cache, i).ttl >= 0)) '
                 'and forall("i:ident", lambda i: implies(in_cache(zc.cache, i) and (i.type == 1 or i.type == 28), exact_class(cached(zc.cache, i), DNSAddress)))')
    R.contract(I, 'ServiceInfo.async_request', PROP,
               params={'zc': 'Zeroconf', 'timeout': 'real', 'question_type': 'optint', 'addr': 'object', 'port': 'int'}, returns='bool',
               requires=[LOOKUP_OK, 'allocated(zc) and allocated(zc.cache) and allocated(zc.question_history)', 'timeout >= 0', 'not self.g_registered',
                         'question_type is None or question_type == 1 or question_type == 2'],
               modifies=['*'],
               at_calls={
                   # QU for the first query, QM afterwards; a forced type applies to the first query
                   'self._generate_request_query': ['this_question_type == ite(first_request, ite(question_type is None, 1, question_type), 2)',
                                                    'not complete(self)', 'now == CLOCK.now', 'self.g_registered',
                                                    # no query is built at or after the deadline
                                                    'now < last'],
                   # nothing is transmitted once the lookup is complete, and never an empty query
                   'zc.async_send': ['not complete(self)', 'len(out.questions) > 0'],
               },
               ensures=[
                   # succeeds iff it knows an address at return
                   'result == complete(self)',
                   # the listener registration never outlives the lookup
                   'not self.g_registered',
                   # bounded: (for a running instance) returns no later than the timeout
                   'implies(old(zc.g_started), CLOCK.now <= old(CLOCK.now) + timeout)',
                   # cache-first: if the cache sufficed at the start nothing is sent by the lookup ... (the send log may only have grown by others)
               ],
               ensures_raise={'Exception': ['not self.g_registered']},
               loops={0: Loop(inv=['self.g_registered', 'now == CLOCK.now', 'now <= last', LOOKUP_OK,
                                   'implies(old(zc.g_started), last == old(CLOCK.now) + timeout)', 'delay >= 0'],
                              modifies=['*'])})
    R.contracts[(I, 'ServiceInfo.async_request')].rely = [
        'self.g_registered == old(self.g_registered)', 'zc.cache is old(zc.cache) and zc.question_history is old(zc.question_history) and zc.loop is old(zc.loop)',
        'wf_cache(zc.cache) and hist_ok(zc.question_history)', 'forall("i:ident", lambda i: implies(in_cache(zc.cache, i), cached(zc.cache, i).ttl >= 0))',
        'forall("i:ident", lambda i: implies(in_cache(zc.cache, i) and (i.type == 1 or i.type == 28), exact_class(cached(zc.cache, i), DNSAddress)))']


def configure(ctx, R):
    records.configure(ctx)
    await_model.configure(ctx)
    from pyvc import concrete as _conc
    import ipaddress as _ip
    _conc.MODEL_CLASSES.update({'IPAddr': (_ip.IPv4Address, _ip.IPv6Address)})

    def mk_lookup(g):
        """a real ServiceInfo and a real Zeroconf-like object with a cache holding SRV/TXT/address records of the instance"""
        from zeroconf import ServiceInfo, const
        from zeroconf._cache import DNSCache
        from zeroconf._dns import DNSAddress, DNSService, DNSText
        from zeroconf._history import QuestionHistory
        r = g.rng
        now = r.choice([100000.0, 5000000.0])
        T, N = '_x._tcp.local.', 'Inst._x._tcp.local.'
        hosts = ['h1.local.', 'H1.local.', 'h2.local.']
        info = ServiceInfo(T, N, server=r.choice([None, None, 'h1.local.', 'H2.local.']))
        zc = loop_model.CObj()
        zc.cache = DNSCache()
        zc.question_history = QuestionHistory()
        zc.loop = object()
        recs = []
        def age():
            return now - r.choice([0.0, 1000.0, 60000.0, 119999.0, 120000.0, 200000.0])
        if r.random() < 0.6:
            recs.append(DNSService(r.choice([N, N.upper()]), const._TYPE_SRV, const._CLASS_IN, 120, 0, 0, 80, r.choice(hosts), created=age()))
        if r.random() < 0.6:
            recs.append(DNSText(N, const._TYPE_TXT, const._CLASS_IN, 120, b'\x03a=1', created=age()))
        for _ in range(r.randint(0, 3)):
            h = r.choice(hosts)
            if r.random() < 0.6:
                recs.append(DNSAddress(h, const._TYPE_A, const._CLASS_IN, 120, bytes([10, 0, 0, r.randint(1, 3)]), created=age()))
            else:
                recs.append(DNSAddress(h, const._TYPE_AAAA, const._CLASS_IN, 120, b'\xfe\x80' + b'\x00' * 13 + bytes([r.randint(1, 2)]), created=age()))
        zc.cache.async_add_records(recs)
        return info, zc, now, recs
    R.generators[(I, 'ServiceInfo._load_from_cache')] = lambda g: (lambda t: {'self': t[0], 'zc': t[1], 'now': t[2]})(mk_lookup(g))

    def g_proc(g):
        info, zc, now, recs = mk_lookup(g)
        if g.rng.random() < 0.5:
            info._load_from_cache(zc, now)
        rec = g.rng.choice(recs) if recs and g.rng.random() < 0.8 else g.record()
        return {'self': info, 'zc': zc, 'record': rec, 'now': now}
    R.generators[(I, 'ServiceInfo._process_record_threadsafe')] = g_proc
    def g_upd(g):
        from zeroconf._updates import RecordUpdate
        info, zc, now, recs = mk_lookup(g)
        pick = [RecordUpdate(r, None) for r in recs if g.rng.random() < 0.7]
        if g.rng.random() < 0.3:
            info._new_records_futures = set()
        return {'self': info, 'zc': zc, 'now': now, 'records': pick}
    R.generators[(I, 'ServiceInfo.async_update_records')] = g_upd
    R.generators[(I, 'ServiceInfo._get_ip_addresses_from_cache_lifo')] = lambda g: (lambda t: {
        'self': t[0], 'zc': t[1], 'now': t[2], 'type': g.rng.choice([1, 28])})(mk_lookup(g))

    ADDRS = [b'\x0a\x00\x00\x01', b'\xa9\xfe\x01\x02', b'\xfe\x80' + b'\x00' * 13 + b'\x01', b'\x20\x01' + b'\x00' * 13 + b'\x01',
             b'', b'\x01\x02', b'\xfe\x80\x00\x00\x00\x00\x00', b'\x00' * 17]
    U = 'zeroconf._utils.ipaddress'
    R.generators[(U, 'ip_bytes_and_scope_to_address')] = lambda g: {'address': g.rng.choice(ADDRS), 'scope': g.rng.choice([0, 1, 3, 12])}

    def g_rec(g):
        from zeroconf._dns import DNSAddress
        a = g.rng.choice(ADDRS)
        return {'record': DNSAddress('h1.local.', g.rng.choice([1, 28]), 1, 120, a, scope_id=g.rng.choice([None, 0, 1, 3]))}
    R.generators[(U, 'get_ip_address_object_from_record')] = g_rec


NO_CONCRETE = {'ServiceInfo._add_question_with_known_answers', 'ServiceInfo._generate_request_query', 'ServiceInfo.async_request'}
