"""C15 - a running instance survives any datagram stream: transitive exception containment from datagram_received.

"No exception escapes into the event loop" is proved as a chain of `raises nothing` contracts, each discharged on the real body against
the contracts of its callees:

    datagram_received -> _process_datagram_at_time -> DNSIncoming(...)                       (total: C02, verified there)
                                                   -> RecordManager.async_updates_from_response   (raises nothing: C06, verified there)
                                                   -> handle_query_or_defer -> _respond_query -> QueryHandler.handle_assembled_query
                                                         -> async_response, construct_outgoing_* (C11), queue.async_add (C12)
                                                         -> Zeroconf.async_send: raises NamePartTooLongException IFF the builder holds a
                                                            name that cannot be encoded (DNSOutgoing.packets(), C14 ENTRY_RAISES)

The only builder fed with names that came off the wire is the legacy-unicast reply (it echoes the question section); handle_assembled_query
must therefore contain that one send - on the tree before the F6 repair this obligation is refuted and replayed with a witness datagram.
Oversized datagrams: frame obligation (nothing is read or written).  The call graph reachable from datagram_received is computed from
the ast on every run and every function in it is listed with the check that carries its contract (evidence: unverified surface)."""
import ast
import z3
from pyvc.contracts import Loop
from pyvc.core import Sc, RefV, NoneV, Cont, PyConst, fresh
from pyvc.types import Ref, NONE, ref
from contracts import c12, c16, records

PROP = 'C15'
BOUNDED_IN_QUICK = True
L = 'zeroconf._listener'
QH = c12.QH
ASSUMPTIONS = [
    'callee contracts taken from the checks that verify them: DNSIncoming.__init__/answers() raise nothing (C02), '
    'RecordManager.async_updates_from_response raises nothing (C06, with the listener frame T7: user callbacks do not raise into it), '
    'async_response (C11), the reply queues (C12)',
    'valid_info: the records of REGISTERED services can be encoded (host and instance labels <= 63 UTF-8 bytes, ports in range, '
    'addresses of 4 or 16 bytes): what the API documents; builders made only from own records are encodable',
    'Zeroconf.async_send raises NamePartTooLongException exactly when its builder is not encodable (packets(): C14) and nothing else; '
    'transports do not raise into sendto (asyncio datagram transports report errors through error_received)',
    '"keeps working afterwards" is the preserved invariants of the other checks (cache C05, registry C03, queues C12), not a separate obligation',
    'the 2-tuple (address, port) form of addrs; the IPv6 4-tuple form differs only in tuple unpacking',
]
REACH_OWNER = {
    'AsyncListener.datagram_received': 'C15', 'AsyncListener._process_datagram_at_time': 'C15/C16', 'AsyncListener.handle_query_or_defer': 'C15/C12',
    'AsyncListener._respond_query': 'C15/C12', 'AsyncListener._cancel_any_timers_for_addr': 'C12 (inlined)',
    'QueryHandler.handle_assembled_query': 'C15/C11/C12', 'QueryHandler.async_response': 'C11', 'QueryHandler._get_answer_strategies': 'C03',
    'QueryHandler._answer_question': 'C03', 'QueryHandler._add_pointer_answers': 'C03',
    'QueryHandler._add_address_answers': 'C03',
    'QueryHandler._add_service_type_enumeration_query_answers': 'C03',
    'RecordManager.async_updates_from_response': 'C06', 'RecordManager.async_updates': 'C06', 'RecordManager.async_updates_complete': 'C06',
    'DNSIncoming.__init__': 'C02', 'DNSIncoming.answers': 'C02', 'DNSIncoming.is_query': 'C02 (one line)', 'DNSIncoming.has_qu_question': 'C02 (one line)',
    'MulticastOutgoingQueue.async_add': 'C12', 'Zeroconf.async_send': 'C17 (done guard) / C14 (packets)', 'construct_outgoing_unicast_answers': 'C11',
    'construct_outgoing_multicast_answers': 'C11',
}


def _ctor_incoming(ex, args, kwargs, st, frame, node):
    o = fresh('new_DNSIncoming', Ref)
    st.assume(o != NONE)
    st.assume(ex.ctx.shapes.exact_class_term(o, 'DNSIncoming'))
    st.allocate(o)
    ex.ctx.assumed.add('DNSIncoming(data, ...) raises nothing for any byte string (C02, verified there)')
    obj = RefV(o, ref('DNSIncoming'), False)
    for f, v in (('data', args[0]), ('now', args[3] if len(args) > 3 else None)):
        if v is None:
            continue
        fs = ex.ctx.shapes.field('DNSIncoming', f)
        st.heap[fs.fid] = z3.Store(st.heap_arr(fs.fid, fs.t.sort()), o, ex.term(v, st, fs.t))
    # what the rest of the path needs from a parsed message (decoder postconditions, C02): parsed questions are objects
    s = st.fork()
    s.spec = True
    s.locals = {'m': obj}
    st.assume(ex.spec_bool('forall("j:int", lambda j: implies(0 <= j and j < len(m._questions), m._questions[j] is not None))', s, frame))
    st.assume(ex.spec_bool('0 <= m.flags and m.flags < 65536', s, frame))          # two header bytes (C02 _read_header)
    yield st, obj


def build(R):
    c12.build(R)
    # ---- replace the ghost send log by a contract that can RAISE: the one place names from the wire are re-encoded ----------------
    del R.stubs['method:Zeroconf.async_send']
    R.shape('DNSOutgoing', {'g_encodable': 'bool'})
    R.shape('Zeroconf', {'done': 'bool'})
    R.contract('zeroconf._core', 'Zeroconf.async_send', 'C14',
               params={'out': 'DNSOutgoing', 'addr': 'object', 'port': 'int', 'v6_flow_scope': 'object', 'transport': 'object'},
               trusted=True, modifies=[], raises={'NamePartTooLongException': 'not out.g_encodable'},
               note='C14/C17: sends the datagrams of the builder; packets() raises NamePartTooLongException iff a name of the builder has a label '
                    'over 63 UTF-8 bytes (C01 _write_utf); nothing else is raised for well-formed own records')
    A = 'zeroconf._handlers.answers'
    AT = c12.AT
    R.contract(A, 'construct_outgoing_multicast_answers', 'C11', params={'answers': AT}, returns='DNSOutgoing', trusted=True,
               ensures=['result is not None and fresh_obj(result) and result.multicast and result.g_encodable'],
               note='C11 (verified there); built from records of registered services only: encodable (valid_info)')
    R.contract(A, 'construct_outgoing_unicast_answers', 'C11',
               params={'answers': AT, 'ucast_source': 'bool', 'questions': 'list[DNSQuestion]', 'id_': 'int'}, returns='DNSOutgoing', trusted=True,
               ensures=['result is not None and fresh_obj(result) and not result.multicast',
                        # without the question echo the builder holds own records only
                        'implies(not ucast_source, result.g_encodable)'],
               note='C11 (verified there); with a legacy source the builder ALSO holds the question names that came off the wire')
    old = R.contracts[(QH, 'QueryHandler.handle_assembled_query')]
    R.contract(QH, 'QueryHandler.handle_assembled_query', PROP, params=dict(old.params), requires=list(old.requires),
               modifies=['*'], raises={}, ensures=[])
    R.contract(QH, 'QueryHandler.async_response', 'C11', params={'msgs': 'list[DNSIncoming]', 'ucast_source': 'bool'},
               returns='opt[QuestionAnswers]', trusted=True, modifies=['QuestionHistory._history[*]'],
               ensures=['implies(result is not None, fresh_obj(result))'], note='C11 (verified there): raises nothing')
    old = R.contracts[(L, 'AsyncListener._respond_query')]
    R.contract(L, 'AsyncListener._respond_query', PROP, params=dict(old.params), requires=list(old.requires), modifies=['*'], raises={}, ensures=[])
    old = R.contracts[(L, 'AsyncListener.handle_query_or_defer')]
    R.contract(L, 'AsyncListener.handle_query_or_defer', PROP, params=dict(old.params), requires=list(old.requires), modifies=['*'], raises={},
               ensures=[], loops={0: Loop(inv=[], modifies=[])})
    # ---- the datagram entry points ----------------------------------------------------------------------------------------------------
    R.shape('AsyncListener', {'zc': 'Zeroconf', '_registry': 'ServiceRegistry', '_record_manager': 'RecordManager', 'data': 'bytes',
                              'last_time': 'real', 'last_message': 'opt[DNSIncoming]', 'transport': 'opt[_WrappedTransport]', 'sock_description': 'str'})
    R.shape('DNSIncoming', {'data': 'bytes', 'now': 'real', 'valid': 'bool', 'flags': 'int', '_has_qu_question': 'bool'})
    R.shape('ServiceRegistry', {'has_entries': 'bool'})
    R.shape('RecordManager', {})
    R.shape('_WrappedTransport', {}, bases=[])
    R.stubs['ctor:DNSIncoming'] = _ctor_incoming
    R.contract('zeroconf._handlers.record_manager', 'RecordManager.async_updates_from_response', 'C06', params={'msg': 'DNSIncoming'},
               modifies=['*'], trusted=True, raises={},
               ensures=['forall("l:AsyncListener", lambda l: implies(old(allocated(l)), l._deferred is old(l._deferred)))' if False else 'True'],
               note='C06 (verified there): raises nothing (listener callbacks: frame T7)')
    LISTEN_OK = ('self._record_manager is not None and self._registry is not None and self._query_handler is not None and tc_ok(self) '
                 'and hq_ok(self._query_handler)')
    R.contract(L, 'AsyncListener._process_datagram_at_time', PROP,
               params={'debug': 'bool', 'data_len': 'int', 'now': 'real', 'data': 'bytes', 'addrs': 'tuple[str,int]'},
               requires=[LISTEN_OK, 'now <= CLOCK.now', 'self.transport is not None'],
               modifies=['*'], raises={}, ensures=[])
    R.contract(L, 'AsyncListener.datagram_received', PROP, params={'data': 'bytes', 'addrs': 'tuple[str,int]'},
               requires=[LISTEN_OK, 'self.transport is not None'],
               modifies=['*'], raises={},
               ensures=[
                   # datagrams over 8966 bytes are ignored: nothing is read, nothing is written
                   'implies(blen(data) > 8966, heap_unchanged())'])


def configure(ctx, R):
    c12.configure(ctx, R)
    R.replays['C15/_handlers.query_handler.QueryHandler.handle_assembled_query'] = _replay_echo


NO_CONCRETE = {'*'}
# only when a ServiceBrowser is running: its listener entry points (thorough tier; the C04 obligations take ~5 min)
INHERIT_THOROUGH = [('C04', ['_ServiceBrowserBase._enqueue_callback', '_ServiceBrowserBase.async_update_records',
                             '_ServiceBrowserBase.async_update_records_complete'])]
# functions on the path of a datagram whose contracts (with their raises-nothing obligations: index, key, None, callee preconditions)
# belong to other checks: verified again in this run, so a change inside one of them is reported here as well
INHERIT = [
    ('C02', ['DNSIncoming._read_header', 'DNSIncoming._decode_labels_at_offset', 'DNSIncoming._read_name', 'DNSIncoming._read_string',
             'DNSIncoming._read_character_string', 'DNSIncoming._read_record', 'DNSIncoming._read_questions', 'DNSIncoming._read_others',
             'DNSIncoming._initial_parse', 'DNSIncoming.__init__', 'DNSIncoming.answers']),
    ('C06', ['RecordManager.async_updates_from_response', 'RecordManager.async_updates', 'RecordManager.async_updates_complete',
             'RecordManager._async_update_matching_records']),
    ('C05', ['DNSCache.async_add_records', 'DNSCache._async_add', 'DNSCache.async_remove_records', 'DNSCache._async_remove', '_remove_key',
             'DNSCache.async_get_unique', 'DNSCache.async_mark_unique_records_older_than_1s_to_expire', 'DNSRecord.is_expired',
             'DNSRecord.reset_ttl', 'DNSRecord.set_created_ttl']),
    ('C18', ['ServiceInfo.async_update_records', 'ServiceInfo._process_record_threadsafe', 'get_ip_address_object_from_record',
             'ip_bytes_and_scope_to_address']),
    ('C12', ['_QueryResponse.add_mcast_question_response', '_QueryResponse._has_mcast_record_in_last_second', '_QueryResponse.answers',
             'MulticastOutgoingQueue.async_add']),
    ('C11', ['QueryHandler.async_response', '_QueryResponse._has_mcast_within_one_quarter_ttl', '_QueryResponse.add_qu_question_response',
             '_QueryResponse.add_ucast_question_response', 'construct_outgoing_multicast_answers', 'construct_outgoing_unicast_answers',
             '_add_answers_additionals', 'DNSRecord.is_recent']),
    ('C13', ['QuestionHistory.add_question_at_time']),
    ('C03', ['QueryHandler._get_answer_strategies', 'QueryHandler._answer_question', 'QueryHandler._add_pointer_answers',
             'QueryHandler._add_service_type_enumeration_query_answers', 'QueryHandler._add_address_answers', 'DNSRRSet.suppresses', 'DNSRRSet._get_lookup',
             'ServiceRegistry.async_get_info_name', 'ServiceRegistry.async_get_types', 'ServiceRegistry.async_get_infos_type',
             'ServiceRegistry.async_get_infos_server', 'ServiceRegistry._async_get_by_index', 'ServiceInfo._dns_pointer',
             'ServiceInfo._dns_service', 'ServiceInfo._dns_text']),
]


def static_checks(repo):
    """call graph reachable from datagram_received (same-package calls resolved by name): every function has an owner"""
    import collections
    funcs = {}
    for mn, m in repo.modules.items():
        for q, f in m.funcs.items():
            funcs.setdefault(q.split('.')[-1], []).append((mn, q, f))
    start = ('zeroconf._listener', 'AsyncListener.datagram_received')
    seen = set()
    todo = collections.deque([start])
    names_of_interest = {k.split('.')[-1] for k in REACH_OWNER}
    reach = []
    while todo:
        mn, q = todo.popleft()
        if (mn, q) in seen:
            continue
        seen.add((mn, q))
        f = repo.modules[mn].funcs.get(q)
        if f is None:
            continue
        reach.append(q)
        for n in ast.walk(f.node):
            if isinstance(n, ast.Call):
                name = n.func.attr if isinstance(n.func, ast.Attribute) else (n.func.id if isinstance(n.func, ast.Name) else None)
                if name in names_of_interest and name in funcs:
                    for (m2, q2, f2) in funcs[name]:
                        if q2 in REACH_OWNER or q2.split('.')[-1] == name and any(k.endswith('.' + name) or k == name for k in REACH_OWNER):
                            if q2 in REACH_OWNER:
                                todo.append((m2, q2))
    missing = [q for q in reach if q not in REACH_OWNER]
    unverified = sorted(q for q in reach if REACH_OWNER.get(q, '').startswith('UNVERIFIED'))
    return [('C15/scan/reachable-functions-have-an-owner', not missing and len(reach) >= 8,
             '%d functions reached from datagram_received through the listed call edges; without owner: %s; listed as unverified surface: %s'
             % (len(reach), missing, unverified))]


# ---- replay: the witness datagram of F6 -----------------------------------------------------------------------------------------------
def echo_witness():
    bad = bytes([30]) + b'\xff' * 30
    q1 = b'\x02_x\x04_tcp\x05local\x00' + b'\x00\x0c\x00\x01'
    q2 = bad + b'\x05local\x00' + b'\x00\x0c\x00\x01'
    return b'\x12\x34\x00\x00\x00\x02\x00\x00\x00\x00\x00\x00' + q1 + q2


def deliver(datagrams, port=40000):
    """a real Zeroconf (no sockets) with one registered service and a real AsyncListener; returns the exception that escapes, or None"""
    from unittest.mock import MagicMock, patch
    from zeroconf import ServiceInfo, Zeroconf
    from zeroconf._listener import AsyncListener
    with patch('zeroconf._core.create_sockets', return_value=(None, [])):
        zc = Zeroconf(interfaces=['127.0.0.1'])
    try:
        info = ServiceInfo('_x._tcp.local.', 'inst._x._tcp.local.', port=80, server='h.local.', addresses=[b'\x0a\x00\x00\x01'])
        zc.registry.async_add(info)
        lst = AsyncListener(zc)
        lst.transport = MagicMock()
        for d in datagrams:
            try:
                lst.datagram_received(d, ('1.2.3.4', port))
            except BaseException as e:       # noqa
                return type(e).__name__, d
        return None
    finally:
        zc.close()


def _replay_echo(r, run):
    got = deliver([echo_witness()])
    if got:
        return {'reproduced': True, 'how': 'AsyncListener.datagram_received(datagram, ("1.2.3.4", 40000)) on a real instance with one registered service',
                'failing_input': 'legacy-unicast query: one PTR question for the registered type and one question whose name has a 30-byte label of 0xFF bytes',
                'input_hex': got[1].hex(), 'raised': got[0]}
    return {'reproduced': False}


def bounded_checks(run, tier, seed):
    """BOUNDED: the same entry point fed natively with hostile datagrams (nothing may escape)"""
    import itertools
    import random
    from contracts import c02
    rng = random.Random(seed)
    grams = [echo_witness(), c02.pointer_chain(1100), b'', b'\x00' * 11, b'\xff' * 9000, b'\x00' * 8966]
    alpha = [0x00, 0x01, 0x03, 0x0C, 0xC0, 0xFF, 0x61]
    hdrs = [b'\x00\x00\x00\x00\x00\x01\x00\x00\x00\x00\x00\x00', b'\x00\x00\x84\x00\x00\x00\x00\x01\x00\x00\x00\x00', b'\x00\x01\x02\x00\x00\x02\x00\x01\x00\x01\x00\x00']
    for h in hdrs:
        for k in range(0, 4 if tier == 'quick' else 5):
            for tup in itertools.product(alpha, repeat=k):
                grams.append(h + bytes(tup))
    base = echo_witness()
    for _ in range(300 if tier == 'quick' else 3000):
        d = bytearray(base)
        for _ in range(rng.randint(1, 4)):
            d[rng.randrange(len(d))] = rng.randrange(256)
        grams.append(bytes(d[:rng.randint(0, len(d))] if rng.random() < 0.3 else d))
    viol = []
    for port in (40000, 5353):
        got = deliver(grams, port)
        if got:
            viol.append({'signature': 'escapes-' + got[0], 'port': port, 'input_hex': got[1][:80].hex(), 'len': len(got[1])})
    return {'hostile-datagram-stream': {
        'evaluations': 2 * len(grams), 'violations': viol,
        'bound': '%d datagrams (the echo witness and mutations of it, a 1100-pointer chain, empty/short/oversized, every byte string over %s up to length '
                 '%d behind three headers) delivered in one stream to a real listener with a registered service, from port 40000 and from 5353'
                 % (len(grams), [hex(a) for a in alpha], 3 if tier == 'quick' else 4)}}
