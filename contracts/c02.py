"""C02 - the decoder is total, bounded and faithful on arbitrary datagrams.

Deductive part (all byte strings, no length bound): TOTALITY - every function of the decoder raises at most IndexError or
IncomingDecodeError (safety obligations for every subscript, dict/list access and explicit raise), and the two entry points
DNSIncoming.__init__ and answers() catch exactly these, so nothing escapes; BOUNDED RECURSION - _decode_labels_at_offset recurses only
while fewer than MAX_DNS_LABELS pointers have been followed (call-site obligation; every recursion level adds one pointer to
seen_pointers and _read_name starts with the empty set, so the Python stack depth is at most 129 frames of this function);
every name handed out by _read_name has at most 253 characters, and so has every question and record stored in the message.

FAITHFULNESS against a strict RFC 1035 parser and the work bound are NOT proved; they are checked by the bounded stand-in below
(labelled bounded): all byte strings over an adversarial alphabet up to a length bound behind a header, grammar-made compression
graphs (chains, cycles, self/forward references), truncations and bit flips of encoder output - against an independent strict parser
written here from RFC 1035."""
import z3
from pyvc.contracts import Loop
from pyvc.core import Sc, RefV, NoneV, Cont, PyConst, fresh
from pyvc.types import Ref, NONE, ref, BOOL, INT, STR, Str
from contracts import records

PROP = 'C02'
BOUNDED_IN_QUICK = True
M = 'zeroconf._protocol.incoming'
ERR = {'IndexError': 'True', 'IncomingDecodeError': 'True'}
ASSUMPTIONS = [
    'bytes.decode("utf-8", "replace") never raises and returns some string (uninterpreted); str.join / len of the joined name are '
    'uninterpreted except that the length test of _read_name is the one in the code',
    'record constructors (DNSAddress, DNSPointer, ...) do not raise for the argument types the decoder passes (C20 constructor '
    'contracts; DNSNsec sorts a list of ints)',
    'RecursionError is not modelled as a raise: it is excluded by the hop bound obligation at the recursive call (depth <= hops + 1)',
    'logging never raises (T5); _log_exception_debug is a no-op',
    'faithfulness and the work bound are bounded-checked only (see bounded_checks)',
]


def build(R):
    records.install(R)
    R.shape('DNSIncoming', {'data': 'bytes', 'view': 'bytes', '_data_len': 'int', 'offset': 'int', 'flags': 'int', 'id': 'int',
                            '_num_questions': 'int', '_num_answers': 'int', '_num_authorities': 'int', '_num_additionals': 'int',
                            '_questions': 'list[DNSQuestion]', '_answers': 'list[DNSRecord]', '_name_cache': 'dict[int, list[str]]',
                            'valid': 'bool', '_did_read_others': 'bool', 'now': 'real', 'source': 'object', 'scope_id': 'optint',
                            '_has_qu_question': 'bool'})
    R.spec('inc_ok', [('m', 'DNSIncoming')], 'bool', 'm.view == m.data and m._data_len == blen(m.data) and m.offset >= 0')
    FRAME = 'self.view == old(self.view) and self.data == old(self.data) and self._data_len == old(self._data_len)'
    R.contract(M, 'DNSIncoming._read_header', PROP, requires=['inc_ok(self)'], raises=dict(ERR),
               modifies=['self.offset', 'self.id', 'self.flags', 'self._num_questions', 'self._num_answers', 'self._num_authorities', 'self._num_additionals'],
               ensures_raise={'IndexError': ['inc_ok(self)'], 'IncomingDecodeError': ['inc_ok(self)']},
               ensures=['inc_ok(self)', 'self.offset == old(self.offset) + 12', 'self._data_len >= self.offset',
                        '0 <= self._num_questions and self._num_questions < 65536 and 0 <= self._num_answers and self._num_answers < 65536',
                        '0 <= self._num_authorities and self._num_authorities < 65536 and 0 <= self._num_additionals and self._num_additionals < 65536'])
    R.contract(M, 'DNSIncoming._decode_labels_at_offset', PROP,
               params={'off': 'int', 'labels': 'list[str]', 'seen_pointers': 'set[int]'}, returns='int',
               requires=['inc_ok(self)', 'off >= 0'], raises=dict(ERR), ensures_raise={'IndexError': ['inc_ok(self)'], 'IncomingDecodeError': ['inc_ok(self)']},
               modifies=['labels', 'seen_pointers', 'self._name_cache'],
               at_calls={
                   # bounded recursion: a pointer is followed (one more stack frame) only while fewer than 128 have been followed
                   'self._decode_labels_at_offset': ['card(seen_pointers) <= 128'],
               },
               ensures=['inc_ok(self)', 'result >= 1', 'forall("x:int", lambda x: implies(old(seen_pointers.has(x)), seen_pointers.has(x)))'],
               loops={0: Loop(inv=['off >= 0', 'inc_ok(self)', 'view == self.view',
                                   'forall("x:int", lambda x: implies(old(seen_pointers.has(x)), seen_pointers.has(x)))'],
                              modifies=['labels'])})
    R.contract(M, 'DNSIncoming._read_name', PROP, returns='str', requires=['inc_ok(self)'], raises=dict(ERR), ensures_raise={'IndexError': ['inc_ok(self)'], 'IncomingDecodeError': ['inc_ok(self)']},
               modifies=['self.offset', 'self._name_cache'],
               ensures=['inc_ok(self)', 'slen(result) <= 253', 'self.offset >= 1'])
    R.contract(M, 'DNSIncoming._read_string', PROP, params={'length': 'int'}, returns='bytes', requires=['inc_ok(self)', 'length >= 0'],
               modifies=['self.offset'], ensures=['inc_ok(self)'])
    R.contract(M, 'DNSIncoming._read_character_string', PROP, returns='str', requires=['inc_ok(self)'], raises=dict(ERR), ensures_raise={'IndexError': ['inc_ok(self)'], 'IncomingDecodeError': ['inc_ok(self)']},
               modifies=['self.offset'], ensures=['inc_ok(self)'])
    R.contract(M, 'DNSIncoming._read_bitmap', PROP, params={'end': 'int'}, returns='list[int]', requires=['inc_ok(self)'], raises=dict(ERR), ensures_raise={'IndexError': ['inc_ok(self)'], 'IncomingDecodeError': ['inc_ok(self)']},
               modifies=['self.offset'], ensures=['inc_ok(self)'], trusted=True,
               note='NSEC bitmap loop (untyped local list, byte-wise bit tests): ASSUMED to raise only IndexError and to move only the offset; '
                    'exercised by the bounded stand-in')
    R.contract(M, 'DNSIncoming._read_record', PROP,
               params={'domain': 'str', 'type_': 'int', 'class_': 'int', 'ttl': 'int', 'length': 'int'}, returns='opt[DNSRecord]',
               requires=['inc_ok(self)', 'length >= 0', 'slen(domain) <= 253'], raises=dict(ERR), ensures_raise={'IndexError': ['inc_ok(self)'], 'IncomingDecodeError': ['inc_ok(self)']},
               modifies=['self.offset', 'self._name_cache'],
               ensures=['inc_ok(self)', 'implies(result is not None, slen(result.name) <= 253 and fresh_obj(result))'])
    Q_OK0 = 'forall("j:int", lambda j: implies(0 <= j and j < len(self._questions), self._questions[j] is not None and slen(self._questions[j].name) <= 253))'
    R.contract(M, 'DNSIncoming._read_questions', PROP, requires=['inc_ok(self)', 'self._num_questions >= 0',
                                                                 'forall("j:int", lambda j: implies(0 <= j and j < len(self._questions), self._questions[j] is not None and slen(self._questions[j].name) <= 253))'],
               raises=dict(ERR), ensures_raise={'IndexError': ['inc_ok(self)', Q_OK0], 'IncomingDecodeError': ['inc_ok(self)', Q_OK0]},
               modifies=['self.offset', 'self._name_cache', 'self._questions', 'self._has_qu_question'],
               ensures=['inc_ok(self)', 'forall("j:int", lambda j: implies(0 <= j and j < len(self._questions), self._questions[j] is not None and slen(self._questions[j].name) <= 253))'],
               loops={0: Loop(inv=['inc_ok(self)', 'view == self.view', 'questions is self._questions' if False else 'True',
                                   'forall("j:int", lambda j: implies(0 <= j and j < len(self._questions), self._questions[j] is not None and slen(self._questions[j].name) <= 253))'],
                              modifies=['self.offset', 'self._name_cache', 'self._questions', 'self._has_qu_question'])})
    ANS_OK = 'forall("j:int", lambda j: implies(0 <= j and j < len(self._answers), self._answers[j] is not None and slen(self._answers[j].name) <= 253))'
    R.contract(M, 'DNSIncoming._read_others', PROP, requires=['inc_ok(self)', ANS_OK,
                                                              'self._num_answers >= 0 and self._num_authorities >= 0 and self._num_additionals >= 0'],
               raises=dict(ERR),
               modifies=['self.offset', 'self._name_cache', 'self._answers', 'self._did_read_others'],
               ensures=['inc_ok(self)', ANS_OK, 'self._did_read_others'],
               ensures_raise={'IndexError': ['inc_ok(self)', ANS_OK, 'self._did_read_others'], 'IncomingDecodeError': ['inc_ok(self)', ANS_OK, 'self._did_read_others']},
               loops={0: Loop(inv=['inc_ok(self)', 'view == self.view', ANS_OK, 'self._did_read_others'],
                              modifies=['self.offset', 'self._name_cache', 'self._answers'])})
    Q_OK = 'forall("j:int", lambda j: implies(0 <= j and j < len(self._questions), self._questions[j] is not None and slen(self._questions[j].name) <= 253))'
    R.contract(M, 'DNSIncoming._initial_parse', PROP, requires=['inc_ok(self)', 'self.offset == 0', 'len(self._questions) == 0 and len(self._answers) == 0'],
               raises=dict(ERR),
               modifies=['self.offset', 'self.id', 'self.flags', 'self._num_questions', 'self._num_answers', 'self._num_authorities', 'self._num_additionals',
                         'self._name_cache', 'self._questions', 'self._answers', 'self._has_qu_question', 'self._did_read_others', 'self.valid'],
               ensures=['inc_ok(self)', 'self.valid', Q_OK, ANS_OK, 'self._data_len >= 12'],
               ensures_raise={'IndexError': ['inc_ok(self)', 'self.valid == old(self.valid)', Q_OK, ANS_OK],
                              'IncomingDecodeError': ['inc_ok(self)', 'self.valid == old(self.valid)', Q_OK, ANS_OK]})
    # ---- the two entry points: NOTHING escapes ------------------------------------------------------------------------------------
    R.contract(M, 'DNSIncoming.__init__', PROP, params={'data': 'bytes', 'source': 'object', 'scope_id': 'optint', 'now': 'real'},
               raises={},          # total: no exception for any byte string
               modifies=['*'],
               ensures=['inc_ok(self) or True', 'self.data == data', Q_OK, ANS_OK,
                        # valid only if the header and every question parsed (and, for a message without questions, every record)
                        'implies(self.valid, blen(data) >= 12)'])
    R.contract(M, 'DNSIncoming.answers', PROP, returns='list[DNSRecord]', requires=['inc_ok(self)', ANS_OK,
                                                                                'self._num_answers >= 0 and self._num_authorities >= 0 and self._num_additionals >= 0'],
               raises={}, modifies=['self.offset', 'self._name_cache', 'self._answers', 'self._did_read_others'],
               ensures=[ANS_OK, 'self._did_read_others'])


def configure(ctx, R):
    records.configure(ctx)
    R.replays['C02/_protocol.incoming.DNSIncoming._decode_labels_at_offset/at-call'] = _replay_depth


NO_CONCRETE = {'*'}


# ---- replay of the recursion-depth obligation: a pointer chain of the required depth --------------------------------------------------
def pointer_chain(n):
    hdr = b'\x00\x00\x00\x00\x00\x01\x00\x00\x00\x00\x00\x00'
    body = bytearray()
    for k in range(n):
        target = 12 + 2 * (k + 1)
        body += bytes([0xC0 | (target >> 8), target & 0xFF])
    return hdr + bytes(body) + b'\x00' + b'\x00\x0c\x00\x01'


def _replay_depth(r, run):
    from zeroconf._protocol.incoming import DNSIncoming
    data = pointer_chain(1100)
    try:
        DNSIncoming(data)
    except BaseException as e:          # noqa: anything that escapes the constructor
        return {'reproduced': True, 'how': 'DNSIncoming(datagram) executed by CPython on the tree under verification',
                'failing_input': 'header with one question whose name is a chain of 1100 compression pointers (%d bytes)' % len(data),
                'input_hex_prefix': data[:40].hex(), 'raised': type(e).__name__}
    return {'reproduced': False}


# ---- bounded stand-in: totality and faithfulness against an independent strict RFC 1035 parser ---------------------------------------
class Reject(Exception):
    pass


def _strict_name(data, off, depth=0):
    """-> (labels, next offset); pointers must point strictly backwards (RFC 1035 4.1.4 "prior occurrence")"""
    labels = []
    start = off
    while True:
        if off >= len(data):
            raise Reject
        n = data[off]
        if n == 0:
            return labels, off + 1
        if n < 0x40:
            if off + 1 + n > len(data):
                raise Reject
            labels.append(bytes(data[off + 1:off + 1 + n]))
            off += 1 + n
            continue
        if n < 0xC0:
            raise Reject
        if off + 1 >= len(data):
            raise Reject
        link = ((n & 0x3F) << 8) | data[off + 1]
        if link >= start or depth > 120:
            raise Reject
        rest, _ = _strict_name(data, link, depth + 1)
        return labels + rest, off + 2


def _nm(labels):
    return '.'.join(l.decode('utf-8', 'replace') for l in labels) + '.'


def strict_parse(data):
    """-> (questions, records) or raises Reject.  questions: (name, type, class); records: (name, type, class, ttl, rdata-key)
    for the supported types, None for records of other types (skipped by the library)."""
    if len(data) < 12:
        raise Reject
    qd, an, ns, ar = [(data[i] << 8) | data[i + 1] for i in (4, 6, 8, 10)]
    off = 12
    qs, rs = [], []
    for _ in range(qd):
        labels, off = _strict_name(data, off)
        if off + 4 > len(data):
            raise Reject
        qs.append((_nm(labels), (data[off] << 8) | data[off + 1], (data[off + 2] << 8) | data[off + 3]))
        off += 4
    for _ in range(an + ns + ar):
        labels, off = _strict_name(data, off)
        if off + 10 > len(data):
            raise Reject
        t, c = (data[off] << 8) | data[off + 1], (data[off + 2] << 8) | data[off + 3]
        ttl = int.from_bytes(data[off + 4:off + 8], 'big')
        rdlen = (data[off + 8] << 8) | data[off + 9]
        off += 10
        end = off + rdlen
        if end > len(data):
            raise Reject
        rd = None
        if t == 1 and rdlen == 4:
            rd = bytes(data[off:end])
        elif t == 28 and rdlen == 16:
            rd = bytes(data[off:end])
        elif t in (5, 12):
            tl, e2 = _strict_name(data, off)
            if e2 != end:
                raise Reject
            rd = _nm(tl)
        elif t == 16:
            rd = bytes(data[off:end])
        elif t == 33:
            if rdlen < 7:
                raise Reject
            tl, e2 = _strict_name(data, off + 6)
            if e2 != end:
                raise Reject
            rd = (int.from_bytes(data[off:off + 2], 'big'), int.from_bytes(data[off + 2:off + 4], 'big'), int.from_bytes(data[off + 4:off + 6], 'big'), _nm(tl))
        elif t in (1, 28):
            raise Reject                        # address record with a wrong rdlength
        elif t == 13:
            # HINFO: exactly two <character-string>s filling the rdata (RFC 1035 3.3.2); the record itself is not compared
            p_ = off
            for _ in range(2):
                if p_ >= end or p_ + 1 + data[p_] > end:
                    raise Reject
                p_ += 1 + data[p_]
            if p_ != end:
                raise Reject
        elif t == 47:
            # NSEC: a name, then bitmap windows (window, length 1..32, bytes) filling the rdata (RFC 4034 4.1); not compared
            tl, p_ = _strict_name(data, off)
            while p_ < end:
                if p_ + 2 > end or not 1 <= data[p_ + 1] <= 32 or p_ + 2 + data[p_ + 1] > end:
                    raise Reject
                p_ += 2 + data[p_ + 1]
            if p_ != end:
                raise Reject
        # HINFO, NSEC (well-formedness only, above) and unknown types: rdata not compared
        rs.append(None if rd is None else (_nm(labels), t, c, ttl, rd))
        off = end
    if off != len(data):
        raise Reject
    return qs, rs


def _lib_view(m):
    from zeroconf._dns import DNSAddress, DNSPointer, DNSText, DNSService
    qs = [(q.name, q.type, q.class_ | (0x8000 if q.unique else 0)) for q in m.questions]
    rs = []
    for r in m.answers():
        c = r.class_ | (0x8000 if r.unique else 0)
        if isinstance(r, DNSAddress):
            rs.append((r.name, r.type, c, r.ttl, r.address))
        elif isinstance(r, DNSPointer):
            rs.append((r.name, r.type, c, r.ttl, r.alias))
        elif isinstance(r, DNSText):
            rs.append((r.name, r.type, c, r.ttl, r.text))
        elif isinstance(r, DNSService):
            rs.append((r.name, r.type, c, r.ttl, (r.priority, r.weight, r.port, r.server)))
        else:
            rs.append(('other', r.type))
    return qs, rs


def bounded_checks(run, tier, seed):
    import itertools
    import random
    from zeroconf._protocol.incoming import DNSIncoming
    viol = {}
    n = 0

    def one(data, kind):
        nonlocal n
        n += 1
        try:
            m = DNSIncoming(data)
            lib_q, lib_r = _lib_view(m)
        except BaseException as e:      # noqa
            viol.setdefault('raises-' + type(e).__name__, {'signature': 'raises-' + type(e).__name__, 'kind': kind, 'input_hex': data[:64].hex(), 'len': len(data)})
            return
        if any(len(q[0]) > 253 for q in lib_q) or any(len(r[0]) > 253 for r in lib_r if r[0] != 'other'):
            viol.setdefault('name-too-long', {'signature': 'name-too-long', 'kind': kind, 'input_hex': data[:64].hex()})
        try:
            sq, sr = strict_parse(data)
        except Reject:
            return
        sr = [r for r in sr if r is not None]
        if not m.valid or lib_q != sq or [r for r in lib_r if r[0] != 'other'] != sr:
            viol.setdefault('differs-from-strict-parser', {'signature': 'differs-from-strict-parser', 'kind': kind, 'input_hex': data.hex()[:200],
                                                           'library': repr((m.valid, lib_q, lib_r))[:300], 'strict': repr((sq, sr))[:300]})
    alpha = [0x00, 0x01, 0x03, 0x0C, 0xC0, 0xFF, 0x61]
    L = 5 if tier == 'quick' else 7
    for hdr in (b'\x00\x00\x00\x00\x00\x01\x00\x00\x00\x00\x00\x00', b'\x00\x00\x84\x00\x00\x00\x00\x01\x00\x00\x00\x00'):
        for k in range(0, L + 1):
            for tup in itertools.product(alpha, repeat=k):
                one(hdr + bytes(tup), 'small-alphabet')
    # compression graphs: chains, cycles, self and forward references
    for depth in (1, 2, 5, 127, 128, 129, 130, 600, 1100, 4000):
        one(pointer_chain(depth), 'pointer-chain-%d' % depth)
    hdr = b'\x00\x00\x00\x00\x00\x01\x00\x00\x00\x00\x00\x00'
    for body in (b'\xc0\x0c', b'\xc0\x0e\xc0\x0c', b'\xc0\x10\x00\x00\xc0\x0c', b'\x01a\xc0\x0c', b'\xc0\xff', b'\x3f' + b'a' * 63 + b'\x00', b'\x40' + b'a' * 64 + b'\x00'):
        one(hdr + body + b'\x00\x0c\x00\x01', 'graph')
    # encoder output, truncated and bit-flipped
    from zeroconf._protocol.outgoing import DNSOutgoing
    from zeroconf._dns import DNSQuestion, DNSAddress, DNSPointer, DNSText, DNSService
    from zeroconf import const
    out = DNSOutgoing(const._FLAGS_QR_RESPONSE | const._FLAGS_AA)
    out.add_answer_at_time(DNSPointer('_x._tcp.local.', const._TYPE_PTR, const._CLASS_IN, 4500, 'Inst._x._tcp.local.'), 0)
    out.add_answer_at_time(DNSService('Inst._x._tcp.local.', const._TYPE_SRV, const._CLASS_IN | const._CLASS_UNIQUE, 120, 1, 2, 80, 'host.local.'), 0)
    out.add_answer_at_time(DNSText('Inst._x._tcp.local.', const._TYPE_TXT, const._CLASS_IN | const._CLASS_UNIQUE, 4500, b'\x03a=1'), 0)
    out.add_answer_at_time(DNSAddress('host.local.', const._TYPE_A, const._CLASS_IN | const._CLASS_UNIQUE, 120, b'\x0a\x00\x00\x01'), 0)
    out.add_answer_at_time(DNSAddress('host.local.', const._TYPE_AAAA, const._CLASS_IN | const._CLASS_UNIQUE, 120, b'\xfe\x80' + b'\x00' * 13 + b'\x01'), 0)
    pkt = out.packets()[0]
    q = DNSOutgoing(const._FLAGS_QR_QUERY)
    q.add_question(DNSQuestion('_x._tcp.local.', const._TYPE_PTR, const._CLASS_IN))
    q.add_question(DNSQuestion('Inst._x._tcp.local.', const._TYPE_SRV, const._CLASS_IN | const._CLASS_UNIQUE))
    qp = q.packets()[0]
    for base, kind in ((pkt, 'response'), (qp, 'query')):
        one(base, kind)
        for cut in range(len(base)):
            one(base[:cut], kind + '-truncated')
        rng = random.Random(seed)
        flips = range(len(base) * 8) if tier != 'quick' else rng.sample(range(len(base) * 8), min(400, len(base) * 8))
        for b in flips:
            d = bytearray(base)
            d[b // 8] ^= 1 << (b % 8)
            one(bytes(d), kind + '-bitflip')
    # offset sweep: a padding record of 1..300 bytes moves later names (and the mid-name pointer targets in them) through every offset residue,
    # below and above 256; names share suffixes so that the encoder emits pointers into the middle of earlier names
    from zeroconf._dns import DNSNsec
    for pad in range(1, 301):
        o = DNSOutgoing(const._FLAGS_QR_RESPONSE | const._FLAGS_AA)
        o.add_answer_at_time(DNSPointer('_x._tcp.local.', const._TYPE_PTR, const._CLASS_IN, 4500, 'Inst._x._tcp.local.'), 0)
        o.add_answer_at_time(DNSText('Inst._x._tcp.local.', const._TYPE_TXT, const._CLASS_IN | const._CLASS_UNIQUE, 4500, bytes([pad % 256]) * pad), 0)
        o.add_answer_at_time(DNSAddress('printer.office.example.', const._TYPE_A, const._CLASS_IN | const._CLASS_UNIQUE, 120, b'\x0a\x00\x00\x01'), 0)
        o.add_answer_at_time(DNSAddress('other.office.example.', const._TYPE_A, const._CLASS_IN | const._CLASS_UNIQUE, 120, b'\x0a\x00\x00\x02'), 0)
        o.add_answer_at_time(DNSAddress('third.local.', const._TYPE_A, const._CLASS_IN | const._CLASS_UNIQUE, 120, b'\x0a\x00\x00\x03'), 0)
        o.add_answer_at_time(DNSAddress('fourth._tcp.local.', const._TYPE_A, const._CLASS_IN | const._CLASS_UNIQUE, 120, b'\x0a\x00\x00\x04'), 0)
        o.add_answer_at_time(DNSService('Inst._x._tcp.local.', const._TYPE_SRV, const._CLASS_IN | const._CLASS_UNIQUE, 120, 0, 0, 80, 'host.office.example.'), 0)
        o.add_answer_at_time(DNSPointer('_x._tcp.local.', const._TYPE_PTR, const._CLASS_IN, 4500, 'Second._x._tcp.local.'), 0)
        for pk in o.packets():
            one(pk, 'offset-sweep-%d' % pad)
    return {'decoder-totality-and-faithfulness': {
        'evaluations': n, 'violations': list(viol.values()),
        'bound': 'every byte string over %s of length <= %d behind a query header (1 question) and a response header (1 answer); pointer '
                 'chains of depth 1..4000 and small compression graphs; one encoder-made response (PTR, SRV, TXT, A, AAAA) and query with every '
                 'truncation and %s single-bit flips; 300 eight-record responses whose later names are shifted through every offset residue by a padding record; compared with an independent strict RFC 1035 parser whenever that accepts'
                 % ([hex(a) for a in alpha], L, 'all' if tier != 'quick' else '400 random')}}
