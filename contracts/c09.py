"""C09 - registration probes first, detects conflicts, then announces completely.  (Also the base of C08: the record builders,
_add_broadcast_answer, generate_service_broadcast and _async_broadcast_service are shared.)

Functions under contract: ServiceInfo._dns_pointer / _dns_service / _dns_text / _dns_nsec and the name setter (memo soundness:
a cached record always shows the CURRENT fields), Zeroconf.generate_service_query, async_check_service (await model: probe
loop), _add_broadcast_answer, generate_service_broadcast, _async_broadcast_service, async_register_service."""
import z3
from pyvc.contracts import Loop
from pyvc.core import Sc, RefV, NoneV, Cont, FieldLoc, PyConst, FuncV, VCError, fresh
from pyvc.types import Ref, NONE, ref, BOOL, INT, REAL, STR, Str
from contracts import records, loop_model, cache_model, registry_model, await_model

PROP = 'C09'
CORE = 'zeroconf._core'
I = 'zeroconf._services.info'
ASSUMPTIONS = [
    'A5 await model; Zeroconf.async_wait(t) returns within max(t, 0) ms of the ideal clock or earlier (notified); while waiting the '
    'cache may learn records (whole heap havocked) but the service being registered is not mutated by others',
    'ServiceInfo.get_address_and_nsec_records / _dns_addresses (comprehension over ipaddress objects, sets) are assumed by contract: '
    'every record carries the override TTL when one is given; checked on the real code by the bounded concrete harness only',
    'instance_name_from_service_info / service_type_name (C19) are abstracted: they return a string or raise BadTypeInNameException',
    'the f-string that builds the renamed instance is an opaque string (the "-N" numbering is not proved; that the NEW name is probed '
    'three times from scratch is)',
    'asyncio.ensure_future(coro): the coroutine\'s contract is applied at the call (its sends happen from that instant on)',
    'Optional[str] server modelled as a string (None = empty string); TTLs are numbers >= 0',
]


def _opaque_str(ex, args, kwargs, st, frame, node):
    ex.pend_raise(st.fork(), z3.BoolVal(True), 'BadTypeInNameException', frame, node)
    yield st, Sc(fresh('svcname', Str), STR)


def _zc_wait(ex, recv, args, kwargs, st, frame, node):
    """Zeroconf.async_wait(timeout_ms): an await point that ends at most max(timeout, 0) ms later (ideal clock)"""
    clock = ex.ctx.ghost_objects['CLOCK']
    fs = ex.ctx.shapes.field('VClock', 'now')
    now0 = z3.Select(st.heap_arr(fs.fid, fs.t.sort()), clock.term)
    t = ex.term(args[0], st, REAL)
    await_model.await_point(ex, st, frame, node)
    now1 = z3.Select(st.heap_arr(fs.fid, fs.t.sort()), clock.term)
    st.assume(now1 <= now0 + z3.If(t > 0, t, 0))
    yield st, NoneV()


def _ensure_future(ex, args, kwargs, st, frame, node):
    yield st, RefV(fresh('task', Ref), ref('object'), False)


def build(R, prop=PROP):
    records.install(R)
    registry_model.install(R)
    registry_model.install_getters(R)
    cache_model.install(R)
    cache_model.install_flush_specs(R)
    cache_model.install_lookups(R)
    loop_model.install(R)
    await_model.install(R)
    from contracts.common import stub
    from contracts import outgoing_model
    outgoing_model.install_shapes(R)
    R.shape('Zeroconf', {'cache': 'DNSCache', 'registry': 'ServiceRegistry', 'loop': 'opt[EventLoop]', 'done': 'bool'})
    R.shape('ServiceInfo', {'g_probed': 'bool'})
    R.stubs[CORE + ':instance_name_from_service_info'] = stub(_opaque_str)
    R.stubs[CORE + ':service_type_name'] = stub(_opaque_str)
    R.stubs['method:Zeroconf.async_wait'] = _zc_wait
    R.stubs['asyncio.ensure_future'] = stub(_ensure_future)
    install_builders(R, prop)
    install_announce(R, prop)
    if prop == PROP:
        install_probe(R)


# a memoised record, if present, shows the current fields of the service (so a probe / announcement / goodbye built from it is
# about the CURRENT name, TTLs and rdata)
def install_builders(R, prop):
    from pyvc.types import OPTINT

    def _ttl_or(ex, st, o, default):
        ot = ex.term(o, st, OPTINT)
        return Sc(z3.If(OPTINT.acc('oi_some')(ot), z3.ToReal(OPTINT.acc('oi_val')(ot)), ex.term(default, st, REAL)), REAL)
    # the TTL a builder uses: the override when given, else the service's own
    R.spec('ttl_or', [('o', 'optint'), ('d', 'real')], 'real', _ttl_or, concrete=lambda o, d: d if o is None else o)
    R.spec('memo_ok', [('s', 'ServiceInfo')], 'bool',
           'implies(s._dns_pointer_cache is not None, allocated(s._dns_pointer_cache) and s._dns_pointer_cache.name == s.type and s._dns_pointer_cache.alias == s._name '
           '   and s._dns_pointer_cache.ttl == s.other_ttl and s._dns_pointer_cache.type == 12 and s._dns_pointer_cache.class_ == 1 '
           '   and not s._dns_pointer_cache.unique) and '
           'implies(s._dns_service_cache is not None, allocated(s._dns_service_cache) and s._dns_service_cache.name == s._name and s._dns_service_cache.ttl == s.host_ttl '
           '   and s._dns_service_cache.port == s.port and s._dns_service_cache.type == 33 and s._dns_service_cache.class_ == 1 and s._dns_service_cache.unique) and '
           'implies(s._dns_text_cache is not None, allocated(s._dns_text_cache) and s._dns_text_cache.name == s._name and s._dns_text_cache.ttl == s.other_ttl '
           '   and s._dns_text_cache.text == s.text and s._dns_text_cache.type == 16 and s._dns_text_cache.class_ == 1 and s._dns_text_cache.unique)')
    TTLO = 'ttl_or(override_ttl, self.other_ttl)'
    TTLH = 'ttl_or(override_ttl, self.host_ttl)'
    R.contract(I, 'ServiceInfo._dns_pointer', prop, params={'override_ttl': 'optint'}, returns='DNSPointer',
               requires=['memo_ok(self)'], modifies=['self._dns_pointer_cache'],
               ensures=['memo_ok(self)', 'result is not None and cls_is(result, DNSPointer)',
                        # PTR: <type> -> <instance>, class IN WITHOUT the cache-flush bit, the service's "other" TTL unless overridden
                        'result.name == self.type and result.alias == self._name and result.type == 12 and result.class_ == 1 and not result.unique',
                        'result.ttl == %s' % TTLO,
                        # without an override the record is the memo (built once per state of the service)
                        'implies(override_ttl is None, self._dns_pointer_cache is result)'])
    R.contract(I, 'ServiceInfo._dns_service', prop, params={'override_ttl': 'optint'}, returns='DNSService',
               requires=['memo_ok(self)'], modifies=['self._dns_service_cache'],
               ensures=['memo_ok(self)', 'result is not None and cls_is(result, DNSService)',
                        # SRV: instance name, cache-flush bit set, host TTL unless overridden, current port
                        'result.name == self._name and result.type == 33 and result.class_ == 1 and result.unique and result.port == self.port',
                        'result.ttl == %s' % TTLH,
                        # without an override the record is the memo (built once per state of the service)
                        'implies(override_ttl is None, self._dns_service_cache is result)'])
    R.contract(I, 'ServiceInfo._dns_text', prop, params={'override_ttl': 'optint'}, returns='DNSText',
               requires=['memo_ok(self)'], modifies=['self._dns_text_cache'],
               ensures=['memo_ok(self)', 'result is not None and cls_is(result, DNSText)',
                        'result.name == self._name and result.type == 16 and result.class_ == 1 and result.unique and result.text == self.text',
                        'result.ttl == %s' % TTLO,
                        # without an override the record is the memo (built once per state of the service)
                        'implies(override_ttl is None, self._dns_text_cache is result)'])
    for nm in ('dns_pointer', 'dns_service', 'dns_text'):
        c = R.contracts[(I, 'ServiceInfo._' + nm)]
        R.contract(I, 'ServiceInfo.' + nm, prop, params={'override_ttl': 'optint'}, returns=c.returns,
                   requires=list(c.requires), modifies=list(c.modifies), ensures=list(c.ensures))
    R.contract(I, 'ServiceInfo.name.setter', prop, params={'name': 'str'}, requires=['memo_ok(self)'],
               modifies=['self._name', 'self.key', 'self._dns_service_cache', 'self._dns_pointer_cache', 'self._dns_text_cache'],
               ensures=['memo_ok(self)', 'self._name == name and self.key == lower(name)'])
    # address + NSEC records: assumed (see ASSUMPTIONS); every record carries the override TTL when one is given
    R.contract(I, 'ServiceInfo.get_address_and_nsec_records', prop, params={'override_ttl': 'optint'}, returns='set[DNSRecord]',
               trusted=True, modifies=[],
               ensures=['forall("i:ident", lambda i: implies(result.has(i), result.keyobj(i) is not None and ident(result.keyobj(i)) == i '
                        '   and (i.type == 1 or i.type == 28 or i.type == 47) and result.keyobj(i).unique '
                        '   and result.keyobj(i).ttl == ttl_or(override_ttl, self.host_ttl)))'],
               note='address records of the host and the NSEC record for the missing address types, with the host TTL or the override')
    c = R.contracts[(I, 'ServiceInfo.get_address_and_nsec_records')]
    R.contract(I, 'ServiceInfo._get_address_and_nsec_records', prop, params={'override_ttl': 'optint'}, returns='set[DNSRecord]',
               trusted=True, modifies=[], ensures=list(c.ensures), note=c.note)


def install_announce(R, prop):
    NA = 'old(len(out.answers))'
    EXTRA = 'info.get_address_and_nsec_records(override_ttl)'
    HEAD3 = [
        'cls_is(out.answers[%s][0], DNSPointer) and as_(out.answers[%s][0], DNSPointer).alias == info._name and out.answers[%s][0].name == info.type '
        '   and out.answers[%s][0].ttl == ttl_or(override_ttl, info.other_ttl) and not out.answers[%s][0].unique' % (NA, NA, NA, NA, NA),
        'cls_is(out.answers[%s + 1][0], DNSService) and out.answers[%s + 1][0].name == info._name and out.answers[%s + 1][0].unique '
        '   and out.answers[%s + 1][0].ttl == ttl_or(override_ttl, info.host_ttl)' % (NA, NA, NA, NA),
        'cls_is(out.answers[%s + 2][0], DNSText) and out.answers[%s + 2][0].name == info._name and out.answers[%s + 2][0].unique '
        '   and out.answers[%s + 2][0].ttl == ttl_or(override_ttl, info.other_ttl)' % (NA, NA, NA, NA)]
    R.contract(CORE, 'Zeroconf._add_broadcast_answer', prop,
               params={'out': 'DNSOutgoing', 'info': 'ServiceInfo', 'override_ttl': 'optint', 'broadcast_addresses': 'bool'},
               requires=['out is not None and info is not None and memo_ok(info)', 'info.other_ttl >= 0 and info.host_ttl >= 0',
                         'override_ttl is None or override_ttl >= 0'],
               modifies=['out.answers', 'info._dns_pointer_cache', 'info._dns_service_cache', 'info._dns_text_cache'],
               ensures=[
                   'memo_ok(info)', 'len(out.answers) >= %s + 3' % NA,
                   # PTR, SRV, TXT of the service, in that order, each with the override TTL when given (0 = goodbye) ...
                   'cls_is(out.answers[%s][0], DNSPointer) and as_(out.answers[%s][0], DNSPointer).alias == info._name and out.answers[%s][0].name == info.type '
                   '   and out.answers[%s][0].ttl == ttl_or(override_ttl, info.other_ttl) and not out.answers[%s][0].unique' % (NA, NA, NA, NA, NA),
                   'cls_is(out.answers[%s + 1][0], DNSService) and out.answers[%s + 1][0].name == info._name and out.answers[%s + 1][0].unique '
                   '   and out.answers[%s + 1][0].ttl == ttl_or(override_ttl, info.host_ttl)' % (NA, NA, NA, NA),
                   'cls_is(out.answers[%s + 2][0], DNSText) and out.answers[%s + 2][0].name == info._name and out.answers[%s + 2][0].unique '
                   '   and out.answers[%s + 2][0].ttl == ttl_or(override_ttl, info.other_ttl)' % (NA, NA, NA, NA),
                   # ... followed by the address and NSEC records iff asked for, with the (overridden) host TTL and the cache-flush bit
                   'implies(not broadcast_addresses, len(out.answers) == %s + 3)' % NA,
                   'forall("p:int", lambda p: implies(%s + 3 <= p and p < len(out.answers), out.answers[p][0] is not None '
                   '   and (out.answers[p][0].type == 1 or out.answers[p][0].type == 28 or out.answers[p][0].type == 47) and out.answers[p][0].unique '
                   '   and out.answers[p][0].ttl == ttl_or(override_ttl, info.host_ttl)))' % NA,
                   'forall("p:int", lambda p: implies(0 <= p and p < %s, out.answers[p][0] is old(out.answers[p][0]) and out.answers[p][1] == old(out.answers[p][1])))' % NA,
                   'forall("p:int", lambda p: implies(%s <= p and p < len(out.answers), out.answers[p][1] == 0))' % NA],
               loops={0: Loop(inv=HEAD3 + [
                   'len(out.answers) == %s + 3 + _k0' % NA, 'memo_ok(info)',
                   'forall("p:int", lambda p: implies(%s + 3 <= p and p < len(out.answers), out.answers[p][0] is _it0[p - %s - 3] and out.answers[p][1] == 0))' % (NA, NA),
                   'forall("p:int", lambda p: implies(0 <= p and p < %s, out.answers[p][0] is old(out.answers[p][0]) and out.answers[p][1] == old(out.answers[p][1])))' % NA,
                   'forall("p:int", lambda p: implies(%s <= p and p < %s + 3, out.answers[p][1] == 0))' % (NA, NA),
                   'forall("m:int", lambda m: implies(0 <= m and m < len(_it0), _it0[m] is not None and (_it0[m].type == 1 or _it0[m].type == 28 or _it0[m].type == 47) '
                   '   and _it0[m].unique and _it0[m].ttl == ttl_or(override_ttl, info.host_ttl) and _it0[m].ttl >= 0))'],
                              modifies=['out.answers'])})
    R.contract(CORE, 'Zeroconf.generate_service_broadcast', prop,
               params={'info': 'ServiceInfo', 'ttl': 'optint', 'broadcast_addresses': 'bool'}, returns='DNSOutgoing',
               requires=['info is not None and memo_ok(info)', 'info.other_ttl >= 0 and info.host_ttl >= 0', 'ttl is None or ttl >= 0'],
               modifies=['info._dns_pointer_cache', 'info._dns_service_cache', 'info._dns_text_cache'],
               ensures=['memo_ok(info)', 'result is not None and fresh_obj(result) and result.multicast and result.flags == 33792 and len(result.questions) == 0',
                        'len(result.answers) >= 3 and cls_is(result.answers[0][0], DNSPointer) and as_(result.answers[0][0], DNSPointer).alias == info._name '
                        '   and cls_is(result.answers[1][0], DNSService) and cls_is(result.answers[2][0], DNSText)',
                        'implies(not broadcast_addresses, len(result.answers) == 3)',
                        # with an override TTL every record of the message carries it (ttl 0: a complete goodbye)
                        'implies(ttl is not None, forall("p:int", lambda p: implies(0 <= p and p < len(result.answers), result.answers[p][0].ttl == ttl_or(ttl, 0))))',
                        # cache-flush bit on everything but the PTR record
                        'not result.answers[0][0].unique and forall("p:int", lambda p: implies(1 <= p and p < len(result.answers), result.answers[p][0].unique))'])
    S0 = 'old(len(SENT.events))'
    R.contract(CORE, 'Zeroconf._async_broadcast_service', prop,
               params={'info': 'ServiceInfo', 'interval': 'int', 'ttl': 'optint', 'broadcast_addresses': 'bool'},
               requires=['info is not None and memo_ok(info) and allocated(info)', 'info.other_ttl >= 0 and info.host_ttl >= 0', 'ttl is None or ttl >= 0',
                         'interval >= 0'],
               modifies=['*'],
               at_calls={'self.generate_service_broadcast@args': ['_arg0 is info and _arg1 == ttl and _arg2 == broadcast_addresses']},
               ensures=[
                   # three transmissions `interval` ms apart; the coroutine ends at the instant of the third
                   'exists("a:int, b:int, c:int", lambda a, b, c: %s <= a and a < b and b < c and c < len(SENT.events) '
                   '   and SENT.events[a][0] == old(CLOCK.now) and SENT.events[b][0] == old(CLOCK.now) + interval and SENT.events[c][0] == old(CLOCK.now) + 2 * interval '
                   '   and not SENT.events[a][2] and not SENT.events[b][2] and not SENT.events[c][2])' % S0,
                   'CLOCK.now == old(CLOCK.now) + 2 * interval',
                   'len(SENT.events) > %s and SENT.events[len(SENT.events) - 1][0] == CLOCK.now' % S0])
    R.contracts[(CORE, 'Zeroconf._async_broadcast_service')].rely = [
        'memo_ok(info)', 'info.other_ttl == old(info.other_ttl) and info.host_ttl == old(info.host_ttl)']


def install_probe(R):
    R.contract(CORE, 'Zeroconf.generate_service_query', PROP, params={'info': 'ServiceInfo'}, returns='DNSOutgoing',
               requires=['info is not None and memo_ok(info)'], modifies=['info._dns_pointer_cache'],
               ensures=['memo_ok(info)', 'result is not None and fresh_obj(result)',
                        # one QU PTR question for the type, the proposed pointer in the authority section, nothing else
                        'len(result.questions) == 1 and result.questions[0].type == 12 and result.questions[0].class_ == 1 and result.questions[0].unique '
                        '   and result.questions[0].name == info.type',
                        'len(result.authorities) == 1 and result.authorities[0].alias == info._name and result.authorities[0].name == info.type',
                        'len(result.answers) == 0 and len(result.additionals) == 0', 'mod(div(result.flags, 32768), 2) == 0'])
    CONFLICT = ('exists("c:ident", lambda c: in_cache(self.cache, c) and c.key == lower(info.type) and c.type == 12 '
                'and cls_is(cached(self.cache, c), DNSPointer) and as_(cached(self.cache, c), DNSPointer).alias == info._name '
                'and not expired(cached(self.cache, c), CLOCK.now))')
    R.contract(CORE, 'Zeroconf.async_check_service', PROP,
               params={'info': 'ServiceInfo', 'allow_name_change': 'bool', 'cooperating_responders': 'bool', 'strict': 'bool'},
               requires=['info is not None and memo_ok(info) and allocated(info)', 'self.cache is not None and allocated(self.cache) and wf_cache(self.cache) and typed_cache(self.cache)'],
               modifies=['*'], ghost_out={'i': 'int'},
               raises={'NonUniqueNameException': 'not allow_name_change', 'BadTypeInNameException': 'True'},
               at_calls={
                   # a probe goes out only at its scheduled instant, only while fewer than three have been sent for the current name,
                   # and only if at that very instant no unexpired pointer for this instance name is in the cache
                   'self.async_send': ['i < 3', 'now == next_time and now == CLOCK.now', 'not %s' % CONFLICT],
               },
               ensures=[
                   # returns normally only after three probes for the FINAL name (or for cooperating responders)
                   'cooperating_responders or i == 3', 'memo_ok(info)', 'info.other_ttl == old(info.other_ttl) and info.host_ttl == old(info.host_ttl)', 'self.registry is old(self.registry)'],
               loops={0: Loop(inv=['0 <= i and i <= 3', 'now == CLOCK.now', 'now <= next_time', 'memo_ok(info)',
                                   'info.other_ttl == old(info.other_ttl) and info.host_ttl == old(info.host_ttl)', 'self.registry is old(self.registry)',
                                   'self.cache is not None and wf_cache(self.cache) and typed_cache(self.cache)', 'next_instance_number >= 2'],
                              modifies=['*']),
                      1: Loop(inv=['0 <= i and i < 3', 'now == CLOCK.now', 'now <= next_time', 'memo_ok(info)',
                                   'self.cache is not None and wf_cache(self.cache) and typed_cache(self.cache)', 'next_instance_number >= 2'],
                              modifies=['info._name', 'info.key', 'info._dns_service_cache', 'info._dns_pointer_cache', 'info._dns_text_cache'])})
    # A5: the conflict lookup reads the clock of the current atomic step
    R.contracts[('zeroconf._cache', 'DNSCache.current_entry_with_name_and_alias')].ensures.append('now == CLOCK.now')
    # (the conflict lookup itself - an unexpired pointer of that name with exactly that alias - is verified in the C05 check)
    R.contracts[(CORE, 'Zeroconf.async_check_service')].rely = [
        'info.other_ttl == old(info.other_ttl) and info.host_ttl == old(info.host_ttl)', 'self.registry is old(self.registry)',
        'memo_ok(info)', 'self.cache is old(self.cache)', 'wf_cache(self.cache) and typed_cache(self.cache)']
    R.contract(CORE, 'Zeroconf.async_wait_for_start', PROP, trusted=True, modifies=['*'], note='await point',
               ensures=['forall("s:ServiceInfo", lambda s: implies(old(allocated(s)) and old(memo_ok(s)), memo_ok(s)))',
                        'self.cache is old(self.cache) and self.registry is old(self.registry)',
                        'forall("s:ServiceInfo", lambda s: implies(old(allocated(s)), s.other_ttl == old(s.other_ttl) and s.host_ttl == old(s.host_ttl)))',
                        'implies(old(self.cache is not None and wf_cache(self.cache) and typed_cache(self.cache)), wf_cache(self.cache) and typed_cache(self.cache))'])
    R.contract('zeroconf._services.registry', 'ServiceRegistry.async_add', 'C03', params={'info': 'ServiceInfo'}, trusted=True,
               modifies=['*'], raises={'ServiceNameAlreadyRegistered': 'True'},
               ensures=['info.other_ttl == old(info.other_ttl) and info.host_ttl == old(info.host_ttl)', 'memo_ok(info)'],
               note='C03 (verified there): adds the service to the name/type/host indexes, raises ServiceNameAlreadyRegistered for a name already '
                    'held (one instance never holds a name twice), and clears the record memos')
    R.contract(I, 'ServiceInfo.set_server_if_missing', PROP, trusted=True, modifies=['self.server', 'self.server_key'], note='sets the host name to the instance name when absent')
    R.contract(CORE, 'Zeroconf.async_register_service', PROP,
               params={'info': 'ServiceInfo', 'ttl': 'optint', 'allow_name_change': 'bool', 'cooperating_responders': 'bool', 'strict': 'bool'},
               returns='object',
               requires=['info is not None and memo_ok(info) and allocated(info) and not probed', 'self.registry is not None',
                         'info.other_ttl >= 0 and info.host_ttl >= 0 and (ttl is None or ttl >= 0)',
                         'self.cache is not None and allocated(self.cache) and wf_cache(self.cache) and typed_cache(self.cache)',
                         # a TTL given here is written into the service before anything is built from it: no record memo may exist yet
                         'implies(ttl is not None, info._dns_pointer_cache is None and info._dns_service_cache is None and info._dns_text_cache is None)'],
               ghost={'probed': 'bool'}, modifies=['*'],
               raises={'NonUniqueNameException': 'not allow_name_change', 'BadTypeInNameException': 'True', 'ServiceNameAlreadyRegistered': 'True',
                       'NotRunningException': 'True'},
               at_calls={'self.async_check_service': ['ghost: probed = True'],
                         # the service enters the registry (and is answered for / announced) only after the probes
                         'self.registry.async_add': ['probed'],
                         'self._async_broadcast_service': ['probed'],
                         'self._async_broadcast_service@args': ['_arg0 is info and _arg1 == 225 and _arg2 is None']},
               ensures=[])


def configure(ctx, R):
    records.configure(ctx)
    await_model.configure(ctx)


NO_CONCRETE = {'*'}
