"""Abstract record model used by every property except C20 (DESIGN.md 3.1).

ident(r) : Ident = mk_ident(kind, key, type, class, rdata) is an immutable function of the object.  C20 proves
(raw model) that the constructors establish exactly these fields, that __eq__ is equality of this tuple,
that __hash__ is a function of it, and (static scan) that nothing assigns identity fields afterwards.
Here: identity fields are read through ident(r); name/alias/server (original spelling) are immutable
functions of the object; ttl/created/unique are mutable heap fields; `a == b`, hashing and dict/set lookups
on records go through ident.
"""
import z3
from pyvc.core import Sc, RefV, NoneV, PyConst, FuncV, Cont, TupleV, VCError, fresh
from pyvc.types import (T, INT, REAL, BOOL, STR, BYTES, OPTINT, IDENT, Ref, Str, Bytes, NONE, Ident, RData, IntList,
                        ident_of, cls_of, lower, ref, OptInt,
                        KIND_QUESTION, KIND_ADDR, KIND_HINFO, KIND_PTR, KIND_TEXT, KIND_SRV, KIND_NSEC)

RECORD_CLASSES = {'DNSEntry', 'DNSQuestion', 'DNSRecord', 'DNSAddress', 'DNSHinfo', 'DNSPointer', 'DNSText',
                  'DNSService', 'DNSNsec'}
LEAF = {'DNSQuestion': (KIND_QUESTION, 'RD_None'), 'DNSAddress': (KIND_ADDR, 'RD_Addr'),
        'DNSHinfo': (KIND_HINFO, 'RD_Hinfo'), 'DNSPointer': (KIND_PTR, 'RD_Ptr'), 'DNSText': (KIND_TEXT, 'RD_Text'),
        'DNSService': (KIND_SRV, 'RD_Srv'), 'DNSNsec': (KIND_NSEC, 'RD_Nsec')}

i_kind, i_key, i_type, i_class, i_rdata = [Ident.accessor(0, i) for i in range(5)]
mk_ident = Ident.constructor(0)


def rd_cons(name):
    for i in range(RData.num_constructors()):
        if RData.constructor(i).name() == name:
            return RData.constructor(i), RData.recognizer(i), [RData.accessor(i, j) for j in range(RData.constructor(i).arity())]
    raise KeyError(name)


C_name = z3.Function('C_DNSEntry.name', Ref, Str)
C_alias = z3.Function('C_DNSPointer.alias', Ref, Str)
C_server = z3.Function('C_DNSService.server', Ref, Str)


def _derived(fn, t):
    return (t, {'kind': 'derived', 'fn': fn})


def _id_field(acc, tstr):
    from pyvc.types import parse_type
    t = parse_type(tstr)
    return _derived(lambda ex, v, st, acc=acc, t=t: ex.wrap(acc(ident_of(v.term)), t), tstr)


def _rd_field(cons, idx, tstr):
    from pyvc.types import parse_type
    t = parse_type(tstr)
    _, _, accs = rd_cons(cons)
    a = accs[idx]
    return _derived(lambda ex, v, st, a=a, t=t: ex.wrap(a(i_rdata(ident_of(v.term))), t), tstr)


def _const_field(f, tstr):
    from pyvc.types import parse_type
    t = parse_type(tstr)
    return _derived(lambda ex, v, st, f=f, t=t: ex.wrap(f(v.term), t), tstr)


def install(R):
    R.record_classes |= RECORD_CLASSES
    R.abstract |= {'DNSEntry', 'DNSRecord'}
    R.shape('DNSEntry', {'key': _id_field(i_key, 'str'), 'type': _id_field(i_type, 'int'),
                         'class_': _id_field(i_class, 'int'), 'name': _const_field(C_name, 'str'),
                         'unique': 'bool'})
    R.shape('DNSQuestion', {})
    R.shape('DNSRecord', {'ttl': 'real', 'created': 'real'})
    R.shape('DNSAddress', {'address': _rd_field('RD_Addr', 0, 'bytes'), 'scope_id': _rd_field('RD_Addr', 1, 'optint')})
    R.shape('DNSHinfo', {'cpu': _rd_field('RD_Hinfo', 0, 'str'), 'os': _rd_field('RD_Hinfo', 1, 'str')})
    R.shape('DNSPointer', {'alias_key': _rd_field('RD_Ptr', 0, 'str'), 'alias': _const_field(C_alias, 'str')})
    R.shape('DNSText', {'text': _rd_field('RD_Text', 0, 'bytes')})
    R.shape('DNSService', {'priority': _rd_field('RD_Srv', 0, 'int'), 'weight': _rd_field('RD_Srv', 1, 'int'),
                           'port': _rd_field('RD_Srv', 2, 'int'), 'server_key': _rd_field('RD_Srv', 3, 'str'),
                           'server': _const_field(C_server, 'str')})
    R.shape('DNSNsec', {'next_name': _rd_field('RD_Nsec', 0, 'str'), 'rdtypes': _rd_field('RD_Nsec', 1, 'list[int]')})
    R.axioms.append(axioms)
    for cls in ('DNSQuestion', 'DNSAddress', 'DNSHinfo', 'DNSPointer', 'DNSText', 'DNSService', 'DNSNsec'):
        R.stubs['ctor:' + cls] = _ctor(cls)
    # spec helpers
    R.spec('expired', [('r', 'DNSRecord'), ('now', 'real')], 'bool', 'r.created + 1000 * r.ttl <= now')
    R.spec('stale', [('r', 'DNSRecord'), ('now', 'real')], 'bool', 'r.created + 500 * r.ttl <= now')
    R.spec('recent', [('r', 'DNSRecord'), ('now', 'real')], 'bool', 'r.created + 250 * r.ttl > now')
    # contracts of the identity methods in the abstract model: these are exactly the C20 theorems
    for cls in ('DNSQuestion', 'DNSAddress', 'DNSHinfo', 'DNSPointer', 'DNSText', 'DNSService', 'DNSNsec'):
        R.contract('zeroconf._dns', cls + '.__eq__', 'C20-bridge', params={'other': 'object'}, returns='bool',
                   ensures=['result == (other is not None and cls_is(other, %s) and ident(self) == ident(other))' % cls],
                   trusted=True, note='C20 theorem (proved in the raw record model), restated over ident')
        R.contract('zeroconf._dns', cls + '.__hash__', 'C20-bridge', returns='int',
                   ensures=['result == hash_ident(ident(self))'], trusted=True,
                   note='C20 theorem: the hash is a function of the identity tuple')
    R.contract('zeroconf._dns', 'DNSEntry.__eq__', 'C20-bridge', params={'other': 'object'}, returns='bool',
               ensures=['implies(result, other is not None and cls_is(other, DNSEntry) and self.key == as_(other, DNSEntry).key '
                        'and self.type == as_(other, DNSEntry).type and self.class_ == as_(other, DNSEntry).class_)'],
               trusted=True, note='C20 theorem')
    R.contract('zeroconf._dns', 'DNSEntry._dns_entry_matches', 'C20-bridge', params={'other': 'DNSEntry'}, returns='bool',
               ensures=['result == (self.key == other.key and self.type == other.type and self.class_ == other.class_)'],
               trusted=True, note='C20 theorem')
    hi = z3.Function('hash_ident', Ident, z3.IntSort())
    R.spec('hash_ident', [('i', 'ident')], 'int', lambda ex, st, i: Sc(hi(i.term), INT))


def axioms(ctx):
    """class invariants of records as global axioms (instantiated by E-matching on ident(r))."""
    r = z3.Const('r', Ref)
    ax = []
    sh = ctx.shapes
    for cls, (kind, cons) in LEAF.items():
        _, rec, _ = rd_cons(cons)
        ax.append(z3.ForAll([r], z3.Implies(cls_of(r) == sh.class_id(cls),
                                            z3.And(i_kind(ident_of(r)) == kind, rec(i_rdata(ident_of(r))))),
                            patterns=[ident_of(r)]))
    rec_ids = [sh.class_id(c) for c in LEAF]
    # converse: among record objects the kind determines the class (the seven kinds are the seven leaf classes)
    for cls, (kind, cons) in LEAF.items():
        ax.append(z3.ForAll([r], z3.Implies(z3.And(z3.Or(*[cls_of(r) == i for i in rec_ids]),
                                                   i_kind(ident_of(r)) == kind),
                                            cls_of(r) == sh.class_id(cls)), patterns=[ident_of(r)]))
    ax.append(z3.ForAll([r], z3.Implies(z3.Or(*[cls_of(r) == i for i in rec_ids]),
                                        lower(C_name(r)) == i_key(ident_of(r))), patterns=[C_name(r)]))
    _, _, pa = rd_cons('RD_Ptr')
    ax.append(z3.ForAll([r], z3.Implies(cls_of(r) == sh.class_id('DNSPointer'),
                                        lower(C_alias(r)) == pa[0](i_rdata(ident_of(r)))), patterns=[C_alias(r)]))
    _, _, sa = rd_cons('RD_Srv')
    ax.append(z3.ForAll([r], z3.Implies(cls_of(r) == sh.class_id('DNSService'),
                                        lower(C_server(r)) == sa[3](i_rdata(ident_of(r)))), patterns=[C_server(r)]))
    # str.lower is idempotent (instantiated only where a doubly lowered term occurs)
    from pyvc.types import Str as _Str
    s_ = z3.Const('s!lw', _Str)
    ax.append(z3.ForAll([s_], lower(lower(s_)) == lower(s_), patterns=[lower(lower(s_))]))
    # keys are lower-case (key = lower(name))
    ax.append(z3.ForAll([r], z3.Implies(z3.Or(*[cls_of(r) == i for i in rec_ids]),
                                        lower(i_key(ident_of(r))) == i_key(ident_of(r))), patterns=[ident_of(r)]))
    return ax


def _ctor(cls):
    """Abstract constructor: a fresh object whose identity tuple is built from the arguments exactly as the
    C20 postconditions of cls.__init__ state."""
    kind, cons = LEAF[cls]
    con, _, _ = rd_cons(cons)

    def make(ex, args, kwargs, st, frame, node):
        names = {'DNSQuestion': ['name', 'type_', 'class_'],
                 'DNSAddress': ['name', 'type_', 'class_', 'ttl', 'address', 'scope_id', 'created'],
                 'DNSHinfo': ['name', 'type_', 'class_', 'ttl', 'cpu', 'os', 'created'],
                 'DNSPointer': ['name', 'type_', 'class_', 'ttl', 'alias', 'created'],
                 'DNSText': ['name', 'type_', 'class_', 'ttl', 'text', 'created'],
                 'DNSService': ['name', 'type_', 'class_', 'ttl', 'priority', 'weight', 'port', 'server', 'created'],
                 'DNSNsec': ['name', 'type_', 'class_', 'ttl', 'next_name', 'rdtypes', 'created']}[cls]
        b = dict(zip(names, args))
        b.update(kwargs)
        o = fresh('new_' + cls, Ref)
        st.assume(o != NONE)
        st.assume(ex.ctx.shapes.exact_class_term(o, cls))
        st.allocate(o)
        name = ex.term(b['name'], st, STR)
        type_ = ex.num(b['type_'], st)[0]
        class_ = ex.num(b['class_'], st)[0]
        st.assume(C_name(o) == name)
        if cls == 'DNSQuestion':
            rd = con()
        elif cls == 'DNSAddress':
            sc = b.get('scope_id', NoneV())
            rd = con(ex.term(b['address'], st, BYTES), ex.term(sc, st, OPTINT))
        elif cls == 'DNSHinfo':
            rd = con(ex.term(b['cpu'], st, STR), ex.term(b['os'], st, STR))
        elif cls == 'DNSPointer':
            al = ex.term(b['alias'], st, STR)
            st.assume(C_alias(o) == al)
            rd = con(lower(al))
        elif cls == 'DNSText':
            rd = con(ex.term(b['text'], st, BYTES))
        elif cls == 'DNSService':
            sv = ex.term(b['server'], st, STR)
            st.assume(C_server(o) == sv)
            rd = con(ex.num(b['priority'], st)[0], ex.num(b['weight'], st)[0], ex.num(b['port'], st)[0], lower(sv))
        else:
            # rdtypes = sorted(rdtypes): a sorted permutation; abstractly a fresh sorted list of equal length
            lst = b['rdtypes']
            sorted_l = list(ex.bi_sorted([lst], {}, st, frame, node))[0][1]
            rd = con(ex.term(b['next_name'], st, STR), ex.c_term(sorted_l, st))
        st.assume(ident_of(o) == mk_ident(z3.IntVal(kind), lower(name), type_, class_ % 32768, rd))
        obj = RefV(o, ref(cls), False)
        # mutable fields
        fs = ex.ctx.shapes.field(cls, 'unique')
        st.heap[fs.fid] = z3.Store(st.heap_arr(fs.fid, z3.BoolSort()), o, (class_ / 32768) % 2 == 1)
        if cls != 'DNSQuestion':
            ft = ex.ctx.shapes.field(cls, 'ttl')
            st.heap[ft.fid] = z3.Store(st.heap_arr(ft.fid, z3.RealSort()), o, ex.term(b['ttl'], st, REAL))
            cr = b.get('created', NoneV())
            fc = ex.ctx.shapes.field(cls, 'created')
            if isinstance(cr, NoneV):
                now = fresh('now_ms', z3.RealSort())
                st.assume(now >= 0)
                crt = now
            else:
                c0 = ex.term(cr, st, REAL)
                now = fresh('now_ms', z3.RealSort())
                st.assume(now >= 0)
                crt = z3.If(c0 != 0, c0, now)     # `created or current_time_millis()`
            st.heap[fc.fid] = z3.Store(st.heap_arr(fc.fid, z3.RealSort()), o, crt)
        yield st, obj
    return make


def ref_eq_hook(ex, a, b, st, frame, node):
    sh = ex.ctx.shapes
    if a.t.cls in RECORD_CLASSES or b.t.cls in RECORD_CLASSES:
        # record.__eq__ (C20): same kind and same identity tuple; None never equal
        return z3.And(a.term != NONE, b.term != NONE, ident_of(a.term) == ident_of(b.term))
    return None


def configure(ctx):
    ctx.ref_eq_hook = ref_eq_hook
    ctx.record_classes_all = set(RECORD_CLASSES)


def static_checks(repo):
    """DNSEntry / DNSRecord are abstract: never instantiated directly inside the package."""
    import ast
    bad = []
    for mn, m in repo.modules.items():
        for n in ast.walk(m.tree):
            if isinstance(n, ast.Call) and isinstance(n.func, ast.Name) and n.func.id in ('DNSRecord', 'DNSEntry', '_DNSRecord', 'DNSRecord_'):
                bad.append('%s line %d' % (mn, n.lineno))
    return [('static/abstract-record-classes-not-instantiated', not bad,
             'no DNSRecord(...)/DNSEntry(...) construction in src/zeroconf (abstract bases; every record object '
             'is an instance of one of the six leaf classes)' + ('; offending: %s' % bad if bad else ''))]
