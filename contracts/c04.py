"""C04 - browser callbacks alternate add/remove and match the cache.

Functions under contract: _ServiceBrowserBase._enqueue_callback (precedence table), async_update_records (which pending entry
each pointer update produces; what the scheduler is told), async_update_records_complete (every pending entry fired exactly
once, then cleared), plus the step lemma that composes them with the C06 contract of the record manager for one identity.
The scheduler side uses the C10 contracts; the cache/lifetime side the C05 ones."""
import z3
from pyvc.contracts import Loop
from pyvc.core import Sc, RefV, NoneV, Cont, FieldLoc, PyConst, TupleV, fresh
from pyvc.types import Ref, NONE, ref, STR, INT, parse_type
from contracts import records, loop_model, cache_model, c10

PROP = 'C04'
B = 'zeroconf._services.browser'
ADDED, REMOVED, UPDATED = 1, 2, 3
ASSUMPTIONS = [
    'T7: service-state-change handlers are arbitrary user code that does not touch the browser\'s pending table; the ghost log '
    'SIGLOG records each Signal.fire(service_type, name, state_change)',
    'cached_possible_types(name) (lru-cached pure function of the name) is an uninterpreted set-valued function ptypes(name); '
    'the property restricts owner names to exactly a browsed type',
    'ServiceStateChange members are modelled by their values 1/2/3 (identity of enum members == equality of values)',
    'the thread hand-off of the synchronous ServiceBrowser (queue + thread) is outside the family; the claim is for '
    '_ServiceBrowserBase / AsyncServiceBrowser',
    'Updated events are only bounded ("never replace a pending Added/Removed, never removed"), the statement is about Added/Removed',
]
KEY = 'tuple[str, str]'
PT = 'dict[%s, int]' % KEY


def _ptypes_fn():
    from pyvc.types import Str
    return z3.Function('ptypes', Str, parse_type('set[str]').sort())


def _ptypes(ex, args, kwargs, st, frame, node):
    """cached_possible_types(name): an uninterpreted set of type strings (a pure function of the name)"""
    from pyvc.core import TermLoc
    t = parse_type('set[str]')
    yield st, Cont(TermLoc(_ptypes_fn()(ex.term(args[0], st, STR))), t, frozen=True)


def _fire(ex, recv, args, kwargs, st, frame, node):
    o = ex.ctx.ghost_objects['SIGLOG']
    fs = ex.ctx.shapes.field('VSig', 'events')
    ev = Cont(FieldLoc(o.term, fs.fid, fs.t.sort()), fs.t)
    et = ev.t.args[0]
    ex.l_append(ev, Sc(et.mk(ex.term(kwargs['service_type'], st, STR), ex.term(kwargs['name'], st, STR),
                             ex.num(kwargs['state_change'], st)[0]), et), st)
    yield st, NoneV()


def build(R):
    c10.build(R)        # records, loop model, QueryScheduler shapes and contracts (C10-tagged: used as callee contracts)
    cache_model.install(R)
    cache_model.install_flush_specs(R)
    cache_model.install_lookups(R)
    R.shape('VSig', {'events': 'list[tuple[str, str, int]]'}, bases=[])
    R.ghost_objects['SIGLOG'] = 'VSig'
    R.shape('Signal', {}, bases=[])
    R.shape('RecordUpdate', {'new': 'DNSRecord', 'old': 'opt[DNSRecord]'})
    R.shape('_ServiceBrowserBase', {'types': 'set[str]', 'zc': 'Zeroconf', '_cache': 'DNSCache', '_pending_handlers': PT,
                                    '_service_state_changed': 'Signal', 'query_scheduler': 'QueryScheduler', 'done': 'bool'})
    for name, v in (('SERVICE_STATE_CHANGE_ADDED', ADDED), ('SERVICE_STATE_CHANGE_REMOVED', REMOVED), ('SERVICE_STATE_CHANGE_UPDATED', UPDATED)):
        R.stubs[B + ':' + name] = (lambda v: lambda ex, st, frame: PyConst(v))(v)
    from contracts.common import stub
    R.stubs[B + ':cached_possible_types'] = stub(_ptypes)
    R.stubs['method:Signal.fire'] = _fire
    R.spec('ptypes_has', [('name', 'str'), ('t', 'str')], 'bool',
           lambda ex, st, name, t: Sc(z3.Select(parse_type('set[str]').acc('has')(_ptypes_fn()(ex.term(name, st, STR))), ex.term(t, st, STR)),
                                      parse_type('bool')),
           concrete=lambda name, t: t in __import__('zeroconf._utils.name', fromlist=['possible_types']).possible_types(name))
    K = '(name, type_)'
    OLDV = 'old(self._pending_handlers[%s])' % K
    OLDH = 'old(self._pending_handlers.has(%s))' % K
    # ---- precedence table: Added always wins; Removed unless an Added is pending; Updated only into an empty slot ----------
    R.contract(B, '_ServiceBrowserBase._enqueue_callback', PROP, params={'state_change': 'int', 'type_': 'str', 'name': 'str'},
               requires=['state_change == 1 or state_change == 2 or state_change == 3'],
               modifies=['self._pending_handlers'],
               ensures=['self._pending_handlers.has(%s)' % K,
                        'implies(state_change == 1, self._pending_handlers[%s] == 1)' % K,
                        'implies(state_change == 2, self._pending_handlers[%s] == ite(%s and %s == 1, 1, 2))' % (K, OLDH, OLDV),
                        'implies(state_change == 3, self._pending_handlers[%s] == ite(%s, %s, 3))' % (K, OLDH, OLDV),
                        'forall("k:%s", lambda k: implies(k != %s, self._pending_handlers.has(k) == old(self._pending_handlers.has(k)) '
                        '   and implies(self._pending_handlers.has(k), self._pending_handlers[k] == old(self._pending_handlers[k]))))' % (KEY, K)])
    # ---- one update batch ----------------------------------------------------------------------------------------------
    PEND = 'self._pending_handlers'
    MATCH = '(records[m] is not None and records[m].new.type == 12 and self.types.has(t) and ptypes_has(records[m].new.name, t) and as_(records[m].new, DNSPointer).alias == a)'
    ADD_UPTO = 'exists("m:int", lambda m: 0 <= m and m < %s and ' + MATCH + ' and records[m].old is None)'
    REM_UPTO = 'exists("m:int", lambda m: 0 <= m and m < %s and ' + MATCH + ' and records[m].old is not None and expired(records[m].new, now))'

    def table(upto, cur=None):
        A_, R_ = ADD_UPTO % upto, REM_UPTO % upto
        if cur:
            # the record being processed contributes for the types of the inner loop visited so far
            SEEN = 'as_(pointer, DNSPointer).alias == a and exists("j:int", lambda j: 0 <= j and j < _k1 and _it1[j] == t)'
            A_ = '(%s or (old_record is None and %s))' % (A_, SEEN)
            R_ = '(%s or (old_record is not None and expired(pointer, now) and %s))' % (R_, SEEN)
        return [
            # Added is pending for (instance, type) iff it already was or some update of the batch is a NEW pointer for it
            'forall("a:str, t:str", lambda a, t: (%s.has((a, t)) and %s[(a, t)] == 1) == '
            '   ((old(%s.has((a, t))) and old(%s[(a, t)]) == 1) or %s))' % (PEND, PEND, PEND, PEND, A_),
            # Removed is pending iff no Added is and (it already was, or some update is a goodbye/expiry of a KNOWN pointer for it)
            'forall("a:str, t:str", lambda a, t: (%s.has((a, t)) and %s[(a, t)] == 2) == '
            '   (not ((old(%s.has((a, t))) and old(%s[(a, t)]) == 1) or %s) and ((old(%s.has((a, t))) and old(%s[(a, t)]) == 2) or %s)))'
            % (PEND, PEND, PEND, PEND, A_, PEND, PEND, R_),
            # nothing is ever dropped from the table here, and values are events
            'forall("k:%s", lambda k: implies(old(%s.has(k)), %s.has(k)))' % (KEY, PEND, PEND),
            'forall("k:%s", lambda k: implies(%s.has(k), %s[k] == 1 or %s[k] == 2 or %s[k] == 3))' % (KEY, PEND, PEND, PEND, PEND),
        ]
    LMOD = ['self._pending_handlers', 'QueryScheduler._next_scheduled_for_alias[*]', 'QueryScheduler._query_heap[*]',
            'QueryScheduler._next_run[*]', 'TIMERS.events', 'TimerHandle.cancelled[*]', c10.SQ + '.cancelled[*]']
    COMMON = ['sq_ok(self.query_scheduler)', 'list_eq(_it0, records)', 'len(SIGLOG.events) == old(len(SIGLOG.events))']
    CUR = ['0 <= _k0 and _k0 < len(_it0) and record_update is _it0[_k0] and record is record_update.new and old_record is record_update.old']
    R.contract(B, '_ServiceBrowserBase._names_matching_types', PROP, params={'names': 'object'}, returns='list[tuple[str, str]]',
               trusted=True, note='(type, name) pairs for SRV/TXT/address updates: only feeds Updated events, which the contract bounds but does not pin down')
    RECS_OK = ('forall("m:int", lambda m: implies(0 <= m and m < len(records), records[m] is not None and records[m].new is not None '
               '   and implies(records[m].new.type == 12, cls_is(records[m].new, DNSPointer))))')
    VALS_OK = 'forall("k:%s", lambda k: implies(%s.has(k), %s[k] == 1 or %s[k] == 2 or %s[k] == 3))' % (KEY, PEND, PEND, PEND, PEND)
    R.contract(B, '_ServiceBrowserBase.async_update_records', PROP,
               params={'zc': 'Zeroconf', 'now': 'real', 'records': 'list[RecordUpdate]'},
               requires=[RECS_OK, VALS_OK, 'self.query_scheduler is not None and sq_ok(self.query_scheduler)',
                         'self._cache is not None and wf_cache(self._cache)',
                         'forall("m:int", lambda m: implies(0 <= m and m < len(records) and records[m].new.type == 12, records[m].new.ttl >= 0))'],
               modifies=['self._pending_handlers', 'QueryScheduler._next_scheduled_for_alias[*]', 'QueryScheduler._query_heap[*]',
                         'QueryScheduler._next_run[*]', 'TIMERS.events', 'TimerHandle.cancelled[*]', c10.SQ + '.cancelled[*]'],
               at_calls={
                   # the scheduler is told to (re)schedule for every new or refreshed pointer and to cancel for every withdrawn one
                   'reschedule_ptr_first_refresh': ['old_record is None or not expired(pointer, now)'],
                   'cancel_ptr_refresh': ['old_record is not None and expired(pointer, now)'],
               },
               ensures=table('len(records)') + ['sq_ok(self.query_scheduler)',
                                                # no callback is delivered from here (only queued): the fire log is untouched
                                                'len(SIGLOG.events) == old(len(SIGLOG.events))'],
               loops={0: Loop(inv=table('_k0') + COMMON, modifies=LMOD),
                      1: Loop(inv=table('_k0', cur=True) + COMMON + CUR + [
                          'record.type == 12 and pointer is record and pointer.ttl >= 0',
                          'forall("t:str", lambda t: exists("j:int", lambda j: 0 <= j and j < len(_it1) and _it1[j] == t) == '
                          '   (self.types.has(t) and ptypes_has(pointer.name, t)))'], modifies=LMOD),
                      2: Loop(inv=table('_k0') + COMMON + CUR + ['record.type != 12'], modifies=LMOD),
                      3: Loop(inv=table('_k0') + COMMON + CUR + ['record.type != 12'], modifies=LMOD)})
    # ---- delivery ------------------------------------------------------------------------------------------------------
    S0 = 'old(len(SIGLOG.events))'
    R.contract(B, '_ServiceBrowserBase.async_update_records_complete', PROP,
               requires=['self._service_state_changed is not None'],
               modifies=['self._pending_handlers', 'SIGLOG.events'],
               ensures=[
                   # every pending entry is fired exactly once (one event per key of the table), then the table is empty
                   'len(SIGLOG.events) == %s + old(len(self._pending_handlers))' % S0,
                   'forall("k:%s", lambda k: not self._pending_handlers.has(k))' % KEY,
                   'forall("p:int", lambda p: implies(%s <= p and p < len(SIGLOG.events), exists("k:%s", lambda k: old(self._pending_handlers.has(k)) '
                   '   and SIGLOG.events[p][1] == k[0] and SIGLOG.events[p][0] == k[1] and SIGLOG.events[p][2] == old(self._pending_handlers[k]))))' % (S0, KEY),
                   'forall("k:%s", lambda k: implies(old(self._pending_handlers.has(k)), exists("p:int", lambda p: %s <= p and p < len(SIGLOG.events) '
                   '   and SIGLOG.events[p][1] == k[0] and SIGLOG.events[p][0] == k[1])))' % (KEY, S0),
                   'forall("p:int, q:int", lambda p, q: implies(%s <= p and p < q and q < len(SIGLOG.events), '
                   '   not (SIGLOG.events[p][0] == SIGLOG.events[q][0] and SIGLOG.events[p][1] == SIGLOG.events[q][1])))' % S0,
                   'forall("p:int", lambda p: implies(0 <= p and p < %s, SIGLOG.events[p] == old(SIGLOG.events[p])))' % S0],
               loops={0: Loop(inv=[
                   # (_it0 is the list of keys of the table; the value fired with a key is the table's value)
                   'len(SIGLOG.events) == %s + _k0' % S0,
                   'forall("p:int", lambda p: implies(%s <= p and p < %s + _k0, SIGLOG.events[p][1] == _it0[p - %s][0] and SIGLOG.events[p][0] == _it0[p - %s][1] '
                   '   and SIGLOG.events[p][2] == old(self._pending_handlers[_it0[p - %s]])))' % (S0, S0, S0, S0, S0),
                   'forall("j:int", lambda j: implies(0 <= j and j < _k0, SIGLOG.events[%s + j][1] == _it0[j][0] and SIGLOG.events[%s + j][0] == _it0[j][1]))' % (S0, S0),
                   'forall("p:int", lambda p: implies(0 <= p and p < %s, SIGLOG.events[p] == old(SIGLOG.events[p])))' % S0,
                   'len(_it0) == old(len(self._pending_handlers))',
                   'forall("p:int", lambda p: implies(0 <= p and p < len(_it0), old(self._pending_handlers.has(_it0[p]))))',
                   'forall("k:%s", lambda k: implies(old(self._pending_handlers.has(k)), exists("p:int", lambda p: 0 <= p and p < len(_it0) and _it0[p] == k)))' % KEY,
                   'forall("p:int, q:int", lambda p, q: implies(0 <= p and p < q and q < len(_it0), _it0[p] != _it0[q]))',
                   'forall("k:%s", lambda k: self._pending_handlers.has(k) == old(self._pending_handlers.has(k)) '
                   '   and implies(self._pending_handlers.has(k), self._pending_handlers[k] == old(self._pending_handlers[k])))' % KEY],
                              modifies=['SIGLOG.events'])})
    # ---- the periodic purge: expiry is reported to the listeners and completed in that order, then re-armed -------------------
    E = 'zeroconf._engine'
    R.shape('AsyncEngine', {'zc': 'Zeroconf', 'loop': 'opt[EventLoop]', '_cleanup_timer': 'opt[TimerHandle]'})
    R.shape('Zeroconf', {'cache': 'DNSCache', 'record_manager': 'RecordManager', 'question_history': 'QuestionHistory'})
    R.shape('RecordManager', {}, bases=[])
    R.shape('QuestionHistory', {}, bases=[])
    R.contract('zeroconf._history', 'QuestionHistory.async_expire', 'C13', params={'now': 'real'}, trusted=True, modifies=[],
               note='C13 (verified there); touches only the question history')
    R.contract('zeroconf._cache', 'DNSCache.async_expire', 'C05', params={'now': 'real'}, returns='list[DNSRecord]', trusted=True,
               modifies=['self.cache', 'self.service_cache'],
               ensures=['forall("j:int", lambda j: implies(0 <= j and j < len(result), result[j] is not None and expired(result[j], now)))'],
               note='C05 (verified there): exactly the expired records, each once, removed from the cache')
    R.contract('zeroconf._handlers.record_manager', 'RecordManager.async_updates', 'C06', params={'now': 'real', 'records': 'list[RecordUpdate]'},
               trusted=True, modifies=['*'], ensures=['heap_eq("AsyncEngine._cleanup_timer")', 'heap_eq("AsyncEngine.loop")', 'heap_eq("AsyncEngine.zc")',
                                                    'heap_eq("VTimers.events")', 'heap_eq("VClock.now")', 'heap_eq("TimerHandle.cancelled")',
                                                    'heap_eq("Zeroconf.record_manager")'],
               note='C06 (verified there): fans the batch out to every listener; listeners are arbitrary code that does not touch the engine, the timers or the clock')
    R.contract('zeroconf._handlers.record_manager', 'RecordManager.async_updates_complete', 'C06', params={'notify': 'bool'},
               trusted=True, modifies=['*'], ensures=['heap_eq("AsyncEngine._cleanup_timer")', 'heap_eq("AsyncEngine.loop")', 'heap_eq("AsyncEngine.zc")',
                                                    'heap_eq("VTimers.events")', 'heap_eq("VClock.now")', 'heap_eq("TimerHandle.cancelled")'],
               note='C06 (verified there)')
    T0 = 'old(len(TIMERS.events))'
    R.contract(E, 'AsyncEngine._async_cache_cleanup', PROP,
               requires=['self.zc is not None and self.zc.cache is not None and self.zc.record_manager is not None and self.zc.question_history is not None',
                         'self.loop is not None', 'not reported'],
               ghost={'reported': 'bool'},
               modifies=['*'],
               at_calls={
                   # expiry is REPORTED to the listeners before the batch is COMPLETED (browsers fire their queued Removed events
                   # in the completion step), with the clock value the records were expired at
                   'self.zc.record_manager.async_updates': ['now == CLOCK.now', 'ghost: reported = True'],
                   'self.zc.record_manager.async_updates_complete': ['reported'],
                   'self.zc.cache.async_expire': ['now == CLOCK.now'],
               },
               ensures=[
                   # keeps running: the next purge is armed 10 s from now
                   'len(TIMERS.events) == %s + 1 and TIMERS.events[%s][0] == CLOCK.now + 10000 and TIMERS.events[%s][1] is self '
                   '   and TIMERS.events[%s][2] == mid("_async_cache_cleanup") and TIMERS.events[%s][3] is self._cleanup_timer' % (T0, T0, T0, T0, T0)])
    # ---- the step lemma for one (type, instance) and one datagram / purge report ---------------------------------------------
    # in0/in1: a pointer record of this identity is cached before / after the step (C06: adds = updates with previous None and
    # TTL > 0; removes = updates with a previous copy that are expired at arrival; C05 purge: reported (r, r) with r expired);
    # live0/live1: reported Added and not since Removed.  has_new / has_gone: some update of the batch is (new, None) / is
    # (expired, previous) for this identity - by the C06 contract has_new implies "not cached before", has_gone implies "cached
    # before", and (restriction of the property: one spelling, not both a goodbye and a fresh copy of one identity in a datagram)
    # they exclude each other.
    R.lemma('step_keeps_live_equal_cached', PROP,
            {'in0': 'bool', 'in1': 'bool', 'live0': 'bool', 'live1': 'bool', 'has_new': 'bool', 'has_gone': 'bool', 'ev': 'int'},
            ['live0 == in0',                                        # LIVE before the step
             'implies(has_new, not in0)', 'implies(has_gone, in0)', 'not (has_new and has_gone)',        # C06 / C05 contracts
             'in1 == ((in0 or has_new) and not has_gone)',                                           # C06: cache after the step
             'ev == ite(has_new, 1, ite(has_gone, 2, 0))',                                           # async_update_records (empty table before)
             'live1 == ite(ev == 1, True, ite(ev == 2, False, live0))'],                             # async_update_records_complete
            ['live1 == in1',                                         # LIVE after the step
             'implies(ev == 1, not live0)', 'implies(ev == 2, live0)'])     # alternation: Added only when not live, Removed only when live


def configure(ctx, R):
    records.configure(ctx)
    c10.install_generators(R)
    mk_sched = R.mk_sched
    TYPES = ['_x._tcp.local.', '_y._tcp.local.']
    ALIASES = ['a._x._tcp.local.', 'A._x._tcp.local.', 'b._x._tcp.local.', 'd._y._tcp.local.', 'e._z._tcp.local.']

    def mk_browser(g):
        from zeroconf._services.browser import _ServiceBrowserBase
        from zeroconf._services import Signal, ServiceStateChange
        sched, env, now = mk_sched(g)
        sig = loop_model.CObj()
        sig.events = []
        env['SIGLOG'] = sig
        b = _ServiceBrowserBase.__new__(_ServiceBrowserBase)
        b.types = set(g.rng.sample(TYPES, g.rng.randint(1, 2)))
        b.zc = sched._zc
        b._cache = g.cache()
        b._pending_handlers = {}
        for _ in range(g.rng.randint(0, 2)):
            a = g.rng.choice(ALIASES)
            b._pending_handlers[(a, a.split('.', 1)[1])] = g.rng.choice(list(ServiceStateChange))
        b._service_state_changed = Signal()
        b._service_state_changed.registration_interface.register_handler(
            lambda zeroconf, service_type, name, state_change: sig.events.append((service_type, name, state_change.value)))
        b.query_scheduler = sched
        b.done = False
        return b, env, now

    def g_enq(g):
        from zeroconf._services import ServiceStateChange
        b, env, now = mk_browser(g)
        a = g.rng.choice(ALIASES)
        return {'self': b, 'state_change': g.rng.choice(list(ServiceStateChange)), 'type_': a.split('.', 1)[1], 'name': a, '__env__': env}
    R.generators[(B, '_ServiceBrowserBase._enqueue_callback')] = g_enq

    def g_upd(g):
        from zeroconf._dns import DNSPointer, DNSAddress
        from zeroconf._updates import RecordUpdate
        from zeroconf import const
        b, env, now = mk_browser(g)
        recs = []
        for _ in range(g.rng.randint(0, 3)):
            a = g.rng.choice(ALIASES)
            ttl = g.rng.choice([0, 1125, 4500])
            p = DNSPointer(a.split('.', 1)[1], const._TYPE_PTR, const._CLASS_IN, ttl, a, created=now - g.rng.choice([0.0, 2000.0]))
            kind = g.rng.choice(['new', 'old', 'other'])
            if kind == 'other':
                r = g.record(['A', 'SRV', 'TXT'])
                recs.append(RecordUpdate(r, None if g.rng.random() < 0.7 else r))
            else:
                old = None if kind == 'new' else DNSPointer(p.name, p.type, p.class_, 4500, p.alias, created=now - 5000.0)
                recs.append(RecordUpdate(p, old))
        return {'self': b, 'zc': b.zc, 'now': now, 'records': recs, '__env__': env, '__clock__': now}
    R.generators[(B, '_ServiceBrowserBase.async_update_records')] = g_upd
    R.generators[(B, '_ServiceBrowserBase.async_update_records_complete')] = lambda g: (lambda t: {'self': t[0], '__env__': t[1]})(mk_browser(g))


NO_CONCRETE = {'AsyncEngine._async_cache_cleanup'}
