#!/usr/bin/env python3
"""Regenerate MANIFEST.json from tools/manifest_data.py (single source of truth)."""
import json, os, sys
sys.path.insert(0, os.path.dirname(os.path.dirname(os.path.abspath(__file__))))
from tools.manifest_data import CHECKS, NOT_APPLICABLE, NOTES
checks = []
for pid, d in sorted(CHECKS.items()):
    checks.append({
        'property_id': pid,
        'quick_cmd': './check %s --tier quick' % pid,
        'thorough_cmd': './check %s --tier thorough' % pid,
        'evidence_file': 'evidence/%s.json' % pid,
        'replay_cmd_template': './check %s --replay {path}' % pid,
        'engine': 'pyvc',
        'level_claimed': {'category': d.get('category', 'proof'), 'text': d['text'], 'design_ref': d['design_ref']},
        'level_note': d['note'],
        'technique': d.get('technique', 'contract-based deductive verification: sidecar contracts on the real functions, '
                                        'VCs generated from their ast by pyvc, discharged by z3/cvc5'),
    })
m = {
    'version': 1,
    'setup_cmd': './setup.sh',
    'hooks': {'guard': 'ZEROCONF_VERIF', 'enable': 'no hooks: the verifier reads /repo/src through the ast and never '
              'instruments it', 'baseline_off_cmd': 'cd /repo && /venv/bin/python -m pytest -ra -q -p no:cacheprovider '
              '--timeout=900 --continue-on-collection-errors', 'source_commits': [], 'add_only': True},
    'engines': [{'name': 'pyvc', 'path': 'pyvc/', 'serves_properties': sorted(CHECKS),
                 'kind_free_text': 'verification-condition generator over the Python ast of the real source + SMT '
                                   '(z3 5.1, z3 4.8, cvc5 1.0.3) in subprocesses'}],
    'checks': checks,
    'notes': NOTES,
    'not_applicable': [{'property_id': k, 'reason': v} for k, v in sorted(NOT_APPLICABLE.items())],
}
json.dump(m, open(os.path.join(os.path.dirname(__file__), '..', 'MANIFEST.json'), 'w'), indent=1)
print('MANIFEST.json written: %d checks, %d not applicable' % (len(checks), len(NOT_APPLICABLE)))
