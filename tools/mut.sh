#!/bin/sh
# tools/mut.sh PROP FILE 'sed-expr'   : run the check against a scratch copy of /repo/src with one edit
PROP=$1; FILE=$2; EXPR=$3
D=$(mktemp -d /tmp/mut.XXXXXX)
cp -r /repo/src $D/src
sed -i "$EXPR" $D/src/zeroconf/$FILE
if diff -q /repo/src/zeroconf/$FILE $D/src/zeroconf/$FILE >/dev/null; then echo "MUTANT DID NOT APPLY"; rm -rf $D; exit 9; fi
cp evidence/$PROP.json $D/ev.bak 2>/dev/null
VERIF_REPO_SRC=$D/src ./check $PROP | grep -v "^  " | cut -c1-220
cp $D/ev.bak evidence/$PROP.json 2>/dev/null
rm -rf $D
