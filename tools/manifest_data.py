NOTES = ('Contract-based deductive verification of the real code (DESIGN.md). Exit codes of ./check: 0 all obligations '
         'discharged, 1 violation (refuted obligation), 2 undecided, 3 checker fault.')
NOT_YET = 'not yet under contract in this build (work in progress; see DESIGN.md section 7 for the build order)'
CHECKS = {
    'C20': dict(text='Every __init__/__eq__/_eq/__hash__ of DNSQuestion and the six record classes is verified against '
                     'its contract for all inputs (raw field model); equal-implies-equal-hash lemmas; static scans for '
                     'immutability of identity fields and for the class hierarchy. This is a proof because the statement '
                     'is a per-call property of pure functions over unbounded inputs.',
                design_ref='DESIGN.md section 4 C20',
                note='hash() of a tuple is an uninterpreted function (congruence only); str.lower uninterpreted; '
                     'created=None modelled as 0.0'),
    'C05': dict(text='DNSCache representation invariant and exact abstract-view contracts proved for the mutators, '
                     'purge and lookup functions for all cache states and arguments; lifetime arithmetic of DNSRecord '
                     'proved from the bodies. Histories follow by induction over the preserved invariant.',
                design_ref='DESIGN.md section 4 C05',
                note='float as real; record identity model licensed by C20; dict iteration order arbitrary'),
}
CHECKS['C06'] = dict(
    text='RecordManager.async_updates_from_response is verified against the statement for all datagrams and cache states: '
         'loop invariants (five self-contained views) give the exact pair list in datagram order, the refresh / PTR-floor '
         'arithmetic, add/remove sets; post-loop obligations give (a) cached with arrival time and last TTL, (b) goodbyes '
         'removed, untouched identities unchanged; at-call obligations fix the order (listeners before any cache add/remove, '
         'completion after both); the ghost call log proves each registered listener is called exactly once per phase. '
         'Fan-out, listener registration/replay and removal are verified too. Flush marking is the C05 contract.',
    design_ref='DESIGN.md section 4 C06',
    note='T7 listener frame; answers are fresh decoder objects with created == msg.now (C02); one identity with both zero '
         'and non-zero TTL in a datagram excluded; ghost index function ai (conservative); float as real')
CHECKS['C14'] = dict(
    text='Every size-bookkeeping step of the message builder is under contract (28 functions): size == 12 + sum of chunk '
         'lengths is an invariant of all writers; _check_data_limit_or_rollback restores exactly the entry it rejects; each '
         'section loop obeys the size law (<= 1460, or one entry <= 8966); packets() is verified with a ghost record per '
         'datagram: datagram length equals the tracked size, the size law, consecutive offset ranges from 0 to the section '
         'lengths (every entry in exactly one datagram), header words equal the counts written, TC exactly on continuing '
         'queries, id 0 on multicast. All for unbounded section sizes and record contents.',
    design_ref='DESIGN.md section 4 C14',
    note='struct packers modelled as fixed-width encoders; string operations uninterpreted here (byte forms are C01); '
         'DNSNsec.write assumed to keep the size bookkeeping (bytearray bit operations outside the engine); sections < 65536 entries')
CHECKS['C16'] = dict(
    text='_process_datagram_at_time is verified for all listener states and datagrams: when the stored bytes equal the new '
         'ones, less than 1000 ms have passed and the stored message has no QU question, NO heap location changes and no '
         'callee runs (frame obligation over every field, ghost logs included); otherwise bytes, time and a fresh message '
         'object are recorded. Two lemmas give the pairwise statement (second copy within the window is suppressed; '
         'suppression is stable). A static scan shows no other code writes the bookkeeping fields.',
    design_ref='DESIGN.md section 4 C16',
    note='decoder abstracted (fresh message object, arbitrary valid/flags/QU bit); callees after the guard abstracted by '
         'arbitrary effects; QU datagrams (exempted by the statement) not claimed; 2-tuple address form')
CHECKS['C03'] = dict(
    text='The registry side of the statement is proved for all histories: a representation invariant (name table, type '
         'and host indexes exactly mirror the registered services, no empty bucket, no duplicates) is preserved by add, '
         'remove, update; every index lookup returns exactly the registered services with that lower-cased key; '
         '(re)registration clears the record memos (replies reflect only the new state). The question-to-lookup map '
         '(_get_answer_strategies) is proved exact for every question type incl. ANY and the enumeration name, and '
         'known-answer suppression (DNSRRSet.suppresses) is proved to need a listed record of the same identity with '
         'more than half the TTL. The answer builders are under contract too: _answer_question (dispatch: a SRV / TXT question is '
         'answered with exactly the service\'s own memoised SRV / TXT record unless the querier lists it as known with more than half '
         'its TTL), _add_pointer_answers (every offered pointer is <type> -> <instance> of a given service with its TTL and without '
         'the cache-flush bit; every such pointer is offered unless known; its additionals are only that service\'s own SRV, TXT, '
         'address and NSEC records), _add_service_type_enumeration_query_answers (one pointer per listed type, TTL 4500, unless '
         'known), and the ServiceInfo record builders _dns_pointer/_dns_service/_dns_text (names, TTL or override, cache-flush class, '
         'memo soundness incl. the name setter), and _add_address_answers (every offered record is an address record of the asked '
         'type of a given service\'s host with the host TTL and the cache-flush bit, or the NSEC record of a service that has no '
         'address of the asked A/AAAA type). Assumed, not verified: the address/NSEC record builders _dns_addresses, _dns_nsec, '
         '_get_address_and_nsec_records (list comprehensions over ipaddress objects); completeness of the address answers is not '
         'stated; "additionals never repeat an answer" is _add_answers_additionals, verified in the C11 check.',
    design_ref='DESIGN.md section 4 C03 and 9',
    note='registered ServiceInfo objects have a server and are not mutated behind the registry; address memo lists '
         'modelled by validity flags; the address/NSEC record builders (_dns_addresses, _dns_nsec, '
         '_get_address_and_nsec_records) enter by assumed contracts')
CHECKS['C13'] = dict(
    text='Duplicate-question suppression is proved exact: QuestionHistory.suppresses is true iff the same question (by '
         'identity) was recorded at most 999 ms ago with known answers all contained in the present ones; recording and '
         'expiry (entries older than 999 ms, exactly those) are proved with loop invariants. generate_service_query is '
         'proved for all caches/histories/type sets: a question is built for a type unless it is QM and suppressed, QU '
         'questions are never suppressed and never recorded, the QU bit follows the first-query / forced-type rule, the '
         'known answers are exactly the cached PTR records of that name that are not stale (more than half the TTL left), '
         'and every QM question asked is recorded with time and known answers. Remaining TTL on the wire is C14 (_write_ttl).',
    design_ref='DESIGN.md section 4 C13',
    note='packet grouping (_group_ptr_queries_with_known_answers) assumed to keep questions with their known answers; '
         'ServiceInfo lookups (_add_question_with_known_answers, _generate_request_query, async_request QU/QM progression) are verified in the C18 check; '
         'browsed types distinct ignoring case')
CHECKS['C12'] = dict(
    text='The multicast reply queue is proved for every arrival time, random draw and queue content: async_add schedules '
         'a group at now+additional+[20,120] ms with a deadline of now+additional+aggregation ms (merging into the last '
         'group when the draw falls before it, which keeps the earlier send time), arms the timer exactly when the queue '
         'was empty, and keeps the queue ordered; async_ready sends exactly the union of the due groups once, not before '
         'send_after of any of them, delays to send_before of the head when several groups wait, removes the sent '
         'records from every remaining group (no duplicate inside or across batches) and re-arms the timer for the new '
         'head. Lemmas instantiate the windows: out_queue gives [20,120]..500 ms after arrival, out_delay_queue gives '
         '[1020,1120]..1200 ms, i.e. at least one second after any sighting less than a second before arrival. '
         'Classification is proved exact for every cache and question list (_QueryResponse.add_mcast_question_response / '
         'answers): probe -> now; otherwise seen in the cache less than 1000 ms before the query -> protected queue; otherwise '
         'a single SRV/A/AAAA/NSEC question -> now; otherwise -> aggregation queue. Routing is proved '
         '(QueryHandler.handle_assembled_query): mcast_now is sent in the same step, mcast_aggregate only enters out_queue, '
         'mcast_aggregate_last_second only enters out_delay_queue, both timed from the first packet; the two queues never share a group. '
         'A pending wake-up no later than the oldest deadline is an invariant (armed). Truncated queries (AsyncListener.handle_query_or_defer / _respond_query): a source has held packets exactly while one un-cancelled hold timer of the listener is pending for it (tc_ok); a byte-identical repeat of a held packet changes nothing (frame); a new truncated packet is appended and the hold restarts 400-500 ms from now with the old timer cancelled; the answer is built once, from every held packet in arrival order plus the current one, after the hold has been cleared (call-site obligations).',
    design_ref='DESIGN.md section 4 C12',
    note='timers and sends are ghost logs (loop_model) attached to the real call sites; construct_outgoing_multicast_answers '
         'is assumed to put exactly the given records in the packet; the event loop is assumed to fire a timer no earlier '
         'than its due time; async_response assumed not to touch queues/timers/clock')
CHECKS['C10'] = dict(
    text='Every method of the browser QueryScheduler is under contract (10 functions) and verified for all scheduler states, '
         'pointer records and clock values: structural invariant (one live entry per instance name ignoring case, the map holds '
         'exactly the live heap entries, minimum in front); reschedule_ptr_first_refresh puts the refresh at created + 75 % of the '
         'TTL (expiry at 100 %), leaves an entry within `delay` of it alone and otherwise cancels the superseded one; '
         'cancel_ptr_refresh kills the entry whatever the spelling; schedule_rescue_query adds 10 % of the TTL and stops at the '
         'expiry time; _process_ready_types (two loop invariants) asks in ONE query exactly the types of the live entries that '
         'are due, reschedules each, keeps everything else, and re-arms exactly one wake-up at max(earliest scheduled query, now '
         '+ delay); the start-up chain is 20-120 ms, then 1 s, 4 s, 9 s (QU-eligible only on the first pass) and then `delay` '
         'into refresh mode. The pass timer invariant `armed` (a pending wake-up no later than max(earliest scheduled query, '
         'previous pass + delay) and not before previous pass + delay) is preserved by every method incl. scheduling a query '
         'that is due earlier than the armed pass; `solo` (no second timer chain) is preserved too. Lemmas: each query is at '
         'most `delay` late; passes are at least `delay` apart.',
    design_ref='DESIGN.md section 4 C10',
    note='A1 float as real; A5 ideal timers (a callback runs no earlier than its due time, the clock is constant inside one '
         'atomic step); heapq is an assumed contract (contracts/heap_model.py); async_send_ready_queries is a ghost log event '
         '(question building is C13); the schedule is keyed by instance name only (one browsed type per instance); two '
         'defects found by these obligations were repaired in /repo (known_findings.json)')
CHECKS['C11'] = dict(
    text='Routing and format of replies, per function, for all queries, caches and clocks: (1) _QueryResponse.add_qu_question_response '
         '(QU from port 5353): a record goes to unicast iff the cache saw it multicast within a quarter of its TTL (or the query '
         'is a probe), and to multicast-at-once iff it was not; add_ucast_question_response (legacy source): everything into the '
         'unicast reply; the quarter-life predicate DNSRecord.is_recent is proved from its body. (2) QueryHandler.async_response: '
         'call-site obligations and a counting invariant show that the answers of EVERY strategy are handed to exactly one of the '
         'QU / multicast classifiers - the QU one only for a QU question from port 5353, the multicast one only for QM questions '
         'or a legacy source - and additionally to the unicast classifier iff the source port is not 5353; the reply is classified '
         'with the probe flag of the packets and the first packet\'s questions. (3) handle_assembled_query: legacy iff port != 5353; '
         'the unicast reply echoes the id and question list of the first packet and is sent to (addr, port) on the receiving '
         'transport only; every other transmission of the step is a multicast builder to the group on all sockets. (4) answers.py: '
         'both builders verified against the builder\'s real lists: flags QR|AA, multicast bit, id 0 / echoed id, questions only for '
         'a legacy source, answers exactly the given records once each. (5) DNSOutgoing._write_record_class: the class word carries '
         'the cache-flush bit iff the record is unique AND the message is multicast. Header id 0 / flags / TC on the wire are the '
         'C14 packets() obligations.',
    design_ref='DESIGN.md section 4 C11',
    note='_answer_question (which records answer: C03) and the decoder (is_probe, answers: C02) are abstracted; additional-record '
         'rules of _add_answers_additionals are C03 and not claimed; async_send_with_transport / can_send_to (group address per '
         'socket family, starred tuple) are not under contract; Zeroconf.async_send is the ghost send log; own multicasts reach '
         'the cache by loop-back (environment); cache-flush "exactly on non-PTR records" additionally uses the class constants of '
         'the ServiceInfo record builders (C03 scope)')
CHECKS['C19'] = dict(
    category='other',
    text='BOUNDED stand-in, not a proof: the deductive engine has no string model (str is uninterpreted), and the validator and '
         'the TXT encoder/decoder are str/bytes manipulation end to end, so no obligation of this property is discharged '
         'deductively except static scans of the four pattern texts in const.py. What runs instead, on every change: the contract '
         '"service_type_name returns Valid(s, strict) or raises BadTypeInNameException and nothing else" - Valid written position-'
         'wise from the statement, independent of the code and its regular expressions - is evaluated around the REAL function '
         'for every string over an 8-character adversarial alphabet (underscore, lower/upper letter, hyphen, dot, digit, newline, '
         'non-ASCII) up to length 4 (5 in the thorough tier) before each of six trailers in both modes (56 000 / 400 000 calls) '
         'plus ~200 boundary names (15/16 characters, 63/64 bytes, 255..258 characters, control characters, _sub forms); and '
         'the TXT contract "the bytes decode, in the library and in an independent RFC 6763 section 6 parser, to the given keys '
         'and values" for every dictionary of up to 2 (3) entries over 6 keys x 13 values incl. None, empty, =-containing, '
         'non-UTF-8 and non-string values, plus 255-byte items. This is the right level only in the sense that it is what is '
         'within reach here; it found two genuine defects on the pinned tree (both repaired).',
    design_ref='DESIGN.md section 4 C19 and Build status',
    technique='contract stated on the real functions, checked by bounded exhaustive enumeration (stand-in for the deductive '
              'engine, which has no string theory); static scan of regular-expression texts',
    note='bounded: strings of length <= 4/5 + trailer over 8 characters, dictionaries of <= 2/3 entries; nothing is proved for '
         'longer inputs; Valid() is a hand transcription of the statement')
CHECKS['C04'] = dict(
    text='The browser side of the statement, per function, for all pending tables, update batches, caches and scheduler states: '
         '_enqueue_callback is proved to implement the precedence table exactly (Added always; Removed unless an Added is '
         'pending; Updated only into an empty slot; every other key untouched). async_update_records is proved with four loop '
         'invariants: after the batch, Added is pending for (instance, type) iff it already was or some update is a NEW pointer '
         '(previous copy None) whose owner name has that browsed type, Removed is pending iff no Added is and it already was or '
         'some update is an expired pointer with a previous copy; nothing is dropped from the table; no callback is delivered '
         'from here (fire log unchanged); the scheduler is told reschedule exactly for new/refreshed pointers and cancel exactly '
         'for withdrawn ones (call-site obligations) and keeps its C10 invariant. async_update_records_complete fires every '
         'pending entry exactly once (one event per key, with the table\'s value) and empties the table. A step lemma composes '
         'these with the C06/C05 contracts for one identity: "reported live == pointer cached" is preserved by one datagram or '
         'purge report, an Added only arrives when not live and a Removed only when live (alternation). That callbacks run only '
         'after the cache holds the datagram\'s records is the C06 ordering obligation (async_updates_complete after both cache '
         'mutations).',
    design_ref='DESIGN.md section 4 C04',
    note='T7 handlers do not touch the pending table; cached_possible_types is an uninterpreted pure function; enum members modelled by '
         'their values; Updated events only bounded; the step lemma restates the C06/C05 postconditions as hypotheses (per '
         'identity, one spelling per datagram - the statement\'s own restrictions); initial replay (_async_update_matching_records) '
         'and the purge report (_async_cache_cleanup) are C06/C05 scope and not re-proved here; the threaded ServiceBrowser '
         'hand-off is outside the family')
CHECKS['C17'] = dict(
    text='Quietness after close is reduced to per-function obligations that are all discharged: (1) Zeroconf.async_send, real body: '
         'once `done` is set its frame is EMPTY (nothing built, nothing handed to a transport), and no datagram over 8966 bytes is '
         'ever handed to one; static scans show sendto is only reached through async_send and that `done` is only ever set to True. '
         'So whatever timer or task outlives close (reply queues, deferred truncated queries, browser passes, announcements) '
         'cannot transmit. (2) _close is idempotent and sets done; _async_close sets done BEFORE shutting the engine down. '
         '(3) AsyncEngine._async_close, with an await model that havocs the whole heap at `await asyncio.sleep(0)`: the purge '
         'timer that is current AFTER the flush is cancelled (the purge re-arms itself). (4) async_unregister_all_services: three '
         'multicasts of the one goodbye builder 125 ms apart, returning at the instant of the last send. (5) AsyncZeroconf.'
         'async_close: browsers cancelled, then goodbyes, then _async_close (call-site obligations with ghost flags). (6) every '
         'call_later/call_at/call_soon*/ensure_future/create_task site of the package (mechanical scan, 27 sites) targets a '
         'function with a quiet contract; _set_future_none_if_not_done never raises; wait_for_future_set_or_timeout always cancels '
         'its handle and withdraws its future across the await (try/finally). (7) the browser passes end silently when done '
         '(C10 contracts re-verified).',
    design_ref='DESIGN.md section 4 C17 and 3.4',
    note='await model A5 (heap havoc, ideal clock, logs grow, cancelled handles stay cancelled, environment-stability rely clauses '
         'STABLE listed in contracts/c17.py); close() from a foreign thread is outside the family; browser cancellation by '
         'remove_all_service_listeners and the effect of closing transports are assumed (ghost flags); packets() and '
         'async_send_with_transport abstracted')
CHECKS['C18'] = dict(
    text='Ten functions of the lookup are under contract and verified for all caches, records and clocks (the last three - '
         'ServiceInfo.async_update_records, get_ip_address_object_from_record, ip_bytes_and_scope_to_address - with "raises nothing": '
         'a malformed or short address yields None, never an exception): '
         '_process_record_threadsafe: an expired record changes nothing; host/port/priority/weight change only from a live SRV record '
         'whose key is the instance\'s, TXT only from a live TXT record of it, addresses only from a live address record whose key is '
         'the host\'s (then that address is held and nothing else is added) or when a live SRV moves the host; no held address is '
         'dropped otherwise. _get_ip_addresses_from_cache_lifo: every returned address comes from a cached address record of the host, '
         'of the asked type, that is not expired at `now`, no duplicates. _load_from_cache returns exactly "knows an address". '
         '_add_question_with_known_answers: asked unless (SRV/TXT) a non-stale answer is cached or (QM) the history suppresses it; QU '
         'never suppressed nor recorded; known answers exactly the cached records with more than half their TTL left, written at '
         '`now`; QM questions recorded. _generate_request_query: one flag for the whole query. async_request with the await model: '
         'succeeds iff it knows an address at return; the listener registration is removed on every exit path (finally, also on '
         'exceptions); for a started instance it returns no later than the timeout (ideal clock) and builds no query at or after the '
         'deadline; QU for the first query and QM afterwards, a forced type applying to the first query (call-site obligations); '
         'nothing is sent once complete and never an empty query.',
    design_ref='DESIGN.md section 4 C18 and 9',
    note='NOT proved (kept as concrete-only clauses, bounded): completeness of the address load (every live cached address of the host '
         'is held after _load_from_cache / returned by the lifo read); the spacing of successive queries. Optional[str] server fields '
         'modelled as strings (None = empty string); address objects are an uninterpreted function of the record identity; cached '
         'A/AAAA records are DNSAddress objects (decoder, C02); A5 await model with the stability rely clauses listed in '
         'contracts/c18.py; termination of the wait loop is not proved')
CHECKS['C09'] = dict(
    text='Probing and announcing, per function, for all services, caches and clocks: the record builders _dns_pointer/_dns_service/'
         '_dns_text and the name setter preserve memo_ok (a memoised record always shows the CURRENT name, TTL and rdata - so a probe, '
         'announcement or goodbye built after a rename is about the new name), with PTR in class IN without and SRV/TXT with the '
         'cache-flush bit and the override TTL when given. generate_service_query: exactly one QU PTR question for the type with the '
         'proposed pointer as the only authority record. async_check_service with the await model (two nested loops): a probe is '
         'sent only at its scheduled instant (next_time, advanced by 175 ms per probe and reset together with the counter on a '
         'rename), only while fewer than three were sent for the current name, and only if at that very instant the cache holds no '
         'unexpired pointer of the type with exactly this instance name; it returns normally only after three such probes; '
         'NonUniqueNameException escapes only when renaming is not allowed. _add_broadcast_answer / generate_service_broadcast: PTR, '
         'SRV, TXT in that order, then the address and NSEC records iff asked, every record with the override TTL when given, '
         'cache-flush bit on everything but the PTR, flags QR|AA, multicast, no questions. _async_broadcast_service: three '
         'transmissions `interval` ms apart built with exactly the given service/TTL/flag, ending at the instant of the third. '
         'async_register_service: registry insertion and the announcement task only after the probes (call-site obligations), '
         'announcing with 225 ms spacing and no TTL override.',
    design_ref='DESIGN.md section 4 C09 and 9',
    note='A5 await model; get_address_and_nsec_records/_dns_addresses assumed by contract; service_type_name and the f-string of the '
         'renamed instance are opaque (the "-N" numbering is not proved); registry.async_add (name uniqueness: C03) and the conflict '
         'lookup current_entry_with_name_and_alias (C05) are callee contracts verified in those checks; ensure_future applies the '
         'coroutine\'s contract at the call; seed C09-probe-wait-continue-dropped is reported UNDECIDED (exit 2), not as a violation')
CHECKS['C08'] = dict(
    category='other',
    text='NOT a proof of the whole statement: its second clause (nothing of a withdrawn service is transmitted with a non-zero TTL '
         'afterwards) is violated on the pinned tree by answers already queued in the reply queues when the service is unregistered '
         '(known finding F7, reproduced on the real objects in every run and printed as KNOWN-FINDING; not repaired, see DESIGN 9.2). '
         'Proved (deductive, all inputs): goodbye completeness - the record builders keep memo_ok and apply the override TTL; '
         '_add_broadcast_answer / generate_service_broadcast put PTR, SRV, TXT and (iff asked) every address and NSEC record into the '
         'message, with TTL 0 on every record when the override is 0; _async_broadcast_service sends that message three times at the '
         'given spacing; async_unregister_service removes the service from the registry FIRST, then asks the registry for other '
         'services on the host, withdraws the address/NSEC records exactly when there is none, with TTL 0 and 125 ms spacing '
         '(call-site obligations on the actual arguments); generate_unregister_all_services withdraws every registered service with '
         'its address records and empties the registry only afterwards. Bounded (concrete contract evaluation on real registries with '
         'shared hosts and mixed address families): the message is complete per service, incl. the assumed address/NSEC builder.',
    design_ref='DESIGN.md section 4 C08 and 9.2 (F7)',
    note='registry operations by their C03 contracts; get_address_and_nsec_records/_dns_addresses assumed by contract (checked only '
         'by the bounded harness); an announcement task still sleeping when its service is unregistered (register-then-unregister '
         'within 450 ms) can follow the last goodbye: outside the claim; A5 await model')
CHECKS['C02'] = dict(
    text='Proved for ALL byte strings (no length bound), function by function: TOTALITY - each of the ten decoder functions raises at most '
         'IndexError or IncomingDecodeError (a safety obligation for every subscript, slice, dict/list access and explicit raise in the '
         'real bodies), and DNSIncoming.__init__ and answers() catch exactly these: their contracts say "raises nothing" and are '
         'discharged; BOUNDED RECURSION - _decode_labels_at_offset follows a compression pointer (one more Python frame) only while '
         'fewer than 128 have been followed (call-site obligation, refuted on the tree before the F3 repair and replayed with a witness '
         'datagram); every name returned by _read_name has at most 253 characters and so has every question and record the message '
         'holds; valid implies a complete header. NOT proved, bounded stand-in only (labelled so in the evidence): faithfulness against '
         'an independent strict RFC 1035 parser written in contracts/c02.py, and absence of exceptions once more natively - every '
         'byte string over a 7-byte adversarial alphabet up to length 5 (7 thorough) behind a query and a response header, pointer '
         'chains up to depth 4000, small compression graphs, and every truncation and bit flip of encoder-made messages (40 000 / '
         '2 000 000 parses).',
    design_ref='DESIGN.md section 4 C02 and 9',
    note='_read_bitmap (NSEC window loop) is an ASSUMED contract (raises only IndexError, moves only the offset); bytes.decode and '
         'str.join uninterpreted; record constructors assumed not to raise for the decoder\'s argument types; RecursionError is '
         'excluded through the hop bound (depth <= hops + 1), not modelled as a raise; the work bound ("fixed budget") is not '
         'proved: loop termination variants were not added')
CHECKS['C01'] = dict(
    category='other',
    text='The statement (what is encoded is what any decoder recovers, across compression and packet splitting) is a whole-message '
         'property and is NOT proved: it is checked by a BOUNDED stand-in - every ordered selection of up to 2 (3 thorough) entries out '
         'of 18 (questions and all seven record kinds over names that share suffixes in mixed case, with spaces, non-ASCII and 63-byte '
         'labels, TTL 0 and 2^32-1) as multicast response and unicast query, a 200-record multi-packet message and the 63/64/65-byte '
         'label boundary, through the real DNSOutgoing.packets() into the real DNSIncoming AND an independent strict RFC 1035 '
         'parser. Proved deductively for all inputs (the per-function kernel the round trip rests on): a label is written only if it is at '
         'most 63 UTF-8 bytes and is preceded by exactly its length byte (refuted on the tree before the F2 repair); character-strings at '
         'most 255 bytes preceded by their length; the two compression-pointer bytes are 0xC0 | index>>8 and index & 0xFF for index < '
         '16384, and the decoder\'s expression (b0 & 0x3F) * 256 + b1 returns the index (lemma); shorts and the TTL are big-endian '
         '(lemmas); the class word carries the cache-flush bit iff unique and multicast. Size bookkeeping, name-table rollback and '
         'section accounting are the C14 obligations.',
    design_ref='DESIGN.md section 4 C01 and 9',
    technique='contract-based deductive verification of the encoder primitives (pyvc + z3/cvc5); the round-trip statement itself by a '
              'bounded small-scope stand-in (real encoder -> real decoder and an independent strict parser)',
    note='K3/K5 (offset arithmetic and name-table soundness of write_name against a ghost wire layout) and K9 (per-type rdata '
         'inverse pairs) of the design were not built; struct packers as fixed-width big-endian encoders; utf-8 length as ulen')
CHECKS['C15'] = dict(
    text='"No exception escapes into the event loop" is proved as a chain of raises-nothing contracts, each discharged on the real body '
         'against its callees\' contracts: datagram_received and _process_datagram_at_time (tuple unpacking, duplicate guard, dispatch), '
         'handle_query_or_defer and _respond_query (deferral tables), QueryHandler.handle_assembled_query - where Zeroconf.async_send is '
         'given the contract "raises NamePartTooLongException iff the builder holds a name that cannot be encoded" and only the '
         'legacy-unicast reply (which echoes question names from the wire) can be such a builder: the obligation that this exception '
         'is contained is refuted on the tree before the F6 repair and replayed with a witness datagram. The decoder (total: C02), '
         'the record manager (C06), async_response and the reply builders (C11) and the reply queues (C12) enter through the contracts '
         'those checks verify. Oversized datagrams: frame obligation (nothing read or written above 8966 bytes). A call-graph scan lists '
         'every function reached from datagram_received with the check that owns its contract. The functions of that path whose '
         'contracts belong to other checks (decoder C02, record manager C06, cache C05, ServiceInfo listener and address helpers C18, '
         'classification and queues C12, dispatch and reply builders C11, question history C13, strategies, answer builders and registry '
         'lookups C03: 57 functions) are generated and discharged again inside this run (obligation ids C15/<function>/via-<owner>:...), '
         'so a change inside any of them is reported by this check as well. Bounded (labelled so): 2 x ~1500 hostile datagrams delivered natively in one '
         'stream to a real listener with a registered service.',
    design_ref='DESIGN.md section 4 C15 and 9',
    note='valid_info precondition on registered services (their own records encode); transports do not raise into sendto; "keeps '
         'working afterwards" = the invariants preserved in C03/C05/C06/C12, not a separate obligation; browser listeners '
         '(C04) are on the path only when a browser is running and are not re-verified here; 2-tuple address form')
NOT_APPLICABLE = {
    'C07': 'end-to-end liveness over several hosts and lossy delivery: no per-function contract can express it '
           '(DESIGN.md section 6)',
}
for p in ['C01', 'C02', 'C03', 'C04', 'C06', 'C08', 'C09', 'C10', 'C11', 'C12', 'C13', 'C14', 'C15', 'C16', 'C17',
          'C18', 'C19']:
    if p not in CHECKS:
        NOT_APPLICABLE[p] = NOT_YET
