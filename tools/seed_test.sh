#!/bin/sh
# tools/seed_test.sh <seed-dir> <PROP>: apply the seeded patch to a scratch copy of /repo, run the demo on both trees
# and the check on the patched one.
SD=$1; PROP=$2
D=$(mktemp -d /tmp/seed.XXXXXX)
cp -r /repo/src $D/src
echo "--- demo on original tree:"; (cd $D && PYTHONPATH=$D/src /venv/bin/python $OLDPWD/$SD/demo.py >/dev/null 2>&1; echo "exit $?")
(cd $D && patch -p1 -s < $OLDPWD/$SD/patch.diff) || { echo "PATCH FAILED"; rm -rf $D; exit 9; }
echo "--- demo on patched tree:"; (cd $D && PYTHONPATH=$D/src /venv/bin/python $OLDPWD/$SD/demo.py >/dev/null 2>&1; echo "exit $?")
cp evidence/$PROP.json $D/ev.bak 2>/dev/null
echo "--- check $PROP on patched tree:"
VERIF_REPO_SRC=$D/src ./check $PROP | grep -v "^  " | cut -c1-260
cp $D/ev.bak evidence/$PROP.json 2>/dev/null
rm -rf $D
