#!/usr/bin/env python3
"""tools/dump_ob.py PROP 'substring of obligation id' [outfile]: write the SMT-LIB text of matching obligations."""
import sys, os
sys.path.insert(0, os.path.dirname(os.path.dirname(os.path.abspath(__file__))))
from pyvc.driver import Run
from pyvc import solve
prop, pat = sys.argv[1], sys.argv[2]
out = sys.argv[3] if len(sys.argv) > 3 else '/tmp/ob'
only = os.environ.get('ONLY_FUNC')
run = Run(prop)
run.build()
if only:
    for c in list(run.R.contracts.values()):
        if c.qualname != only and c.verify:
            c.verify = False
run.generate()
ax = run.axioms()
n = 0
for ob in run.ctx.obligations:
    if pat in ob.oid:
        path = '%s_%d.smt2' % (out, n)
        open(path, 'w').write(solve.to_smt2(ob.formula(ax), want_model=True))
        print(ob.oid, '->', path, 'pc', len(ob.pc))
        n += 1
