#!/bin/sh
# Build the overlay venv (offline): python 3.12 with z3-solver + jsonschema, plus /venv's
# site-packages (the repo's own dependencies and the editable install of /repo/src).
set -e
cd "$(dirname "$0")"
if [ ! -x .venv/bin/python ] || ! .venv/bin/python -c "import z3, jsonschema, zeroconf" 2>/dev/null; then
  rm -rf .venv
  /venv/bin/python -m venv .venv
  PIP_NO_INDEX=1 .venv/bin/pip install -q --no-index --find-links /opt/veriftools/wheels z3-solver jsonschema
  SP=$(.venv/bin/python -c "import sysconfig; print(sysconfig.get_paths()['purelib'])")
  echo "import site; site.addsitedir('/venv/lib/python3.12/site-packages')" > "$SP/zz_repo_overlay.pth"
fi
.venv/bin/python -c "import z3, jsonschema, zeroconf; print('setup ok: z3', z3.get_version_string(), 'zeroconf from', zeroconf.__file__)"
