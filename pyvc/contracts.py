"""Sidecar contract objects (the specification language is Python expression text)."""


class View:
    """One aspect of a function's contract, verified on its own: a self-contained inductive set of loop
    invariants (plus invariants proved by OTHER views that are only assumed here) and the postconditions that
    follow from them.  At call sites the union of all views' postconditions is used."""

    def __init__(self, name, loops=None, ensures=(), at_calls=None, only_loops=False):
        self.name = name
        self.only_loops = only_loops     # safety / call-site preconditions are checked by another (final) view
        self.loops = dict(loops or {})
        self.ensures = list(ensures)
        self.at_calls = dict(at_calls or {})


class Loop:
    def __init__(self, inv=(), modifies=None, decreases=None, unroll=False, assume_only=(), lemmas=()):
        self.lemmas = list(lemmas)             # definitional unfoldings (bsum_unfold(...)) assumed at the loop head
        self.assume_only = list(assume_only)   # invariants established by another view (assumed, not re-proved)
        self.inv = list(inv)
        self.modifies = modifies      # None -> function-level modifies
        self.decreases = decreases
        self.unroll = unroll


class Contract:
    def __init__(self, module, qualname, props, params=None, returns=None, requires=(), ensures=(),
                 raises=None, raises_exact=(), modifies=(), loops=None, ensures_raise=None,
                 trusted=False, note='', ghost=None, verify=True, inline_callees=(), canary=True,
                 result_alias=None, pure=False, decreases=None, lemmas=(), ghost_out=None, at_calls=None, ghost_defs=(), views=(), merge='all'):
        self.module = module
        self.qualname = qualname
        self.props = [props] if isinstance(props, str) else list(props)
        self.params = dict(params or {})
        self.returns = returns
        self.requires = list(requires)
        self.ensures = list(ensures)
        self.raises = dict(raises or {})          # exc name -> condition text (over the pre-state)
        self.raises_exact = set(raises_exact)     # exc names whose condition is 'iff'
        self.modifies = list(modifies)
        self.loops = dict(loops or {})
        self.ensures_raise = dict(ensures_raise or {})
        self.trusted = trusted                    # assumed contract (not verified): listed in evidence
        self.note = note
        self.ghost = dict(ghost or {})
        self.verify = verify and not trusted
        self.inline_callees = set(inline_callees)
        self.canary = canary
        self.result_alias = result_alias          # text of a location the result aliases (containers)
        self.pure = pure
        self.decreases = decreases
        self.lemmas = list(lemmas)
        self.views = list(views)
        self.merge = merge                        # path merging: 'all' | 'outside-loops' | 'none'
        self.ghost_defs = list(ghost_defs)        # definitions of ghost functions, assumed at entry (conservative)
        self.at_calls = dict(at_calls or {})      # callee name -> [spec text] asserted in the caller's state at each call
        self.ghost_out = dict(ghost_out or {})   # function locals visible to ensures (existential at call sites)
        self.rely = []                           # two-state predicates assumed across every await point of this coroutine
        self.ensures_concrete = []               # clauses the prover cannot close: evaluated ONLY by the bounded concrete harness

    @property
    def key(self):
        return (self.module, self.qualname)

    def all_ensures(self):
        out = list(self.ensures)
        for v in self.views:
            for e in v.ensures:
                if e not in out:
                    out.append(e)
        return out

    def __repr__(self):
        return '<Contract %s:%s>' % (self.module, self.qualname)


class Lemma:
    """A pure obligation that mentions no code: vars, hypotheses, conclusion (spec text)."""

    def __init__(self, name, props, vars, hyps, concl, note=''):
        self.name = name
        self.props = [props] if isinstance(props, str) else list(props)
        self.vars = dict(vars)
        self.hyps = list(hyps)
        self.concl = list(concl) if isinstance(concl, (list, tuple)) else [concl]
        self.note = note


class Registry:
    def __init__(self):
        self.contracts = {}
        self.lemmas = []
        self.spec_funcs = {}     # name -> (params [(name,type)], ret type, body source or callable)
        self.shapes = {}
        self.record_classes = set()
        self.stubs = {}
        self.axioms = []         # callables ctx -> [z3 Bool]
        self.replays = {}        # obligation-id prefix -> callable(model_info) -> dict
        self.ghost_objects = {}  # name -> class name
        self.generators = {}     # contract key -> callable(gen) -> kwargs (concrete inputs)
        self.abstract = set()    # classes never instantiated directly (checked by a static scan)

    def contract(self, *a, **k):
        c = Contract(*a, **k)
        self.contracts[c.key] = c
        return c

    def lemma(self, *a, **k):
        l = Lemma(*a, **k)
        self.lemmas.append(l)
        return l

    def spec(self, name, params, ret, body, concrete=None):
        if concrete is not None:
            self.spec_funcs.setdefault('__concrete__', {})[name] = concrete
        return self._spec(name, params, ret, body)

    def _spec(self, name, params, ret, body):
        """Define a spec function.  body: expression text over the params (may call other spec
        functions), or a python callable(ex, st, *vals) -> Val for built-in helpers."""
        self.spec_funcs[name] = (params, ret, body)

    def shape(self, cls, fields, bases=None):
        d = {'fields': dict(fields)}
        if bases is not None:
            d['bases'] = list(bases)
        if cls in self.shapes:
            self.shapes[cls]['fields'].update(d['fields'])
        else:
            self.shapes[cls] = d

    def merge(self, other):
        self.contracts.update(other.contracts)
        self.lemmas.extend(other.lemmas)
        self.spec_funcs.update(other.spec_funcs)
        for c, d in other.shapes.items():
            self.shape(c, d['fields'], d.get('bases'))
        self.record_classes |= other.record_classes
        self.stubs.update(other.stubs)
        self.axioms.extend(other.axioms)
        self.replays.update(other.replays)
        self.abstract |= other.abstract
