"""Discharge obligations: SMT-LIB2 text -> solver subprocesses with hard timeouts (portfolio)."""
import os
import re
import subprocess
import tempfile
import time
import hashlib
from concurrent.futures import ThreadPoolExecutor

import z3

import itertools
_file_ctr = itertools.count()

SOLVERS = [
    ('z3-5.1', ['z3-new', '-smt2', '-T:{t}']),
    ('z3-4.8', ['/usr/bin/z3', '-smt2', '-T:{t}']),
    ('cvc5-1.0', ['/usr/bin/cvc5', '--lang=smt2', '--tlimit={tms}', '--full-saturate-quant']),
    # E-matching only (no model-based instantiation): proves what pattern instantiation proves and otherwise saturates at once
    # with reason-unknown "(incomplete quantifiers)" - the quick "verification failed" answer for obligations that do not hold
    ('z3-5.1-ematch', ['z3-new', '-smt2', '-T:{t}', 'smt.mbqi=false', 'smt.auto_config=false']),
]


def to_smt2(formulas, want_model=False):
    s = z3.Solver()
    for f in formulas:
        s.add(f)
    text = s.to_smt2()
    text = '(set-logic ALL)\n' + text
    if want_model:
        text = text.replace('(check-sat)', '(check-sat)\n(get-info :reason-unknown)\n(get-model)')
    return text


def run_solver(name, cmd, path, timeout):
    argv = [a.format(t=int(timeout), tms=int(timeout * 1000)) for a in cmd] + [path]
    t0 = time.time()
    try:
        p = subprocess.run(argv, capture_output=True, text=True, errors='replace', timeout=timeout + 5)
        out = p.stdout.strip()
    except subprocess.TimeoutExpired:
        return 'timeout', '', time.time() - t0
    except FileNotFoundError:
        return 'missing', '', 0.0
    first = out.split('\n', 1)[0].strip() if out else ''
    if first == 'unknown':
        # z3 gives up with a candidate model that satisfies every quantifier instance it generated
        # (reason "(incomplete quantifiers)"): the standard "verification failed" answer of SMT-based
        # deductive verifiers.  Timeouts / cancellations / resource limits stay undecided.
        m = re.search(r':reason-unknown\s+"([^"]*)"', out)
        reason = m.group(1) if m else ''
        if 'incomplete' in reason and not any(w in reason for w in ('timeout', 'canceled', 'resource', 'memout', 'max.')):
            return 'sat-candidate', out, time.time() - t0
        return 'unknown', out, time.time() - t0
    if first in ('sat', 'unsat'):
        return first, out, time.time() - t0
    if 'timeout' in out or 'interrupted' in (out + p.stderr):
        return 'timeout', out, time.time() - t0
    return 'error', (out + '\n' + p.stderr)[:2000], time.time() - t0


_sym_cache = {}


def symbols(e):
    """names of uninterpreted constants/functions occurring in e"""
    key = e.get_id()
    r = _sym_cache.get(key)
    if r is not None:
        return r
    acc = set()
    seen = set()
    todo = [e]
    while todo:
        x = todo.pop()
        i = x.get_id()
        if i in seen:
            continue
        seen.add(i)
        if z3.is_quantifier(x):
            todo.append(x.body())
            continue
        if z3.is_app(x):
            d = x.decl()
            if d.kind() == z3.Z3_OP_UNINTERPRETED:
                acc.add(d.name())
            todo.extend(x.children())
    _sym_cache[key] = acc
    return acc


def has_quantifier(e):
    todo = [e]
    seen = set()
    while todo:
        x = todo.pop()
        if x.get_id() in seen:
            continue
        seen.add(x.get_id())
        if z3.is_quantifier(x):
            return True
        if z3.is_app(x):
            todo.extend(x.children())
    return False


def slices(ob, rounds=(1, 2)):
    """Relevance slices of the hypotheses (sound: a subset of the assumptions).  Quantifier-free hypotheses
    (path conditions, definitions) are always kept; a quantified one is kept when it shares a symbol that is not
    ubiquitous with the goal (round 1) or with something already kept (round 2)."""
    hs = [(h, symbols(h), has_quantifier(h)) for h in ob.pc]
    cnt = {}
    for h, sy, q in hs:
        for x in sy:
            cnt[x] = cnt.get(x, 0) + 1
    ubiq = {x for x, c in cnt.items() if c > 0.3 * max(len(hs), 1) and len(hs) > 10}
    R = set(symbols(ob.goal)) - ubiq
    keep = set(i for i, (h, sy, q) in enumerate(hs) if not q)
    for i in keep:
        R |= (hs[i][1] - ubiq) if False else set()
    out = []
    for rd in range(max(rounds)):
        newR = set(R)
        for i, (h, sy, q) in enumerate(hs):
            if i in keep:
                continue
            if (sy - ubiq) & R:
                keep.add(i)
                newR |= (sy - ubiq)
        R = newR
        if (rd + 1) in rounds:
            out.append([hs[i][0] for i in sorted(keep)])
    return out


class Result:
    def __init__(self, ob):
        self.ob = ob
        self.verdict = 'unknown'      # discharged / refuted / unknown / ok-canary / vacuous / canary-unknown
        self.solver = None
        self.seconds = 0.0
        self.tried = []
        self.model = ''
        self.smt_sha = ''


def discharge_one(ob, text, workdir, timeout, second_opinion=False, slice_texts=()):
    # relevance slices first (fewer hypotheses: faster, and sound); the full query last
    if ob.expect == 'unsat' and slice_texts:
        # 1. the full query with a short budget (most obligations close in well under a second)
        r0 = _discharge_text(ob, text, workdir, min(6, timeout), second_opinion, only_first=not second_opinion)
        if r0.verdict in ('discharged', 'refuted', 'solver-disagreement'):
            return r0
        spent = r0.seconds
        # 2. relevance slices (fewer hypotheses: faster, and sound)
        for k, stext in enumerate(slice_texts):
            rs = _discharge_text(ob, stext, workdir, max(5, timeout // 3), False, only_first=True)
            spent += rs.seconds
            if rs.verdict == 'discharged':
                rs.solver = '%s (relevance slice %d)' % (rs.solver, k + 1)
                rs.seconds = spent
                return rs
        r1 = _discharge_text(ob, text, workdir, timeout, second_opinion)
        r1.seconds += spent
        return r1
    return _discharge_text(ob, text, workdir, timeout, second_opinion)


def _discharge_text(ob, text, workdir, timeout, second_opinion=False, only_first=False, parallel=False):
    r = Result(ob)
    r.smt_sha = hashlib.sha256(text.encode()).hexdigest()[:16]
    path = os.path.join(workdir, '%s_%d.smt2' % (r.smt_sha, next(_file_ctr)))
    with open(path, 'w') as fh:
        fh.write(text)
    answers = {}
    solvers = SOLVERS[:1] if only_first else SOLVERS[:3]
    if ob.expect == 'sat':
        # vacuity canaries: satisfiability under quantified axioms is rarely decidable; short budget, one solver
        solvers = SOLVERS[:1]
        timeout = min(timeout, 4)
    if not only_first and ob.expect == 'unsat' and not second_opinion:
        # the portfolio pass: z3 4.8 first - on an unprovable obligation its E-matching saturates within a second with
        # reason-unknown "(incomplete quantifiers)" (the classic "verification failed" answer); the others then get a
        # reduced budget to find a proof the older solver missed
        solvers = [SOLVERS[3], SOLVERS[1], SOLVERS[0], SOLVERS[2]]
    solvers = [(n_, c_) for n_, c_ in solvers if not (n_.startswith('cvc5') and '(lambda' in text)]
    pre = {}
    if parallel and len(solvers) > 1:
        # few obligations are left and the cores are idle: the whole portfolio runs at once (same budgets, same combination of answers)
        with ThreadPoolExecutor(max_workers=len(solvers)) as ex2:
            futs = {n_: ex2.submit(run_solver, n_, c_, path, timeout) for n_, c_ in solvers}
            pre = {n_: f.result() for n_, f in futs.items()}
        r.seconds -= sum(x[2] for x in pre.values()) - max(x[2] for x in pre.values())
    for name, cmd in solvers:
        budget = timeout      # (a candidate model from the E-matching pass does not shorten the budget of the complete solvers)
        v, out, secs = pre[name] if name in pre else run_solver(name, cmd, path, budget)
        r.tried.append((name, v, round(secs, 3)))
        r.seconds += secs
        if v == 'sat-candidate' and ob.expect == 'unsat':
            if not r.model:
                r.model = out[:20000]
                r.candidate = name
            continue
        if v in ('sat', 'unsat'):
            answers[name] = v
            if r.solver is None:
                r.solver = name
                if v == 'sat':
                    r.model = out[:20000]
            if not second_opinion or len(answers) >= 2:
                break
    try:
        os.unlink(path)
    except OSError:
        pass
    vs = set(answers.values())
    if len(vs) > 1:
        r.verdict = 'solver-disagreement'
        return r
    if ob.expect == 'sat':
        if 'sat' in vs:
            r.verdict = 'ok-canary'
        elif 'unsat' in vs:
            r.verdict = 'vacuous'
        else:
            r.verdict = 'canary-unknown'
        return r
    if 'unsat' in vs:
        r.verdict = 'discharged'
    elif 'sat' in vs:
        r.verdict = 'refuted'
    elif getattr(r, 'candidate', None):
        r.verdict = 'refuted'
        r.solver = r.candidate + ' (candidate model, incomplete quantifiers)'
    else:
        r.verdict = 'unknown'
    return r


def discharge(obligations, axioms, timeout=10, jobs=None, second_opinion=False, workdir=None):
    """Two passes: (1) every obligation with a short budget on the first solver; (2) what is left, with relevance
    slices and the whole portfolio.  When very many are left the tree is probably broken in a systematic way:
    the second pass then uses a reduced budget so that the run still ends in reasonable time."""
    jobs = jobs or min(16, os.cpu_count() or 4)
    own = workdir is None
    if own:
        workdir = tempfile.mkdtemp(prefix='pyvc_smt_')
    use_slices = not os.environ.get('VERIF_NO_SLICES')
    texts = [to_smt2(ob.formula(axioms), want_model=True) for ob in obligations]
    results = [None] * len(obligations)
    quick = min(6, timeout)

    def first(i):
        ob = obligations[i]
        return _discharge_text(ob, texts[i], workdir, quick, False, only_first=True)
    with ThreadPoolExecutor(max_workers=jobs) as ex:
        for i, r in enumerate(ex.map(first, range(len(obligations)))):
            results[i] = r
    # a candidate answer ("incomplete") of the single first-pass solver is not a verdict: the obligation goes to the portfolio like an open one
    for r in results:
        if r.verdict == 'refuted' and getattr(r, 'candidate', None) and not any(v == 'sat' for _, v, _ in r.tried):
            r.verdict = 'unknown'
    todo = [i for i, r in enumerate(results)
            if r.verdict in ('unknown',) or (second_opinion and r.verdict == 'discharged')]
    hard = [i for i in todo if results[i].verdict == 'unknown']
    budget = timeout if len(hard) <= 60 else max(30, timeout // 2)

    # all z3-API work (not thread-safe) happens here in the main thread
    slice_texts = {}
    for i in hard:
        ob = obligations[i]
        if use_slices and len(ob.pc) > 40:
            slice_texts[i] = [to_smt2(list(axioms) + hyps + [z3.Not(ob.goal)])
                              for hyps in slices(ob) if len(hyps) < len(ob.pc)]

    def second(i):
        ob = obligations[i]
        spent = results[i].seconds
        if results[i].verdict == 'unknown':
            for k, stext in enumerate(slice_texts.get(i, [])):
                rs = _discharge_text(ob, stext, workdir, max(5, budget // 3), False, only_first=True)
                spent += rs.seconds
                if rs.verdict == 'discharged':
                    rs.solver = '%s (relevance slice %d)' % (rs.solver, k + 1)
                    rs.seconds = spent
                    return rs
        r1 = _discharge_text(ob, texts[i], workdir, budget, second_opinion, parallel=(len(todo) <= 3))
        r1.seconds += spent
        return r1
    if todo:
        with ThreadPoolExecutor(max_workers=jobs) as ex:
            for i, r in zip(todo, ex.map(second, todo)):
                results[i] = r
    # third pass (only when something failed): an obligation that no solver proved and that has no genuine counter-model is given
    # to the solvers that ran out of time once more, with twice the budget and little else running - so that a verdict does not
    # depend on how busy the machine was
    again = [i for i, r in enumerate(results) if r.ob.expect == 'unsat' and r.verdict in ('refuted', 'unknown')
             and not any(v == 'sat' for _, v, _ in r.tried) and any(v == 'timeout' for _, v, _ in r.tried)]

    def third(i):
        r = results[i]
        ob = obligations[i]
        late = [n for n, v, _ in r.tried if v == 'timeout']
        path = os.path.join(workdir, 'retry_%d_%d.smt2' % (i, next(_file_ctr)))
        with open(path, 'w') as fh:
            fh.write(texts[i])
        try:
            cand = [(n_, c_) for n_, c_ in [SOLVERS[2], SOLVERS[0]] if n_ in late and not (n_.startswith('cvc5') and '(lambda' in texts[i])]
            pre = {}
            if len(again) <= 3 and len(cand) > 1:
                with ThreadPoolExecutor(max_workers=len(cand)) as ex2:
                    futs = {n_: ex2.submit(run_solver, n_, c_, path, 2 * budget) for n_, c_ in cand}
                    pre = {n_: f.result() for n_, f in futs.items()}
            for name, cmd in cand:
                v, out, secs = pre[name] if name in pre else run_solver(name, cmd, path, 2 * budget)
                r.tried.append((name + ' (retry)', v, round(secs, 3)))
                r.seconds += secs
                if v == 'unsat':
                    r.verdict = 'discharged'
                    r.solver = name + ' (second attempt, doubled budget)'
                    r.model = ''
                    break
                if v == 'sat':
                    r.verdict = 'refuted'
                    r.solver = name
                    r.model = out[:20000]
                    break
        finally:
            try:
                os.unlink(path)
            except OSError:
                pass
        return r
    if again and not os.environ.get('VERIF_NO_RETRY'):
        with ThreadPoolExecutor(max_workers=max(2, jobs // 3)) as ex:
            list(ex.map(third, again[:40]))
    if own:
        try:
            os.rmdir(workdir)
        except OSError:
            pass
    return results
