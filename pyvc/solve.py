"""Discharge obligations: SMT-LIB2 text -> solver subprocesses with hard timeouts (portfolio)."""
import os
import re
import subprocess
import tempfile
import time
import hashlib
from concurrent.futures import ThreadPoolExecutor

import z3

import itertools
_file_ctr = itertools.count()

SOLVERS = [
    ('z3-5.1', ['z3-new', '-smt2', '-T:{t}']),
    ('z3-4.8', ['/usr/bin/z3', '-smt2', '-T:{t}']),
    ('cvc5-1.0', ['/usr/bin/cvc5', '--lang=smt2', '--tlimit={tms}', '--full-saturate-quant']),
]


def to_smt2(formulas, want_model=False):
    s = z3.Solver()
    for f in formulas:
        s.add(f)
    text = s.to_smt2()
    text = '(set-logic ALL)\n' + text
    if want_model:
        text = text.replace('(check-sat)', '(check-sat)\n(get-info :reason-unknown)\n(get-model)')
    return text


def run_solver(name, cmd, path, timeout):
    argv = [a.format(t=int(timeout), tms=int(timeout * 1000)) for a in cmd] + [path]
    t0 = time.time()
    try:
        p = subprocess.run(argv, capture_output=True, text=True, timeout=timeout + 5)
        out = p.stdout.strip()
    except subprocess.TimeoutExpired:
        return 'timeout', '', time.time() - t0
    except FileNotFoundError:
        return 'missing', '', 0.0
    first = out.split('\n', 1)[0].strip() if out else ''
    if first == 'unknown':
        # z3 gives up with a candidate model that satisfies every quantifier instance it generated
        # (reason "(incomplete quantifiers)"): the standard "verification failed" answer of SMT-based
        # deductive verifiers.  Timeouts / cancellations / resource limits stay undecided.
        m = re.search(r':reason-unknown\s+"([^"]*)"', out)
        reason = m.group(1) if m else ''
        if 'incomplete' in reason and 'timeout' not in reason and 'canceled' not in reason:
            return 'sat-candidate', out, time.time() - t0
        return 'unknown', out, time.time() - t0
    if first in ('sat', 'unsat'):
        return first, out, time.time() - t0
    if 'timeout' in out or 'interrupted' in (out + p.stderr):
        return 'timeout', out, time.time() - t0
    return 'error', (out + '\n' + p.stderr)[:2000], time.time() - t0


class Result:
    def __init__(self, ob):
        self.ob = ob
        self.verdict = 'unknown'      # discharged / refuted / unknown / ok-canary / vacuous / canary-unknown
        self.solver = None
        self.seconds = 0.0
        self.tried = []
        self.model = ''
        self.smt_sha = ''


def discharge_one(ob, text, workdir, timeout, second_opinion=False):
    r = Result(ob)
    r.smt_sha = hashlib.sha256(text.encode()).hexdigest()[:16]
    path = os.path.join(workdir, '%s_%d.smt2' % (r.smt_sha, next(_file_ctr)))
    with open(path, 'w') as fh:
        fh.write(text)
    answers = {}
    solvers = SOLVERS
    if ob.expect == 'sat':
        # vacuity canaries: satisfiability under quantified axioms is rarely decidable; short budget, one solver
        solvers = SOLVERS[:1]
        timeout = min(timeout, 4)
    for name, cmd in solvers:
        if name.startswith('cvc5') and '(lambda' in text:
            continue
        v, out, secs = run_solver(name, cmd, path, timeout)
        r.tried.append((name, v, round(secs, 3)))
        r.seconds += secs
        if v == 'sat-candidate' and ob.expect == 'unsat':
            if not r.model:
                r.model = out[:20000]
                r.candidate = name
            continue
        if v in ('sat', 'unsat'):
            answers[name] = v
            if r.solver is None:
                r.solver = name
                if v == 'sat':
                    r.model = out[:20000]
            if not second_opinion or len(answers) >= 2:
                break
    try:
        os.unlink(path)
    except OSError:
        pass
    vs = set(answers.values())
    if len(vs) > 1:
        r.verdict = 'solver-disagreement'
        return r
    if ob.expect == 'sat':
        if 'sat' in vs:
            r.verdict = 'ok-canary'
        elif 'unsat' in vs:
            r.verdict = 'vacuous'
        else:
            r.verdict = 'canary-unknown'
        return r
    if 'unsat' in vs:
        r.verdict = 'discharged'
    elif 'sat' in vs:
        r.verdict = 'refuted'
    elif getattr(r, 'candidate', None):
        r.verdict = 'refuted'
        r.solver = r.candidate + ' (candidate model, incomplete quantifiers)'
    else:
        r.verdict = 'unknown'
    return r


def discharge(obligations, axioms, timeout=10, jobs=None, second_opinion=False, workdir=None):
    jobs = jobs or min(16, os.cpu_count() or 4)
    own = workdir is None
    if own:
        workdir = tempfile.mkdtemp(prefix='pyvc_smt_')
    texts = []
    for ob in obligations:
        texts.append(to_smt2(ob.formula(axioms), want_model=True))
    with ThreadPoolExecutor(max_workers=jobs) as ex:
        futs = [ex.submit(discharge_one, ob, tx, workdir, timeout, second_opinion)
                for ob, tx in zip(obligations, texts)]
        results = [f.result() for f in futs]
    if own:
        try:
            os.rmdir(workdir)
        except OSError:
            pass
    return results
