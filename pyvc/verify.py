"""Executor assembly + per-function verification-condition generation."""
import ast
import z3

from .core import (Val, Sc, RefV, NoneV, TupleV, Cont, PyConst, FuncV, ClassV, CellLoc, FieldLoc, TermLoc, State,
                   Outcome, Obligation, VCError, Ctx, fresh, base_axioms)
from .types import (T, INT, REAL, BOOL, STR, BYTES, OPTINT, IDENT, ANYREF, Ref, Str, Bytes, NONE, parse_type, ref)
from .execbase import Base, Frame
from .execcont import ContMixin, card_axioms
from .execexpr import ExprMixin
from .execcall import CallMixin
from .execlib import LibMixin
from .execstmt import StmtMixin
from .execcomp import CompMixin


class Executor(Base, ContMixin, ExprMixin, CallMixin, LibMixin, StmtMixin, CompMixin):
    def __init__(self, ctx):
        self.ctx = ctx
        self._spec_cache = {}
        self.current_prop = '?'

    # getattr on super() objects
    def getattr(self, v, attr, st, frame, node):
        if isinstance(v, FuncV) and v.kind == 'superobj':
            mro = self.ctx.shapes.mro(v.cls) if v.cls in self.ctx.shapes._ids else self.ctx.repo.mro(v.cls)
            for c in self.ctx.repo.mro(v.cls)[1:]:
                mn, cd = self.ctx.repo.class_def(c)
                if cd is None:
                    continue
                f = self.ctx.repo.modules[mn].funcs.get(c + '.' + attr)
                if f is not None:
                    yield st, FuncV('supermethod', finfo=f, recv=v.recv, cls=c)
                    return

            def noop(ex, args, kwargs, st_, frame_, node_):
                yield st_, NoneV()
            yield st, FuncV('stub', fn=noop)
            return
        yield from super().getattr(v, attr, st, frame, node)

    # ------------------------------------------------------------------------------------------
    def param_type(self, c, f, name, default_cls):
        ts = c.params.get(name)
        if ts is not None:
            return parse_type(ts), ts.strip().startswith('opt[')
        if name == 'self' and default_cls:
            return ref(default_cls), False
        for a in f.node.args.posonlyargs + f.node.args.args + f.node.args.kwonlyargs:
            if a.arg == name and a.annotation is not None:
                t = self.ctx.annotation_type(ast.unparse(a.annotation), Frame(f.module, f.cls, f, c))
                if t is not None:
                    return t, 'Optional' in ast.unparse(a.annotation)
        raise VCError('no type for parameter %s of %s' % (name, f.qualname))

    def verify_function(self, c, prop):
        """Generate the obligations of one function under contract (once per view)."""
        if not c.views:
            return self._verify_view(c, prop, None)
        for v in c.views:
            self._verify_view(c, prop, v)

    def _verify_view(self, c, prop, view):
        ctx = self.ctx
        self.current_prop = prop
        f = ctx.repo.func(c.module, c.qualname)
        frame = Frame(f.module, f.cls, f, c, 0, verifying=True)
        if view is not None:
            frame.label = '%s[%s]' % (f.qualname, view.name)
            frame.view_loops = view.loops
            frame.view = view
        st = State(ctx)
        a = f.node.args
        names = [x.arg for x in a.posonlyargs + a.args + a.kwonlyargs]
        for n in names:
            t, nullable = self.param_type(c, f, n, f.cls)
            v = self.fresh_val('p_' + n, t, st, nullable=nullable)
            if isinstance(v, RefV) and not nullable:
                st.assume(z3.Select(ctx.alive0, v.term))
            st.locals[n] = v
        for gname, gts in c.ghost.items():
            st.locals[gname] = self.fresh_val('g_' + gname, parse_type(gts), st)
        # preconditions
        sp = st.fork()
        sp.spec = True
        for r in c.requires:
            st.assume(self.spec_bool(r, sp, frame))
        for gd in c.ghost_defs:
            st.assume(self.spec_bool(gd, sp, frame))
            self.ctx.assumed.add('ghost definition in %s (conservative extension): %s' % (c.qualname, gd[:160]))
        label = '%s/%s.%s' % (prop, f.module.replace('zeroconf.', ''), frame.label)
        if c.canary:
            ob = Obligation(ctx.new_oid(label + '/canary-pre'), 'canary', st.pc, z3.BoolVal(False),
                            note='precondition must be satisfiable')
            ob.expect = 'sat'
            ctx.obligations.append(ob)
        pre = st.fork()
        pre.spec = True
        st.old = pre
        param_cells = {n: (v, v.loc.read(st)) for n, v in st.locals.items() if isinstance(v, Cont)}
        outs = self.exec_block(f.node.body, st, frame)
        outs.extend(frame.raises)
        frame.raises = []
        normal_pcs = []
        for o in outs:
            if o.kind in ('normal', 'return'):
                val = o.val if o.kind == 'return' else NoneV()
                self.check_exit(c, f, frame, pre, o.st, val, label, param_cells)
                normal_pcs.append(z3.And(*o.st.pc) if o.st.pc else z3.BoolVal(True))
            elif o.kind == 'raise':
                self.check_raise(c, f, frame, pre, o, label)
            else:
                raise VCError('%s escaped function body' % o.kind)
        if c.canary and normal_pcs:
            ob = Obligation(ctx.new_oid(label + '/canary-exit'), 'canary', [z3.Or(*normal_pcs)], z3.BoolVal(False),
                            note='some normal exit must be reachable (guards against vacuous proofs)')
            ob.expect = 'sat'
            ctx.obligations.append(ob)

    def check_exit(self, c, f, frame, pre, st, val, label, param_cells):
        ctx = self.ctx
        if c.returns and c.returns != 'none' and isinstance(val, Cont) and getattr(val, 'empty_literal', False):
            rt0 = parse_type(c.returns)
            if rt0.is_container:
                self.term(val, st, rt0)
        post = st.fork()
        post.spec = True
        post.pc = st.pc
        post.old = pre
        post.locals = dict(pre.locals)
        # container params keep their identity (location) -> current value is read through the loc
        if c.returns and c.returns != 'none':
            rt = parse_type(c.returns)
            if isinstance(val, Cont) and getattr(val, 'empty_literal', False) and rt.is_container:
                self.term(val, st, rt)
            if isinstance(val, NoneV) and rt.kind == 'ref':
                val = RefV(NONE, rt, True)
            elif isinstance(val, NoneV) and rt.kind == 'optint':
                val = Sc(self.term(val, st, OPTINT), OPTINT)
            elif isinstance(val, PyConst) or (isinstance(val, Sc) and val.t != rt and rt.kind in ('real', 'int', 'bool')):
                val = Sc(self.term(val, st, rt), rt)
            elif isinstance(val, RefV) and rt.kind == 'ref' and val.t.cls == 'object':
                val = RefV(val.term, rt, val.nullable)
            post.locals['result'] = val
        for gname in c.ghost_out:
            if gname in st.locals:
                post.locals[gname] = st.locals[gname]
            else:
                post.locals[gname] = self.fresh_val('go_' + gname, parse_type(c.ghost_out[gname]), st)
        view = getattr(frame, 'view', None)
        ens = c.ensures if view is None else view.ensures
        for i, e in enumerate(ens):
            g = self.spec_bool(e, post, frame)
            # chain_ensures (opt-in): an earlier postcondition, once proved, is a lemma for the later ones (A, then A => B)
            self.oblige(st, g, 'ensures#%d' % i, frame, f.node, e, assume=bool(getattr(c, 'chain_ensures', False)))
        for exc in c.raises_exact:
            g = self.spec_bool(c.raises[exc], pre, frame)
            self.oblige(st, z3.Not(g), 'raises-exact[%s]' % exc, frame, f.node,
                        'normal return although %s was promised when: %s' % (exc, c.raises[exc]))
        self.check_frame(c, f, frame, pre, st, param_cells)

    def check_frame(self, c, f, frame, pre, st, param_cells):
        """Nothing outside `modifies` changed."""
        ctx = self.ctx
        whole = set()
        per_obj = {}
        conts = []
        if '*' in [x.strip() for x in c.modifies]:
            return
        for m in c.modifies:
            m = m.strip()
            if m.endswith('[*]'):
                cls, attr = m[:-3].split('.')
                whole.add(ctx.shapes.field(cls, attr).fid)
                continue
            node = ast.parse(m, mode='eval').body
            if isinstance(node, ast.Name):
                conts.append(node.id)
                continue
            if isinstance(node, ast.Attribute):
                obj = self.ev1(node.value, pre, frame)
                fs = ctx.shapes.field(obj.t.cls, node.attr)
                per_obj.setdefault(fs.fid, []).append(obj.term)
                per_obj.setdefault(fs.fid + '$some', []).append(obj.term)
                continue
            if isinstance(node, ast.Subscript):
                # item of a container field: treat the whole field location as modifiable
                base = node.value
                while isinstance(base, ast.Subscript):
                    base = base.value
                if isinstance(base, ast.Attribute):
                    obj = self.ev1(base.value, pre, frame)
                    fs = ctx.shapes.field(obj.t.cls, base.attr)
                    per_obj.setdefault(fs.fid, []).append(obj.term)
                    continue
                if isinstance(base, ast.Name):
                    conts.append(base.id)
                    continue
            raise VCError('modifies clause %s' % m)
        for fid, cur in st.heap.items():
            if fid in whole or fid.startswith('$'):
                continue
            old = pre.heap.get(fid)
            if old is None:
                old = ctx.heap0.get(fid)
            if old is None or cur.eq(old):
                continue
            exp = old
            for o in per_obj.get(fid, []):
                exp = z3.Store(exp, o, z3.Select(cur, o))
            # objects allocated by this call are not part of the frame
            x = z3.Const('x!fr', Ref)
            goal = z3.ForAll([x], z3.Implies(z3.Select(ctx.alive0, x), z3.Select(cur, x) == z3.Select(exp, x)))
            self.oblige(st, goal, 'frame[%s]' % fid, frame, f.node, 'field %s changed outside modifies' % fid)
        for n, (v, t0) in param_cells.items():
            if n in conts:
                continue
            cur = v.loc.read(st)
            if not cur.eq(t0):
                self.oblige(st, cur == t0, 'frame[param %s]' % n, frame, f.node,
                            'container parameter %s changed outside modifies' % n)

    def check_raise(self, c, f, frame, pre, o, label):
        ctx = self.ctx
        allowed = None
        for exc, cond in c.raises.items():
            if ctx.exc_is(o.exc, exc):
                allowed = (exc, cond)
                break
        where = o.node
        if allowed is None:
            self.oblige(o.st, z3.BoolVal(False), 'no-raise[%s]' % o.exc, frame, where or f.node,
                        '%s may escape but is not in the raises clause' % o.exc)
            return
        g = self.spec_bool(allowed[1], pre, frame)
        self.oblige(o.st, g, 'raises[%s]' % o.exc, frame, where or f.node,
                    '%s raised outside its stated condition: %s' % (o.exc, allowed[1]))
        if allowed[0] in c.ensures_raise:
            post = o.st.fork()
            post.spec = True
            post.old = pre
            post.locals = dict(pre.locals)
            for i, e in enumerate(c.ensures_raise[allowed[0]]):
                self.oblige(o.st, self.spec_bool(e, post, frame), 'ensures-raise[%s]#%d' % (allowed[0], i), frame,
                            where or f.node, e)

    def verify_lemma(self, lem, prop):
        self.current_prop = prop
        st = State(self.ctx)
        frame = Frame('zeroconf', None, None, None)
        frame.label = 'lemma:' + lem.name
        for n, ts in lem.vars.items():
            st.locals[n] = self.fresh_val('v_' + n, parse_type(ts), st, nullable=ts.strip().startswith('opt['))
        st.spec = True
        for h in lem.hyps:
            st.assume(self.spec_bool(h, st, frame))
        st.spec = False
        ob = Obligation(self.ctx.new_oid('%s/lemma:%s/canary-hyp' % (prop, lem.name)), 'canary', st.pc, z3.BoolVal(False))
        ob.expect = 'sat'
        self.ctx.obligations.append(ob)
        sp = st.fork()
        sp.spec = True
        sp.pc = st.pc
        for i, cc in enumerate(lem.concl):
            g = self.spec_bool(cc, sp, frame)
            base = '%s/lemma:%s/concl' % (prop, lem.name)
            self.ctx.obligations.append(Obligation(self.ctx.new_oid(base), 'lemma', st.pc, g, note=cc))
