"""Concrete cross-check / replay search: generate small inputs by type, call the REAL function, evaluate the
SAME contract text concretely (pyvc.concrete).  Bounded by construction: never counted as proved."""
import importlib
import random
import traceback

from . import concrete

NAMES = ['a.local.', 'A.local.', 'b.local.', '_x._tcp.local.', '_X._tcp.local.', 'inst._x._tcp.local.',
         'Inst._x._tcp.local.', 'host.local.', 'HOST.local.']
TIMES = [0.0, 1.0, 999.0, 1000.0, 1001.0, 2000.0, 2500.0, 120000.0, 121000.0, 4500000.0]
TTLS = [0, 1, 2, 120, 1124, 1125, 4500]


def real_func(module, qualname):
    mod = importlib.import_module(module)
    o = mod
    parts = qualname.split('.')
    for p in parts:
        if p == 'setter':
            return o.fset
        o = o.__dict__[p] if isinstance(o, type) and p in o.__dict__ else getattr(o, p)
    if isinstance(o, property):
        return o.fget
    if isinstance(o, (staticmethod, classmethod)):
        return o.__func__
    return o


class Gen:
    def __init__(self, rng):
        self.rng = rng
        import zeroconf._dns as d
        import zeroconf.const as c
        self.d = d
        self.c = c

    def record(self, kinds=None):
        r, d, c = self.rng, self.d, self.c
        kind = r.choice(kinds or ['A', 'AAAA', 'PTR', 'TXT', 'SRV', 'HINFO', 'NSEC'])
        name = r.choice(NAMES)
        cls = c._CLASS_IN | (c._CLASS_UNIQUE if r.random() < 0.4 else 0)
        ttl = r.choice(TTLS)
        created = r.choice(TIMES[1:])
        if kind == 'A':
            return d.DNSAddress(name, c._TYPE_A, cls, ttl, r.choice([b'\x01\x02\x03\x04', b'\x7f\x00\x00\x01']), None, created)
        if kind == 'AAAA':
            return d.DNSAddress(name, c._TYPE_AAAA, cls, ttl, b'\x00' * 15 + r.choice([b'\x01', b'\x02']), r.choice([None, 1, 2]), created)
        if kind == 'PTR':
            return d.DNSPointer(name, c._TYPE_PTR, cls, ttl, r.choice(NAMES), created)
        if kind == 'TXT':
            return d.DNSText(name, c._TYPE_TXT, cls, ttl, r.choice([b'', b'\x03a=1', b'\x03a=2']), created)
        if kind == 'SRV':
            return d.DNSService(name, c._TYPE_SRV, cls, ttl, r.choice([0, 1]), 0, r.choice([80, 81]), r.choice(NAMES), created)
        if kind == 'HINFO':
            return d.DNSHinfo(name, c._TYPE_HINFO, cls, ttl, r.choice(['cpu', 'CPU']), 'os', created)
        return d.DNSNsec(name, c._TYPE_NSEC, cls, ttl, r.choice(NAMES), r.choice([[1], [1, 28], [28, 1]]), created)

    def question(self):
        r, d, c = self.rng, self.d, self.c
        return d.DNSQuestion(r.choice(NAMES), r.choice([c._TYPE_A, c._TYPE_PTR, c._TYPE_ANY, c._TYPE_SRV]),
                             c._CLASS_IN | (c._CLASS_UNIQUE if r.random() < 0.3 else 0))

    def cache(self):
        """a well-formed cache built directly (not through the code under test)"""
        from zeroconf._cache import DNSCache
        from zeroconf._dns import DNSService
        c = DNSCache()
        for _ in range(self.rng.randint(0, 5)):
            rec = self.record()
            store = c.cache.setdefault(rec.key, {})
            store.pop(rec, None)
            store[rec] = rec
            if isinstance(rec, DNSService):
                s = c.service_cache.setdefault(rec.server_key, {})
                s.pop(rec, None)
                s[rec] = rec
        # remove SRV index entries whose record was replaced under the name index
        for sk in list(c.service_cache):
            for rec in list(c.service_cache[sk]):
                if c.cache.get(rec.key, {}).get(rec) is not c.service_cache[sk][rec]:
                    del c.service_cache[sk][rec]
            if not c.service_cache[sk]:
                del c.service_cache[sk]
        self.last_cache = c
        return c

    def value(self, ts, ctx=None):
        r = self.rng
        ts = ts.strip()
        if ts.startswith('opt['):
            if r.random() < 0.25:
                return None
            return self.value(ts[4:-1], ctx)
        if ts in ('real', 'float'):
            return r.choice(TIMES)
        if ts == 'int':
            return r.choice([0, 1, 2, 12, 28, 33, 255, 0x8001, 0x8000, 65535])
        if ts == 'bool':
            return r.random() < 0.5
        if ts == 'str':
            lc = getattr(self, 'last_cache', None)
            if lc is not None and lc.cache and r.random() < 0.7:
                # strings related to the generated cache content, in several spellings
                rec = r.choice(list(r.choice(list(lc.cache.values()))))
                cands = [rec.name]
                for a in ('alias', 'server', 'next_name'):
                    if hasattr(rec, a):
                        cands.append(getattr(rec, a))
                s_ = r.choice(cands)
                return r.choice([s_, s_.lower(), s_.upper(), s_.swapcase()])
            return r.choice(NAMES)
        if ts == 'bytes':
            return r.choice([b'', b'\x01\x02\x03\x04', b'abc'])
        if ts == 'optint':
            return r.choice([None, 0, 1, 2])
        if ts == 'object':
            return r.choice([None, 5, 'x']) if r.random() < 0.2 else (self.record() if r.random() < 0.8 else self.question())
        if ts == 'DNSCache':
            return self.cache()
        if ts in ('DNSRecord', 'DNSEntry'):
            # bias towards records related to the last generated cache
            lc = getattr(self, 'last_cache', None)
            if lc is not None and lc.cache and r.random() < 0.6:
                store = r.choice(list(lc.cache.values()))
                rec = r.choice(list(store))
                if r.random() < 0.5:
                    return rec
                import copy
                cp = copy.copy(rec)
                cp.ttl = r.choice(TTLS)
                cp.created = r.choice(TIMES[1:])
                return cp
            return self.record()
        kinds = {'DNSAddress': ['A', 'AAAA'], 'DNSPointer': ['PTR'], 'DNSText': ['TXT'], 'DNSService': ['SRV'],
                 'DNSHinfo': ['HINFO'], 'DNSNsec': ['NSEC']}
        if ts in kinds:
            return self.record(kinds[ts])
        if ts == 'DNSQuestion':
            return self.question()
        if ts.startswith('list['):
            inner = ts[5:-1]
            return [self.value(inner, ctx) for _ in range(r.randint(0, 4))]
        if ts.startswith('set['):
            inner = ts[4:-1]
            return set(self.value(inner, ctx) for _ in range(r.randint(0, 3)))
        raise KeyError('no generator for type %s' % ts)


def param_types(contract, finfo):
    import ast
    out = {}
    a = finfo.node.args
    for x in a.posonlyargs + a.args + a.kwonlyargs:
        n = x.arg
        if n in contract.params:
            out[n] = contract.params[n]
        elif n == 'self':
            out[n] = finfo.cls
        elif x.annotation is not None:
            out[n] = ast.unparse(x.annotation)
        else:
            raise KeyError('no type for %s' % n)
    return out


def run_contract(contract, finfo, spec_funcs, generators, n, seed, want_clause=None):
    """-> dict(evaluations, skipped, failures[list of dict], errors)"""
    rng = random.Random(seed * 7919 + hash(contract.qualname) % 100003)
    gen = Gen(rng)
    func = real_func(contract.module, contract.qualname)
    custom = generators.get(contract.key)
    types = None if custom else param_types(contract, finfo)
    evals = skipped = 0
    failures = []
    errors = []
    attempts = 0
    while evals < n and attempts < n * 6:
        attempts += 1
        try:
            if custom:
                kwargs = custom(gen)
            else:
                kwargs = {}
                for p in sorted(types, key=lambda k: (k != 'self', types[k] not in ('DNSCache',), k)):
                    ts = types[p]
                    if p == 'self' and finfo.node.name == '__init__':
                        cls = concrete.Evaluator({}).cls(finfo.cls)
                        kwargs[p] = cls.__new__(cls)
                    else:
                        kwargs[p] = gen.value(ts)
            clock = kwargs.pop('__clock__', None) or rng.choice(TIMES[1:])
            extra_env = kwargs.pop('__env__', None)
            gfuncs = kwargs.pop('__ghost_funcs__', None)
            gout = kwargs.pop('__ghost_out__', None)
            res = concrete.check_call(contract, func, kwargs, spec_funcs, clock=clock, extra_env=extra_env,
                                      ghost_funcs=gfuncs, ghost_out_fn=gout)
        except concrete.SpecError as e:
            errors.append('SpecError: %s' % e)
            break
        except KeyError as e:
            errors.append('generator: %s' % e)
            break
        except Exception:
            errors.append(traceback.format_exc()[-600:])
            break
        if res == 'skip':
            skipped += 1
            continue
        evals += 1
        if res is not None:
            failures.append(res.as_dict())
            if len(failures) >= 3:
                break
    return {'evaluations': evals, 'skipped_by_precondition': skipped, 'failures': failures, 'errors': errors}
