"""Executor part 5: builtins, container methods, str/bytes methods, spec builtins."""
import ast
import z3

from .core import (Val, Sc, RefV, NoneV, TupleV, Cont, PyConst, FuncV, ClassV, ModuleV, CellLoc, FieldLoc,
                   ItemLoc, ElemLoc, TermLoc, State, Outcome, VCError, fresh)
from .types import (T, INT, REAL, BOOL, STR, BYTES, OPTINT, IDENT, ANYREF, Ref, Str, Bytes, NONE, Ident, RData,
                    IntList, ident_of, cls_of, lower, slen, ulen, blen, bat, parse_type, ref)
from .execcont import card_fn

str_concat_f = z3.Function('sconcat', Str, Str, Str)
bytes_concat_f = z3.Function('bconcat', Bytes, Bytes, Bytes)
encode_f = z3.Function('utf8', Str, Bytes)
decode_f = z3.Function('utf8dec', Bytes, Str)
hash_fns = {}


_lhash = {}


def lhash_fn(sort):
    n = sort.name()
    if n not in _lhash:
        _lhash[n] = z3.Function('lhash_' + n, sort, z3.IntSort())
    return _lhash[n]


def list_hash_axioms():
    ax = []
    for n, f in _lhash.items():
        s = f.domain(0)
        a, b = z3.Const('a', s), z3.Const('b', s)
        ln, arr = s.accessor(0, 0), s.accessor(0, 1)
        sk = z3.Function('lhsk_' + n, s, s, z3.IntSort())
        i = sk(a, b)
        ax.append(z3.ForAll([a, b], z3.Implies(z3.And(ln(a) == ln(b), f(a) != f(b)),
                                               z3.And(0 <= i, i < ln(a), z3.Select(arr(a), i) != z3.Select(arr(b), i))),
                            patterns=[z3.MultiPattern(f(a), f(b))]))
    return ax


class LibMixin:

    def list_hash(self, c, st):
        return lhash_fn(c.t.sort())(self.c_term(c, st))

    # ================= builtins ==========================================================
    def bi_len(self, args, kw, st, frame, node):
        v = args[0]
        if isinstance(v, Cont):
            n = self.c_len(v, st)
            st.assume(n >= 0)
            yield st, Sc(n, INT)
        elif isinstance(v, TupleV):
            yield st, PyConst(len(v.items))
        elif isinstance(v, PyConst):
            yield st, PyConst(len(v.v))
        elif v.t.kind == 'str':
            yield st, Sc(slen(v.term), INT)
        elif v.t.kind == 'bytes':
            yield st, Sc(blen(v.term), INT)
        else:
            raise VCError('len of %r' % (v,))

    def bi_isinstance(self, args, kw, st, frame, node):
        v, c = args
        classes = []
        if isinstance(c, ClassV):
            classes = [c.name]
        elif isinstance(c, TupleV):
            classes = [x.name for x in c.items]
        elif isinstance(c, PyConst) and isinstance(c.v, tuple):
            classes = list(c.v)
        elif isinstance(c, FuncV) and c.kind == 'builtin':
            classes = [c.name]
        else:
            raise VCError('isinstance second arg %r' % (c,))
        res = []
        for cn in classes:
            if isinstance(v, RefV):
                if cn in ('list', 'dict', 'set', 'str', 'bytes', 'int', 'float', 'tuple'):
                    res.append(z3.BoolVal(False))
                else:
                    res.append(self.ctx.shapes.isinstance_term(v.term, cn))
            elif isinstance(v, NoneV):
                res.append(z3.BoolVal(False))
            elif isinstance(v, Cont):
                res.append(z3.BoolVal(cn == {'rdict': 'dict', 'rset': 'set'}.get(v.t.kind, v.t.kind)))
            else:
                kindmap = {'str': 'str', 'bytes': 'bytes', 'int': 'int', 'real': 'float', 'bool': 'bool'}
                res.append(z3.BoolVal(kindmap.get(v.t.kind) == cn or (v.t.kind == 'bool' and cn == 'int')))
        yield st, Sc(z3.Or(*res) if len(res) > 1 else res[0], BOOL)

    def bi_type(self, args, kw, st, frame, node):
        if len(args) != 1:
            raise VCError('type() with %d arguments' % len(args))
        yield st, FuncV('typeof', recv=args[0])

    def bi_cast(self, args, kw, st, frame, node):
        c, v = args[0], args[1]
        if isinstance(c, ClassV) and isinstance(v, RefV) and c.name in self.ctx.shapes._ids \
                and c.name in self.ctx.shapes.subclasses(v.t.cls):
            # typing.cast is unchecked: using the value as the target class fails (AttributeError) otherwise
            self.pend_raise(st, z3.Not(self.ctx.shapes.isinstance_term(v.term, c.name)), 'AttributeError', frame, node)
            v = RefV(v.term, ref(c.name), False)
        yield st, v

    def bi_bool(self, args, kw, st, frame, node):
        yield st, Sc(self.truth(args[0], st), BOOL) if args else PyConst(False)

    def bi_int(self, args, kw, st, frame, node):
        v = args[0]
        if isinstance(v, PyConst):
            yield st, PyConst(int(v.v))
            return
        t, k = self.num(v, st)
        if k == 'int':
            yield st, Sc(t, INT)
        else:
            # int() truncates toward zero
            yield st, Sc(z3.If(t >= 0, z3.ToInt(t), -z3.ToInt(-t)), INT)

    def bi_float(self, args, kw, st, frame, node):
        v = args[0]
        t, k = self.num(v, st)
        yield st, Sc(z3.ToReal(t) if k == 'int' else t, REAL)

    def bi_abs(self, args, kw, st, frame, node):
        t, k = self.num(args[0], st)
        yield st, Sc(z3.If(t >= 0, t, -t), INT if k == 'int' else REAL)

    def bi_min(self, args, kw, st, frame, node):
        a, b, k = self.num2(args[0], args[1], st)
        yield st, Sc(z3.If(a <= b, a, b), INT if k == 'int' else REAL)

    def bi_max(self, args, kw, st, frame, node):
        a, b, k = self.num2(args[0], args[1], st)
        yield st, Sc(z3.If(a >= b, a, b), INT if k == 'int' else REAL)

    def bi_hash(self, args, kw, st, frame, node):
        v = args[0]
        items = v.items if isinstance(v, TupleV) else [v]
        terms = []
        sig = []
        for i in items:
            if isinstance(i, Cont):
                raise VCError('hash of container element; flatten via *')
            t = self.term(i, st, OPTINT if isinstance(i, NoneV) else None)
            terms.append(t)
            sig.append(t.sort())
        name = 'hash_' + '_'.join(s.name() for s in sig)
        if name not in hash_fns:
            hash_fns[name] = z3.Function(name, *sig, z3.IntSort())
        yield st, Sc(hash_fns[name](*terms), INT)

    def bi_id(self, args, kw, st, frame, node):
        f = z3.Function('pyid', Ref, z3.IntSort())
        yield st, Sc(f(args[0].term), INT)

    def bi_str(self, args, kw, st, frame, node):
        v = args[0] if args else PyConst('')
        if v.t.kind == 'str':
            yield st, v
        else:
            yield st, Sc(fresh('str', Str), STR)

    def bi_repr(self, args, kw, st, frame, node):
        yield st, Sc(fresh('repr', Str), STR)

    def bi_bytes(self, args, kw, st, frame, node):
        if not args:
            yield st, PyConst(b'')
            return
        v = args[0]
        if v.t.kind == 'bytes':
            yield st, v
            return
        hook = self.ctx.stubs.get('builtin:bytes')
        if hook:
            yield from hook(self, args, kw, st, frame, node)
            return
        raise VCError('bytes(%r)' % (v,))

    def bi_callable(self, args, kw, st, frame, node):
        yield st, PyConst(isinstance(args[0], (FuncV, ClassV)))

    def bi_print(self, args, kw, st, frame, node):
        yield st, NoneV()

    # ---- container constructors -----------------------------------------------------------
    def bi_list(self, args, kw, st, frame, node):
        if not args:
            t = self.hint_type(node, frame) or T('list', [ANYREF])
            yield st, self.new_cont(t, st)
            return
        yield st, self.to_list(args[0], st, frame, node)

    def to_list(self, v, st, frame, node, order='iter'):
        """snapshot any iterable as a fresh list container."""
        if isinstance(v, Cont) and v.t.kind == 'list':
            c = self.new_cont(v.t, st, self.c_term(v, st))
            c.empty_literal = getattr(v, 'empty_literal', False)
            return c
        if isinstance(v, Cont) and v.t.kind in ('dict', 'set', 'rdict', 'rset'):
            n, arr = self.snapshot_keys(v, st)
            if v.t.kind in ('rdict', 'rset'):
                # iteration yields the key OBJECTS
                objarr = fresh('ito', z3.ArraySort(z3.IntSort(), Ref))
                objs = v.t.acc('kobj' if v.t.kind == 'rdict' else 'obj')(self.c_term(v, st))
                i = z3.Int('i!o')
                st.assume(z3.ForAll([i], z3.Select(objarr, i) == z3.Select(objs, z3.Select(arr, i)),
                                    patterns=[z3.Select(objarr, i), z3.Select(arr, i)]))
                lt = T('list', [self.ctx.rec_elem_type])
                c = self.new_cont(lt, st, lt.mk(n, objarr))
                c.keys_arr = arr
                c.src = v
                return c
            lt = T('list', [v.t.args[0]])
            c = self.new_cont(lt, st, lt.mk(n, arr))
            c.src = v
            return c
        if isinstance(v, PyConst) and isinstance(v.v, (tuple, frozenset, list)):
            items = sorted(v.v) if isinstance(v.v, frozenset) else list(v.v)
            c = self.new_cont(T('list', [PyConst(items[0]).t if items else INT]), st)
            for x in items:
                self.l_append(c, PyConst(x), st)
            return c
        if isinstance(v, TupleV):
            c = self.new_cont(T('list', [self.join_types([i.t for i in v.items], frame, node)]), st)
            for x in v.items:
                self.l_append(c, x, st)
            return c
        if isinstance(v, FuncV) and v.kind == 'iterview':
            return v.make_list(self, st, frame, node)
        raise VCError('cannot iterate %r (line %s)' % (v, getattr(node, 'lineno', '?')))

    def bi_tuple(self, args, kw, st, frame, node):
        yield st, self.to_list(args[0], st, frame, node)

    def bi_deque(self, args, kw, st, frame, node):
        t = self.hint_type(node, frame) or T('list', [ANYREF])
        yield st, self.new_cont(t, st)

    def bi_dict(self, args, kw, st, frame, node):
        if not args:
            t = self.hint_type(node, frame) or T('dict', [STR, ANYREF])
            yield st, self.new_cont(t, st)
            return
        v = args[0]
        if isinstance(v, Cont) and v.t.kind in ('dict', 'rdict'):
            yield st, self.new_cont(v.t, st, self.c_term(v, st))
            return
        raise VCError('dict(%r)' % (v,))

    def bi_set(self, args, kw, st, frame, node):
        if not args:
            h = self.hint_type(node, frame)
            c = self.new_cont(h or T('set', [STR]), st)
            c.empty_literal = h is None
            yield st, c
            return
        v = args[0]
        yield st, self.to_set(v, st, frame, node)

    bi_frozenset = bi_set

    def to_set(self, v, st, frame, node):
        if isinstance(v, Cont):
            k = v.t.kind
            cur = self.c_term(v, st)
            if k == 'set' or k == 'rset':
                return self.new_cont(v.t, st, cur)
            if k == 'dict':
                t = T('set', [v.t.args[0]])
                return self.new_cont(t, st, t.mk(v.t.acc('has')(cur)))
            if k == 'rdict':
                t = T('rset')
                return self.new_cont(t, st, t.mk(v.t.acc('has')(cur), v.t.acc('kobj')(cur)))
            if k == 'list':
                et = v.t.args[0]
                n = v.t.acc('len')(cur)
                arr = v.t.acc('arr')(cur)
                i = z3.Int('i!ts')
                if et.kind == 'ref' and et.cls in self.ctx.record_classes_all:
                    t = T('rset')
                    has = fresh('has', z3.ArraySort(Ident, z3.BoolSort()))
                    obj = fresh('obj', z3.ArraySort(Ident, Ref))
                    src = z3.Function('src!%d' % id(has), Ident, z3.IntSort())
                    k_ = z3.Const('k!ts', Ident)
                    st.assume(z3.ForAll([i], z3.Implies(z3.And(0 <= i, i < n),
                                                        z3.Select(has, ident_of(z3.Select(arr, i)))),
                                        patterns=[z3.Select(arr, i)]))
                    # membership comes from some element; the stored object is the FIRST equal element
                    st.assume(z3.ForAll([k_], z3.Implies(z3.Select(has, k_),
                                                         z3.And(0 <= src(k_), src(k_) < n,
                                                                ident_of(z3.Select(arr, src(k_))) == k_,
                                                                z3.Select(obj, k_) == z3.Select(arr, src(k_)))),
                                        patterns=[z3.Select(has, k_)]))
                    st.assume(z3.ForAll([i], z3.Implies(z3.And(0 <= i, i < n),
                                                        src(ident_of(z3.Select(arr, i))) <= i),
                                        patterns=[z3.Select(arr, i)]))
                    return self.new_cont(t, st, t.mk(has, obj))
                t = T('set', [et])
                has = fresh('has', z3.ArraySort(et.sort(), z3.BoolSort()))
                src = z3.Function('src!%d' % id(has), et.sort(), z3.IntSort())
                k_ = z3.Const('k!ts', et.sort())
                st.assume(z3.ForAll([i], z3.Implies(z3.And(0 <= i, i < n), z3.Select(has, z3.Select(arr, i))),
                                    patterns=[z3.Select(arr, i)]))
                st.assume(z3.ForAll([k_], z3.Implies(z3.Select(has, k_),
                                                     z3.And(0 <= src(k_), src(k_) < n,
                                                            z3.Select(arr, src(k_)) == k_)),
                                    patterns=[z3.Select(has, k_)]))
                return self.new_cont(t, st, t.mk(has))
        if isinstance(v, PyConst) and isinstance(v.v, (tuple, frozenset)):
            return self.const_set(v, st)
        raise VCError('set(%r)' % (v,))

    def const_set(self, v, st):
        items = sorted(v.v)
        t = T('set', [PyConst(items[0]).t if items else INT])
        c = self.new_cont(t, st)
        for x in items:
            self.s_add(c, PyConst(x), st)
        return c

    def set_difference(self, a, b, st, frame, node):
        if a.t.kind != b.t.kind:
            raise VCError('set difference of different kinds')
        ta, tb = self.c_term(a, st), self.c_term(b, st)
        ha, hb = a.t.acc('has')(ta), b.t.acc('has')(tb)
        ks = ha.sort().domain()
        new = fresh('diff', ha.sort())
        k = z3.Const('k!d', ks)
        st.assume(z3.ForAll([k], z3.Select(new, k) == z3.And(z3.Select(ha, k), z3.Not(z3.Select(hb, k))),
                            patterns=[z3.Select(new, k)]))
        if a.t.kind == 'set':
            return self.new_cont(a.t, st, a.t.mk(new))
        return self.new_cont(a.t, st, a.t.mk(new, a.t.acc('obj')(ta)))

    def set_update_from(self, c, v, st, frame, node):
        """c |= iterable v  (sets)."""
        if isinstance(v, Cont):
            cur = self.c_term(c, st)
            hc = c.t.acc('has')(cur)
            ks = hc.sort().domain()
            k = z3.Const('k!u', ks)
            new = fresh('upd', hc.sort())
            if v.t.kind in ('set', 'rset', 'dict', 'rdict'):
                hv = v.t.acc('has')(self.c_term(v, st))
                st.assume(z3.ForAll([k], z3.Select(new, k) == z3.Or(z3.Select(hc, k), z3.Select(hv, k)),
                                    patterns=[z3.Select(new, k)]))
                if c.t.kind == 'rset':
                    oc = c.t.acc('obj')(cur)
                    ov = v.t.acc('obj' if v.t.kind == 'rset' else 'kobj')(self.c_term(v, st))
                    nobj = fresh('uobj', oc.sort())
                    st.assume(z3.ForAll([k], z3.Select(nobj, k) == z3.If(z3.Select(hc, k), z3.Select(oc, k),
                                                                         z3.Select(ov, k)),
                                        patterns=[z3.Select(nobj, k)]))
                    self.write_cont(c, st, c.t.mk(new, nobj), node)
                else:
                    self.write_cont(c, st, c.t.mk(new), node)
                return
            if v.t.kind == 'list':
                s2 = self.to_set(v, st, frame, node)
                self.set_update_from(c, s2, st, frame, node)
                return
        raise VCError('set.update(%r)' % (v,))

    def bi_reversed(self, args, kw, st, frame, node):
        v = args[0]
        if not (isinstance(v, Cont) and v.t.kind == 'list'):
            v = self.to_list(v, st, frame, node)
        cur = self.c_term(v, st)
        n = v.t.acc('len')(cur)
        arr = v.t.acc('arr')(cur)
        new = fresh('rev', arr.sort())
        i = z3.Int('i!r')
        st.assume(z3.ForAll([i], z3.Select(new, i) == z3.Select(arr, n - 1 - i), patterns=[z3.Select(new, i)]))
        st.assume(z3.ForAll([i], z3.Select(arr, i) == z3.Select(new, n - 1 - i), patterns=[z3.Select(arr, i)]))
        yield st, self.new_cont(v.t, st, v.t.mk(n, new))

    def bi_sorted(self, args, kw, st, frame, node):
        v = args[0]
        lst = v if (isinstance(v, Cont) and v.t.kind == 'list') else self.to_list(v, st, frame, node)
        cur = self.c_term(lst, st)
        t = lst.t
        n = t.acc('len')(cur)
        arr = t.acc('arr')(cur)
        new = fresh('sorted', arr.sort())
        perm = z3.Function('perm!%d' % id(new), z3.IntSort(), z3.IntSort())
        inv = z3.Function('pinv!%d' % id(new), z3.IntSort(), z3.IntSort())
        i = z3.Int('i!so')
        # a permutation of the input (sort key order itself is left unspecified unless ints)
        st.assume(z3.ForAll([i], z3.Implies(z3.And(0 <= i, i < n),
                                            z3.And(0 <= perm(i), perm(i) < n, inv(perm(i)) == i,
                                                   z3.Select(new, i) == z3.Select(arr, perm(i)))),
                            patterns=[z3.Select(new, i)]))
        st.assume(z3.ForAll([i], z3.Implies(z3.And(0 <= i, i < n),
                                            z3.And(0 <= inv(i), inv(i) < n, perm(inv(i)) == i)),
                            patterns=[z3.Select(arr, i)]))
        if t.args[0].kind == 'int' and 'key' not in kw:
            j = z3.Int('j!so')
            st.assume(z3.ForAll([i, j], z3.Implies(z3.And(0 <= i, i < j, j < n),
                                                   z3.Select(new, i) <= z3.Select(new, j))))
        res = self.new_cont(t, st, t.mk(n, new))
        if hasattr(lst, 'src'):
            res.src = lst.src
        yield st, res

    def bi_range(self, args, kw, st, frame, node):
        if len(args) == 1:
            lo, hi = PyConst(0), args[0]
        elif len(args) == 2:
            lo, hi = args
        else:
            raise VCError('range with step')
        yield st, FuncV('range', lo=lo, hi=hi)

    def bi_enumerate(self, args, kw, st, frame, node):
        yield st, FuncV('enumerate', it=args[0])

    def bi_getattr(self, args, kw, st, frame, node):
        raise VCError('getattr() dispatch is out of reach')

    # ================= container methods ==================================================
    def cm_append(self, c, args, kw, st, frame, node):
        self.l_append(c, args[0], st, node)
        yield st, NoneV()

    def cm_extend(self, c, args, kw, st, frame, node):
        v = args[0]
        if not (isinstance(v, Cont) and v.t.kind == 'list'):
            v = self.to_list(v, st, frame, node)
        t = c.t
        cur = self.c_term(c, st)
        oth = self.c_term(v, st)
        n, m = t.acc('len')(cur), v.t.acc('len')(oth)
        a, b = t.acc('arr')(cur), v.t.acc('arr')(oth)
        new = fresh('ext', a.sort())
        i = z3.Int('i!x')
        st.assume(n >= 0)
        st.assume(m >= 0)
        st.assume(z3.ForAll([i], z3.Select(new, i) == z3.If(i < n, z3.Select(a, i), z3.Select(b, i - n)),
                            patterns=[z3.Select(new, i)]))
        self.write_cont(c, st, t.mk(n + m, new), node)
        yield st, NoneV()

    def cm_reverse(self, c, args, kw, st, frame, node):
        """list.reverse() in place"""
        if c.t.kind != 'list':
            raise VCError('reverse on %r' % c.t)
        t = c.t
        cur = self.c_term(c, st)
        n, a = t.acc('len')(cur), t.acc('arr')(cur)
        new = fresh('rev', a.sort())
        i = z3.Int('i!rv')
        st.assume(z3.ForAll([i], z3.Select(new, i) == z3.Select(a, n - 1 - i), patterns=[z3.Select(new, i)]))
        st.assume(z3.ForAll([i], z3.Select(a, i) == z3.Select(new, n - 1 - i), patterns=[z3.Select(a, i)]))
        self.write_cont(c, st, t.mk(n, new), node)
        yield st, NoneV()

    def cm_insert(self, c, args, kw, st, frame, node):
        idx, v = args
        if not (isinstance(idx, PyConst) and idx.v == 0):
            raise VCError('list.insert at non-zero index')
        t = c.t
        cur = self.c_term(c, st)
        n, a = t.acc('len')(cur), t.acc('arr')(cur)
        new = fresh('ins', a.sort())
        i = z3.Int('i!n')
        vt = self.term(v, st, t.args[0])
        st.assume(z3.ForAll([i], z3.Select(new, i) == z3.If(i == 0, vt, z3.Select(a, i - 1)),
                            patterns=[z3.Select(new, i)]))
        # the same fact triggered from the old list (where did element i go): needed for "still contained" goals
        st.assume(z3.ForAll([i], z3.Select(a, i) == z3.Select(new, i + 1), patterns=[z3.Select(a, i)]))
        if t.args[0].kind == 'bytes':
            from .execcont import bsum_fn
            k = z3.Int('k!bi')
            # only from the new list to the old one (index decreases): no matching loop with the frame axioms
            st.assume(z3.ForAll([k], z3.Implies(k >= 1, bsum_fn(new, k) == blen(vt) + bsum_fn(a, k - 1)),
                                patterns=[bsum_fn(new, k)]))
        self.write_cont(c, st, t.mk(n + 1, new), node)
        yield st, NoneV()

    def cm_copy(self, c, args, kw, st, frame, node):
        yield st, self.new_cont(c.t, st, self.c_term(c, st))

    def cm_clear(self, c, args, kw, st, frame, node):
        self.write_cont(c, st, self.empty_term(c.t), node)
        yield st, NoneV()

    def cm_get(self, c, args, kw, st, frame, node):
        k = args[0]
        default = args[1] if len(args) > 1 else NoneV()
        has = self.d_has(c, k, st)
        vt = self.d_valtype(c)
        if isinstance(default, Cont) and getattr(default, 'empty_literal', False) and vt.is_container \
                and default.t.kind != 'list':
            self.term(default, st, vt)     # an untyped {} default takes the dict's value type
        if st.spec:
            item = self.d_item(c, k, st)
            yield st, self.merge_vals(has, item, default, st)
            return
        if vt.kind == 'ref' and isinstance(default, NoneV):
            item = self.d_item(c, k, st)
            yield st, RefV(z3.If(has, item.term, NONE), vt, True)
            return
        if not vt.is_container and not isinstance(default, (NoneV, Cont)):
            item = self.d_item(c, k, st)
            yield st, self.merge_vals(has, item, default, st)
            return
        s1 = st.fork()
        s1.assume(has)
        yield s1, self.d_item(c, k, s1)
        s2 = st.fork()
        s2.assume(z3.Not(has))
        yield s2, default

    def cm_setdefault(self, c, args, kw, st, frame, node):
        k, default = args
        vt0 = self.d_valtype(c)
        if isinstance(default, Cont) and getattr(default, 'empty_literal', False) and vt0.is_container:
            self.term(default, st, vt0)
        has = self.d_has(c, k, st)
        s1 = st.fork()
        s1.assume(has)
        yield s1, self.d_item(c, k, s1)
        s2 = st.fork()
        s2.assume(z3.Not(has))
        self.d_store(c, k, default, s2, node)
        yield s2, self.d_item(c, k, s2)

    def cm_pop(self, c, args, kw, st, frame, node):
        t = c.t
        if t.kind == 'list':
            if args:
                raise VCError('list.pop(i)')
            cur = self.c_term(c, st)
            n = t.acc('len')(cur)
            self.pend_raise(st, n <= 0, 'IndexError', frame, node)
            v = self.elem_val(c, TermLoc(z3.Select(t.acc('arr')(cur), n - 1)), t.args[0], st) \
                if t.args[0].is_container else self.wrap_elem(z3.Select(t.acc('arr')(cur), n - 1), t.args[0], st)
            self.write_cont(c, st, t.mk(n - 1, t.acc('arr')(cur)), node)
            yield st, v
            return
        if t.kind in ('dict', 'rdict'):
            k = args[0]
            has = self.d_has(c, k, st)
            vt = self.d_valtype(c)
            if len(args) == 1:
                self.pend_raise(st, z3.Not(has), 'KeyError', frame, node)
                item = self.snapshot_item(c, k, st)
                self.d_delete(c, k, st, node)
                yield st, item
                return
            default = args[1]
            if isinstance(default, Cont) and getattr(default, 'empty_literal', False) and vt.is_container:
                self.term(default, st, vt)     # an untyped [] / {} default takes the dict's value type
            s1 = st.fork()
            s1.assume(has)
            item = self.snapshot_item(c, k, s1)
            self.d_delete(c, k, s1, node)
            yield s1, item
            s2 = st.fork()
            s2.assume(z3.Not(has))
            yield s2, default
            return
        raise VCError('pop on %r' % t)

    def wrap_elem(self, term, et, st):
        if et.kind == 'ref':
            v = RefV(term, et, False)
            self.assume_type(v, st)
            return v
        return self.wrap(term, et)

    def snapshot_item(self, c, k, st):
        vt = self.d_valtype(c)
        item = self.d_item(c, k, st)
        if isinstance(item, Cont):
            return self.new_cont(vt, st, self.c_term(item, st))
        return item

    def cm_popleft(self, c, args, kw, st, frame, node):
        t = c.t
        cur = self.c_term(c, st)
        n, a = t.acc('len')(cur), t.acc('arr')(cur)
        self.pend_raise(st, n <= 0, 'IndexError', frame, node)
        v = self.wrap_elem(z3.Select(a, 0), t.args[0], st)
        new = fresh('popl', a.sort())
        i = z3.Int('i!p')
        st.assume(z3.ForAll([i], z3.Select(new, i) == z3.Select(a, i + 1), patterns=[z3.Select(new, i)]))
        self.write_cont(c, st, t.mk(n - 1, new), node)
        yield st, v

    def cm_remove(self, c, args, kw, st, frame, node):
        t = c.t
        x = args[0]
        if t.kind == 'list':
            cur = self.c_term(c, st)
            n, a = t.acc('len')(cur), t.acc('arr')(cur)
            xt = self.term(x, st, t.args[0])
            w = fresh('rm', z3.IntSort())
            i = z3.Int('i!rm')
            present = z3.And(0 <= w, w < n, z3.Select(a, w) == xt,
                             z3.ForAll([i], z3.Implies(z3.And(0 <= i, i < w), z3.Select(a, i) != xt),
                                       patterns=[z3.Select(a, i)]))
            absent = z3.ForAll([i], z3.Implies(z3.And(0 <= i, i < n), z3.Select(a, i) != xt),
                               patterns=[z3.Select(a, i)])
            rs = st.fork()
            rs.assume(absent)
            frame.raises.append(Outcome('raise', rs, exc='ValueError', node=node))
            st.assume(present)
            new = fresh('rmv', a.sort())
            st.assume(z3.ForAll([i], z3.Select(new, i) == z3.If(i < w, z3.Select(a, i), z3.Select(a, i + 1)),
                                patterns=[z3.Select(new, i)]))
            st.assume(z3.ForAll([i], z3.Implies(i != w, z3.Select(a, i) == z3.Select(new, z3.If(i < w, i, i - 1))),
                                patterns=[z3.Select(a, i)]))
            self.write_cont(c, st, t.mk(n - 1, new), node)
            st.locals['__rm_index'] = Sc(w, INT)
            yield st, NoneV()
            return
        if t.kind in ('set', 'rset'):
            self.pend_raise(st, z3.Not(self.d_has(c, x, st)), 'KeyError', frame, node)
            self.s_discard(c, x, st, node)
            yield st, NoneV()
            return
        raise VCError('remove on %r' % t)

    def cm_intersection(self, c, args, kw, st, frame, node):
        """s.intersection(t) for plain (non-record) sets: a fresh set with has = has_s AND has_t"""
        v = args[0]
        if c.t.kind != 'set' or not isinstance(v, Cont) or v.t.kind != 'set' or len(args) != 1:
            raise VCError('set.intersection on %r / %r' % (c.t, v))
        hc = c.t.acc('has')(self.c_term(c, st))
        hv = v.t.acc('has')(self.c_term(v, st))
        k = z3.Const('k!ix', hc.sort().domain())
        new = fresh('isect', hc.sort())
        st.assume(z3.ForAll([k], z3.Select(new, k) == z3.And(z3.Select(hc, k), z3.Select(hv, k)), patterns=[z3.Select(new, k)]))
        yield st, self.new_cont(c.t, st, c.t.mk(new))

    def cm_discard(self, c, args, kw, st, frame, node):
        self.s_discard(c, args[0], st, node)
        yield st, NoneV()

    def cm_add(self, c, args, kw, st, frame, node):
        self.s_add(c, args[0], st, node)
        yield st, NoneV()

    def cm_update(self, c, args, kw, st, frame, node):
        v = args[0]
        if c.t.kind in ('set', 'rset'):
            self.set_update_from(c, v, st, frame, node)
            yield st, NoneV()
            return
        if c.t.kind in ('dict', 'rdict') and isinstance(v, Cont) and v.t.kind == c.t.kind:
            t = c.t
            cur, oth = self.c_term(c, st), self.c_term(v, st)
            hc, hv = t.acc('has')(cur), t.acc('has')(oth)
            vc, vv = t.acc('val')(cur), t.acc('val')(oth)
            ks = hc.sort().domain()
            k = z3.Const('k!du', ks)
            nh = fresh('uh', hc.sort())
            nv = fresh('uv', vc.sort())
            st.assume(z3.ForAll([k], z3.Select(nh, k) == z3.Or(z3.Select(hc, k), z3.Select(hv, k)),
                                patterns=[z3.Select(nh, k)]))
            st.assume(z3.ForAll([k], z3.Select(nv, k) == z3.If(z3.Select(hv, k), z3.Select(vv, k), z3.Select(vc, k)),
                                patterns=[z3.Select(nv, k)]))
            if t.kind == 'rdict':
                oc, ov = t.acc('kobj')(cur), t.acc('kobj')(oth)
                no = fresh('uo', oc.sort())
                st.assume(z3.ForAll([k], z3.Select(no, k) == z3.If(z3.Select(hc, k), z3.Select(oc, k), z3.Select(ov, k)),
                                    patterns=[z3.Select(no, k)]))
                self.write_cont(c, st, t.mk(nh, no, nv), node)
            else:
                self.write_cont(c, st, t.mk(nh, nv), node)
            yield st, NoneV()
            return
        raise VCError('update on %r with %r' % (c.t, v))

    def cm_items(self, c, args, kw, st, frame, node):
        yield st, FuncV('items', cont=c)

    def cm_values(self, c, args, kw, st, frame, node):
        yield st, FuncV('values', cont=c)

    def cm_keys(self, c, args, kw, st, frame, node):
        yield st, c

    # spec-only container helpers
    def cm_has(self, c, args, kw, st, frame, node):
        yield st, Sc(self.d_has(c, args[0], st), BOOL)

    def cm_keyobj(self, c, args, kw, st, frame, node):
        t = c.t
        kt = self.key_term(c, args[0], st)
        arr = t.acc('kobj' if t.kind == 'rdict' else 'obj')(self.c_term(c, st))
        yield st, RefV(z3.Select(arr, kt), self.ctx.rec_elem_type, False)

    # ================= str / bytes ========================================================
    def sm_lower(self, s, args, kw, st, frame, node):
        if isinstance(s, PyConst):
            yield st, PyConst(s.v.lower())
        else:
            yield st, Sc(lower(s.term), STR)

    def sm_encode(self, s, args, kw, st, frame, node):
        if isinstance(s, PyConst):
            yield st, PyConst(s.v.encode(*[a.v for a in args]))
            return
        b = encode_f(s.term)
        st.assume(blen(b) == ulen(s.term))
        yield st, Sc(b, BYTES)

    def sm_decode(self, s, args, kw, st, frame, node):
        t = self.term(s, st)
        yield st, Sc(decode_f(t), STR)

    def sm_format(self, s, args, kw, st, frame, node):
        yield st, Sc(fresh('fmt', Str), STR)

    def sm_join(self, s, args, kw, st, frame, node):
        if s.t.kind == 'bytes' and 'bytes.join' in self.ctx.stubs:
            yield from self.ctx.stubs['bytes.join'](self, s, args, kw, st, frame, node)
            return
        hook = self.ctx.stubs.get('str.join')
        if hook:
            yield from hook(self, s, args, kw, st, frame, node)
            return
        yield st, Sc(fresh('join', Str), STR)

    def sm_split(self, s, args, kw, st, frame, node):
        hook = self.ctx.stubs.get('str.split')
        if hook:
            yield from hook(self, s, args, kw, st, frame, node)
            return
        # uninterpreted: a non-empty list of strings
        t = T('list', [STR])
        n = fresh('nsplit', z3.IntSort())
        st.assume(n >= 1)
        yield st, self.new_cont(t, st, t.mk(n, fresh('split', z3.ArraySort(z3.IntSort(), Str))))

    def sm_endswith(self, s, args, kw, st, frame, node):
        f = z3.Function('endswith', Str, Str, z3.BoolSort())
        yield st, Sc(f(self.term(s, st), self.term(args[0], st)), BOOL)

    def sm_startswith(self, s, args, kw, st, frame, node):
        f = z3.Function('startswith', Str, Str, z3.BoolSort())
        yield st, Sc(f(self.term(s, st), self.term(args[0], st)), BOOL)

    def str_concat(self, a, b, st):
        ta, tb = self.term(a, st), self.term(b, st)
        r = str_concat_f(ta, tb)
        st.assume(slen(r) == slen(ta) + slen(tb))
        st.assume(ulen(r) == ulen(ta) + ulen(tb))
        return Sc(r, STR)

    def bytes_concat(self, a, b, st):
        ta, tb = self.term(a, st), self.term(b, st)
        r = bytes_concat_f(ta, tb)
        st.assume(blen(r) == blen(ta) + blen(tb))
        return Sc(r, BYTES)

    def str_contains(self, cont, x, st):
        f = z3.Function('scontains', Str, Str, z3.BoolSort())
        return f(self.term(cont, st), self.term(x, st))

    def str_index(self, v, k, st, frame, node):
        hook = self.ctx.stubs.get('str.index')
        if hook:
            return hook(self, v, k, st, frame, node)
        if v.t.kind == 'bytes':
            i = self.num(k, st)[0]
            t = self.term(v, st)
            n = blen(t)
            i2 = z3.If(i < 0, i + n, i)
            self.pend_raise(st, z3.Or(i2 < 0, i2 >= n), 'IndexError', frame, node)
            return Sc(bat(t, i2), INT)
        raise VCError('str index needs the string-view model')

    def str_slice(self, v, lo, hi, st, frame, node):
        hook = self.ctx.stubs.get('str.slice')
        if hook:
            return hook(self, v, lo, hi, st, frame, node)
        if v.t.kind == 'bytes':
            t = self.term(v, st)
            n = blen(t)
            lo_t = self.clamp(self.num(lo, st)[0], n) if lo is not None else z3.IntVal(0)
            hi_t = self.clamp(self.num(hi, st)[0], n) if hi is not None else n
            hi_t = z3.If(hi_t < lo_t, lo_t, hi_t)
            f = z3.Function('bslice', Bytes, z3.IntSort(), z3.IntSort(), Bytes)
            # a named result: the clamped bounds contain if-then-else terms, which must not occur in quantifier patterns
            r = fresh('bsl', Bytes)
            st.assume(r == f(t, lo_t, hi_t))
            st.assume(blen(r) == hi_t - lo_t)
            i = z3.Int('i!bs')
            st.assume(z3.ForAll([i], z3.Implies(z3.And(0 <= i, i < hi_t - lo_t), bat(r, i) == bat(t, i + lo_t)),
                                patterns=[bat(r, i)]))
            return Sc(r, BYTES)
        raise VCError('str slice needs the string-view model')

    # ================= spec builtins ======================================================
    def spec_builtin(self, name, node, st, frame):
        a = node.args
        if name == 'old':
            if st.old is None:
                # in a precondition old(x) == x
                return self.ev1(a[0], st, frame)
            o = st.old.fork()
            o.spec = True
            o.bound = dict(st.bound)
            for k, v in st.bound.items():
                o.bound[k] = v
            # locals that are ghost/loop variables of the current state remain visible
            for k, v in st.locals.items():
                if k not in o.locals:
                    o.locals[k] = v
            # containers created after the pre-state (result lists, ...) have no old value: current one
            for cid, tv in st.cells.items():
                if cid not in o.cells:
                    o.cells[cid] = tv
            r = self.ev1(a[0], o, frame)
            if isinstance(r, Cont):
                # a container VALUE of the old state (not a location that would be re-read in the new one)
                r = Cont(TermLoc(self.c_term(r, o)), r.t, frozen=True)
            return r
        if name in ('forall', 'exists'):
            decl = a[0].value
            lam = a[1]
            s = st.fork()
            s.pc = st.pc
            bvs = []
            from .core import split_top
            parts = split_top(decl)
            for part in parts:
                n, ts = part.split(':', 1)
                t = parse_type(ts.strip())
                bv = z3.Const(n.strip() + '!q', t.sort())
                bvs.append(bv)
                s.bound[n.strip()] = self.wrap(bv, t)
            body = self.truth(self.ev1(lam.body if isinstance(lam, ast.Lambda) else lam, s, frame), s)
            guards = []
            for bv, part in zip(bvs, parts):
                t = parse_type(part.split(':', 1)[1].strip())
                if t.kind == 'ref' and t.cls != 'object':
                    guards.append(self.ctx.shapes.isinstance_term(bv, t.cls))
            if name == 'forall':
                if guards:
                    body = z3.Implies(z3.And(*guards), body)
                return Sc(z3.ForAll(bvs, body), BOOL)
            if guards:
                body = z3.And(*(guards + [body]))
            return Sc(z3.Exists(bvs, body), BOOL)
        vals = [self.ev1(x, st, frame) for x in a]
        if name == 'implies':
            return Sc(z3.Implies(self.truth(vals[0], st), self.truth(vals[1], st)), BOOL)
        if name == 'iff':
            return Sc(self.truth(vals[0], st) == self.truth(vals[1], st), BOOL)
        if name == 'ite':
            return self.merge_vals(self.truth(vals[0], st), vals[1], vals[2], st)
        if name == 'ident':
            return Sc(ident_of(vals[0].term), IDENT)
        if name == 'lower':
            return Sc(lower(self.term(vals[0], st)), STR)
        if name == 'slen':
            return Sc(slen(self.term(vals[0], st)), INT)
        if name == 'ulen':
            return Sc(ulen(self.term(vals[0], st)), INT)
        if name == 'blen':
            return Sc(blen(self.term(vals[0], st)), INT)
        if name == 'bat':
            return Sc(bat(self.term(vals[0], st), self.term(vals[1], st)), INT)
        if name == 'to_real':
            return Sc(self.term(vals[0], st, REAL), REAL)
        if name == 'to_int':
            return Sc(z3.ToInt(self.term(vals[0], st)), INT)
        if name == 'div':
            return Sc(self.term(vals[0], st) / self.term(vals[1], st), INT)
        if name == 'mod':
            return Sc(self.term(vals[0], st) % self.term(vals[1], st), INT)
        if name == 'cls_is':
            return Sc(self.ctx.shapes.isinstance_term(vals[0].term, a[1].id if isinstance(a[1], ast.Name) else vals[1].name), BOOL)
        if name == 'exact_class':
            return Sc(self.ctx.shapes.exact_class_term(vals[0].term, vals[1].name), BOOL)
        if name == 'uf':
            # uf("name", x, ...): application of an uninterpreted ghost function with Int result
            fname = a[0].value
            terms = [self.term(v, st) for v in vals[1:]]
            f = z3.Function('ghost_' + fname, *[t.sort() for t in terms], z3.IntSort())
            return Sc(f(*terms), INT)
        if name == 'bsum':
            from .execcont import bsum_fn
            lst = vals[0]
            return Sc(bsum_fn(lst.t.acc('arr')(self.c_term(lst, st)), self.term(vals[1], st, INT)), INT)
        if name == 'bsum_unfold':
            # definitional unfolding of bsum at index j: bsum(l, j+1) == bsum(l, j) + len(l[j])   (j >= 0)
            from .execcont import bsum_fn
            lst = vals[0]
            arr = lst.t.acc('arr')(self.c_term(lst, st))
            j = self.term(vals[1], st, INT)
            return Sc(z3.Implies(j >= 0, bsum_fn(arr, j + 1) == bsum_fn(arr, j) + blen(z3.Select(arr, j))), BOOL)
        if name == 'as_':
            return RefV(vals[0].term, ref(a[1].id), False)
        if name == 'hash':
            return list(self.bi_hash(vals, {}, st, frame, node))[0][1]
        if name == 'fresh_obj':
            # not allocated in the pre-state of the contract being evaluated, allocated now
            before = st.old.alloc_arr() if st.old is not None else self.ctx.alive0
            return Sc(z3.And(z3.Not(z3.Select(before, vals[0].term)), z3.Select(st.alloc_arr(), vals[0].term)), BOOL)
        if name == 'allocated':
            return Sc(z3.Select(st.alloc_arr(), vals[0].term), BOOL)
        if name == 'card':
            return Sc(self.c_len(vals[0], st), INT)
        if name == 'some':
            return Sc(OPTINT.mk(z3.BoolVal(True), self.term(vals[0], st)), OPTINT)
        if name == 'nothing':
            return Sc(OPTINT.mk(z3.BoolVal(False), z3.IntVal(0)), OPTINT)
        if name == 'list_eq':
            return Sc(self.list_equal(vals[0], vals[1], st), BOOL)
        if name == 'heap_eq':
            # heap_eq('Class.attr'): the whole field array is unchanged since the pre-state
            fs = self.ctx.shapes.field(*a[0].value.split('.'))
            cur = st.heap_arr(fs.fid, fs.t.sort())
            old = st.old.heap_arr(fs.fid, fs.t.sort())
            return Sc(cur == old, BOOL)
        if name == 'heap_unchanged':
            # every heap field (including ghost logs) has its pre-state value, for every pre-existing object
            x = z3.Const('x!hu', Ref)
            facts = []
            for fid, cur in st.heap.items():
                if fid.startswith('$'):
                    continue
                old = st.old.heap.get(fid) if st.old is not None else None
                if old is None:
                    old = self.ctx.heap0.get(fid)
                if old is None or cur.eq(old):
                    continue
                facts.append(z3.ForAll([x], z3.Implies(z3.Select(self.ctx.alive0, x), z3.Select(cur, x) == z3.Select(old, x))))
            return Sc(z3.And(*facts) if facts else z3.BoolVal(True), BOOL)
        if name == 'unchanged':
            # unchanged(x.f) : value equals old value
            cur = self.ev1(a[0], st, frame)
            o = st.old.fork()
            o.spec = True
            old = self.ev1(a[0], o, frame)
            return Sc(self.term(cur, st) == self.term(old, o), BOOL)
        hook = self.ctx.spec_builtin_hook
        if hook is not None:
            r = hook(self, name, vals, node, st, frame)
            if r is not None:
                return r
        raise VCError('spec builtin %s' % name)
