"""Class shapes: which fields each class has, their types and how they are stored.

field kinds
  heap     mutable field, one heap array per (defining class, attr)
  derived  read-only, value is a term computed from the object (record identity fields read
           through ident(r) in the abstract record model, licensed by C20)
  const    immutable after construction: an uninterpreted function of the object
"""
import z3
from .types import T, parse_type, Ref, cls_of, NONE, RECORD_CLASSES


class FieldSpec:
    def __init__(self, fid, t, kind='heap', fn=None, nullable=False, owner=None):
        self.fid = fid
        self.t = t
        self.kind = kind
        self.fn = fn
        self.nullable = nullable
        self.owner = owner


class Shapes:
    def __init__(self, repo, classes, record_classes=(), extra_bases=None, abstract=()):
        """classes: {clsname: {'fields': {attr: typestr | (typestr, opts)}, 'bases': [...]} }"""
        self.repo = repo
        self.decl = classes
        self.extra_bases = extra_bases or {}
        self.abstract = set(abstract)
        RECORD_CLASSES.clear()
        RECORD_CLASSES.update(record_classes)
        self._ids = {}
        self._fields = {}
        names = set(classes)
        for mn, m in repo.modules.items():
            for cn in m.classes:
                if '.' not in cn:
                    names.add(cn)
        for i, n in enumerate(sorted(names)):
            self._ids[n] = i + 1
        self._ids['object'] = 0

    def bases(self, cls):
        d = self.decl.get(cls, {})
        if 'bases' in d:
            return list(d['bases'])
        b = self.repo.class_bases(cls)
        return [x for x in b if x in self._ids]

    def mro(self, cls):
        out = [cls]
        for b in self.bases(cls):
            for x in self.mro(b):
                if x not in out:
                    out.append(x)
        return out

    def class_id(self, cls):
        if cls not in self._ids:
            self._ids[cls] = len(self._ids) + 1
        return self._ids[cls]

    def subclasses(self, cls):
        return [c for c in self._ids if cls in self.mro(c)]

    def isinstance_term(self, term, cls):
        if cls == 'object':
            return z3.BoolVal(True)
        ids = sorted(self.class_id(c) for c in self.subclasses(cls) if c not in self.abstract)
        return z3.And(term != NONE, z3.Or(*[cls_of(term) == i for i in ids]))

    def exact_class_term(self, term, cls):
        return cls_of(term) == self.class_id(cls)

    def field(self, cls, attr):
        key = (cls, attr)
        if key in self._fields:
            return self._fields[key]
        res = None
        for c in self.mro(cls):
            d = self.decl.get(c)
            if d and attr in d.get('fields', {}):
                spec = d['fields'][attr]
                opts = {}
                if isinstance(spec, tuple):
                    spec, opts = spec
                nullable = False
                ts = spec.strip()
                if ts.startswith('opt['):
                    nullable = True
                    if ts[4:].lstrip().startswith(('list[', 'dict[', 'set[')):
                        ts = ts[4:-1]
                t = parse_type(ts)
                res = FieldSpec('%s.%s' % (c, attr), t, opts.get('kind', 'heap'), opts.get('fn'),
                                nullable, c)
                break
        self._fields[key] = res
        return res

    def all_fields(self, cls):
        out = {}
        for c in reversed(self.mro(cls)):
            d = self.decl.get(c)
            if d:
                for a in d.get('fields', {}):
                    out[a] = self.field(cls, a)
        return out
