"""Per-property driver: build contracts, generate obligations from /repo's working tree, discharge,
report (evidence json, exit codes, VIOLATION / KNOWN-FINDING lines).

exit 0  every obligation discharged (or listed as a known finding), vacuity guards green
exit 1  some obligation REFUTED by a solver (counter-model) and not a listed known finding
exit 2  undecided: unknown/timeout, contract drift, construct out of reach
exit 3  the checker itself is broken (traceback, vacuous contract, solver disagreement)
"""
import importlib
import json
import os
import re
import sys
import time
import traceback

import z3

from .source import Repo
from .shapes import Shapes
from .contracts import Registry
from .core import Ctx, VCError, base_axioms
from .verify import Executor
from .execcont import card_axioms, bsum_axioms
from .execlib import list_hash_axioms
from . import solve

VERIF = os.path.dirname(os.path.dirname(os.path.abspath(__file__)))

TRUSTED_BASE = [
    'T1 SMT solvers z3 5.1 / z3 4.8 / cvc5 1.0.3 and the SMT-LIB printing of obligations',
    'T2 the pyvc verification-condition generator itself (guarded by canaries, must-fail mutants and the '
    'CPython cross-check in the thorough tier)',
    'T3 CPython built-in semantics as axiomatised in DESIGN.md 2.2 (list/dict/set, int, str.lower, hash of tuples '
    'as an uninterpreted function)',
]


def base_oid(oid):
    return re.sub(r'#\d+$', '', oid)


def obligation_function(oid, concrete):
    """map an obligation id 'C05/_cache.DNSCache._async_add/ensures#0' to the key used by the concrete check"""
    try:
        mid = re.sub(r'\[[^\]]*\]$', '', oid.split('/')[1])
    except IndexError:
        return None
    for fn in concrete:
        mod, q = fn.split(':')
        if mod.replace('zeroconf.', '') + '.' + q == mid:
            return fn
    return None


def load_known_findings():
    p = os.path.join(VERIF, 'known_findings.json')
    if not os.path.exists(p):
        return {'findings': [], 'fixed': []}
    return json.load(open(p))


class Run:
    def __init__(self, prop, tier='quick', seed=0):
        self.prop = prop
        self.tier = tier
        self.seed = seed
        self.t0 = time.time()
        self.static = []
        self.bounded = {}
        self.extra_assumptions = []
        self.not_counted = []

    def build(self):
        # the concrete checks must import the SAME tree that is being verified
        from . import source as _source
        if _source.REPO_SRC in sys.path:
            sys.path.remove(_source.REPO_SRC)
        sys.path.insert(0, _source.REPO_SRC)
        for mname in [m for m in sys.modules if m == 'zeroconf' or m.startswith('zeroconf.')]:
            f = getattr(sys.modules[mname], '__file__', '') or ''
            if not f.startswith(_source.REPO_SRC):
                del sys.modules[mname]
        mod = importlib.import_module('contracts.' + self.prop.lower())
        self.mod = mod
        R = Registry()
        from contracts import common
        common.install(R)
        mod.build(R)
        self.R = R
        repo = Repo()
        self.repo = repo
        shapes = Shapes(repo, R.shapes, R.record_classes, abstract=R.abstract)
        ctx = Ctx(repo, shapes, R.contracts, R.stubs)
        ctx.assumed = set()
        ctx.spec_funcs = R.spec_funcs
        ctx.record_classes_all = set(R.record_classes)
        self.ctx = ctx
        from .core import RefV as _RefV
        from .types import ref as _ref
        import z3 as _z3
        from .types import Ref as _Ref
        for gname, gcls in R.ghost_objects.items():
            ctx.ghost_objects[gname] = _RefV(_z3.Const('ghost_' + gname, _Ref), _ref(gcls), False)
        if hasattr(mod, 'configure'):
            mod.configure(ctx, R)
        self.ex = Executor(ctx)

    def generate(self, only_quals=None):
        self.functions = []
        only = os.environ.get('VERIF_ONLY_FUNC')      # development aid: verify a single function (never used by the registered commands)
        for c in self.R.contracts.values():
            if only and only not in c.qualname:
                continue
            if only_quals is not None and c.qualname not in only_quals:
                continue
            if self.prop in c.props and c.verify:
                f = self.repo.func(c.module, c.qualname)
                self.ex.verify_function(c, self.prop)
                self.functions.append({'function': '%s:%s' % (c.module, c.qualname),
                                       'lines': list(f.lines), 'sha256': f.sha[:16]})
        for lem in self.R.lemmas:
            if only or only_quals is not None:
                break
            if self.prop in lem.props:
                self.ex.verify_lemma(lem, self.prop)
        if hasattr(self.mod, 'static_checks') and only_quals is None:
            self.static = self.mod.static_checks(self.repo)

    def inherit(self):
        """INHERIT = [(owner property, [qualnames])]: functions this property's argument passes through whose contracts are owned and
        verified by another check.  Their obligations are generated and discharged HERE as well (same contracts, same source tree), so a
        change inside such a callee is reported by this check too and not only by the owner's."""
        self.inherited = []
        todo = list(getattr(self.mod, 'INHERIT', [])) + (list(getattr(self.mod, 'INHERIT_THOROUGH', [])) if self.tier == 'thorough' else [])
        for p2, quals in todo:
            if os.environ.get('VERIF_ONLY_FUNC'):
                break
            sub = Run(p2, self.tier, self.seed)
            sub.build()
            sub.generate(only_quals=set(quals))
            got = set(f['function'].split(':')[1] for f in sub.functions)
            missing = sorted(set(quals) - got)
            if missing:
                raise VCError('inherited functions have no verified contract under %s: %s' % (p2, missing))
            sub.discharge()
            if not os.environ.get('VERIF_NO_CONCRETE'):
                sub.crosscheck(only_quals=set(quals))
            for r in sub.results:
                parts = r.ob.oid.split('/')
                r.ob.oid = '/'.join([self.prop] + parts[1:-1] + ['via-%s:%s' % (p2, parts[-1])])
            self.results.extend(sub.results)
            for f in sub.functions:
                f['verified_with'] = 'contracts of ' + p2
            self.functions.extend(sub.functions)
            self.ctx.assumed |= set('[%s] %s' % (p2, a) for a in sub.ctx.assumed)
            for k, v in (getattr(sub, 'concrete', {}) or {}).items():
                self.concrete.setdefault(k, v)
            self.inherited.append({'from': p2, 'functions': sorted(got), 'obligations': len([r for r in sub.results if r.ob.expect == 'unsat'])})

    def crosscheck(self, only_quals=None):
        """bounded concrete check of every function under contract (same contract text, real code)"""
        import sys
        from . import crosscheck, source
        if source.REPO_SRC not in sys.path:
            sys.path.insert(0, source.REPO_SRC)
        n = int(os.environ.get('VERIF_CONCRETE_N', 40 if self.tier == 'quick' else 400))
        out = {}
        skip = set(getattr(self.mod, 'NO_CONCRETE', ()))
        for c in self.R.contracts.values():
            if only_quals is not None and c.qualname not in only_quals:
                continue
            if self.prop in c.props and c.verify and c.key not in skip and c.qualname not in skip and '*' not in skip:
                f = self.repo.func(c.module, c.qualname)
                out['%s:%s' % c.key] = crosscheck.run_contract(c, f, self.R.spec_funcs, getattr(self.R, 'generators', {}),
                                                              n, self.seed)
        self.concrete = out
        return out

    def axioms(self):
        ax = base_axioms() + self.ctx.literal_axioms() + card_axioms() + list_hash_axioms() + list(self.ctx.heap_axioms) + bsum_axioms()
        for fn in self.R.axioms:
            ax.extend(fn(self.ctx))
        return ax

    def discharge(self):
        timeout = 45 if self.tier == 'quick' else 240
        timeout = int(os.environ.get('VERIF_SOLVER_TIMEOUT', timeout))
        ax = self.axioms()
        self.results = solve.discharge(self.ctx.obligations, ax, timeout=timeout, jobs=int(os.environ.get('VERIF_JOBS', 12)),
                                       second_opinion=(self.tier == 'thorough'))


def run_property(prop, tier='quick', seed=0, replay=None):
    run = Run(prop, tier, seed)
    kf = load_known_findings()
    evidence_path = os.path.join(VERIF, 'evidence', prop + '.json')
    os.makedirs(os.path.dirname(evidence_path), exist_ok=True)
    status = 0
    lines = []
    fault = None
    try:
        run.build()
        try:
            run.generate()
            if not run.ctx.obligations and not getattr(run.mod, 'ALLOW_NO_SMT', False):
                raise VCError('zero obligations generated')
            run.discharge()
            if getattr(run.mod, 'ALLOW_NO_SMT', False) and not run.static:
                raise VCError('zero obligations generated (not even static scans)')
        except VCError as e:
            # out of reach / contract drift: undecided for the prover.  The contracts are still evaluated on the real code
            # below: a concrete failing input of the real function is a replayed violation whatever the prover could do.
            fault = ('undecided', 'VCError: %s' % e)
            status = 2
            run.results = []
        if not os.environ.get('VERIF_NO_CONCRETE'):
            run.crosscheck()
        if not hasattr(run, 'concrete'):
            run.concrete = {}
        if getattr(run.mod, 'INHERIT', None) and status == 0:
            try:
                run.inherit()
            except VCError as e:
                fault = ('undecided', 'VCError (inherited functions): %s' % e)
                status = 2
        if hasattr(run.mod, 'bounded_checks') and (tier == 'thorough' or getattr(run.mod, 'BOUNDED_IN_QUICK', False)):
            run.bounded = run.mod.bounded_checks(run, tier, seed)
    except VCError as e:
        fault = ('undecided', 'VCError: %s' % e)
        status = 2
    except Exception:
        fault = ('checker-fault', traceback.format_exc())
        status = 3
    results = getattr(run, 'results', [])
    real = [r for r in results if r.ob.expect == 'unsat']
    canaries = [r for r in results if r.ob.expect == 'sat']
    discharged = [r for r in real if r.verdict == 'discharged']
    refuted = [r for r in real if r.verdict == 'refuted']
    unknown = [r for r in real if r.verdict == 'unknown']
    vacuous = [r for r in canaries if r.verdict == 'vacuous']
    disagree = [r for r in results if r.verdict == 'solver-disagreement']
    static_fail = [s for s in run.static if not s[1]]
    known = []
    violations = []
    for r in refuted:
        b = base_oid(r.ob.oid)
        hit = [f for f in kf.get('findings', []) if f['property'] == prop and f.get('obligation') == b]
        if hit:
            known.append((r, hit[0]))
        else:
            violations.append(r)
    bounded_viol = []
    concrete = getattr(run, 'concrete', {}) or {}
    conc_fail = {}
    conc_err = []
    for fn, res in concrete.items():
        for e in res['errors']:
            conc_err.append('%s: %s' % (fn, e))
        for fl in res['failures']:
            conc_fail.setdefault(fn, []).append(fl)
    harness_fault = bool(conc_err) and status == 0
    # undecided obligations: search harder for a concrete failing input of that function
    if unknown and concrete and not os.environ.get('VERIF_NO_CONCRETE'):
        from . import crosscheck as _cc
        for fn in sorted(set(obligation_function(r.ob.oid, concrete) for r in unknown) - {None}):
            if conc_fail.get(fn):
                continue
            mod_, q_ = fn.split(':')
            c_ = run.R.contracts[(mod_, q_)]
            res = _cc.run_contract(c_, run.repo.func(mod_, q_), run.R.spec_funcs, run.R.generators,
                                   int(os.environ.get('VERIF_CONCRETE_DEEP_N', 2000)), run.seed + 1)
            concrete[fn]['deep_search_evaluations'] = res['evaluations']
            for fl in res['failures']:
                conc_fail.setdefault(fn, []).append(fl)
    # a timeout on an obligation of a function for which a concrete failing input exists is a violation
    still_unknown = []
    for r in unknown:
        fn = obligation_function(r.ob.oid, concrete)
        if fn and conc_fail.get(fn):
            r.verdict = 'refuted'
            r.solver = 'concrete-search'
            refuted.append(r)
            b = base_oid(r.ob.oid)
            hit = [f for f in kf.get('findings', []) if f['property'] == prop and f.get('obligation') == b]
            if hit:
                known.append((r, hit[0]))
            else:
                violations.append(r)
        else:
            still_unknown.append(r)
    unknown = still_unknown
    # concrete failures of functions with no failed obligation: contract/engine mismatch or defect -> report
    reported_fns = set(obligation_function(r.ob.oid, concrete) for r in refuted)
    for fn, fls in conc_fail.items():
        if fn in reported_fns:
            continue
        sig = '%s/%s' % (fn, fls[0]['clause'])
        hit = [f for f in kf.get('findings', []) if f['property'] == prop and f.get('concrete') == sig]
        if hit:
            known.append((None, hit[0]))
        else:
            bounded_viol.append(('concrete-contract-check', {'signature': sig, 'function': fn, 'failure': fls[0]}))
    for name, b in (run.bounded or {}).items():
        for v in b.get('violations', []):
            hit = [f for f in kf.get('findings', []) if f['property'] == prop and f.get('bounded') == name
                   and f.get('signature') == v.get('signature')]
            if hit:
                known.append((None, hit[0]))
            else:
                bounded_viol.append((name, v))
    # a vacuous exit canary next to a refuted obligation is explained by it (the failed assertion is assumed afterwards)
    if disagree or (vacuous and not violations and not static_fail and not bounded_viol):
        status = max(status, 3)
    if unknown and status == 0:
        status = 2
    replay_dir = os.path.join(VERIF, 'replays', prop)
    seen_known = set()
    for r, f in known:
        key = f['obligation'] if 'obligation' in f else f.get('bounded')
        if key in seen_known:
            continue
        seen_known.add(key)
        lines.append('KNOWN-FINDING: property=%s %s' % (prop, f['what']))
    if violations or static_fail or bounded_viol:
        os.makedirs(replay_dir, exist_ok=True)
    for r in violations:
        path = os.path.join(replay_dir, re.sub(r'[^A-Za-z0-9_.\-]', '_', r.ob.oid) + '.json')
        rep = {'property': prop, 'obligation': r.ob.oid, 'kind': r.ob.kind, 'where': r.ob.where,
               'note': r.ob.note, 'solver': r.solver, 'solver_output': r.model, 'replayed': False}
        tail = ' no-failing-input-found'
        fn_ = obligation_function(r.ob.oid, concrete)
        if fn_ and conc_fail.get(fn_):
            fl = conc_fail[fn_]
            best = [x for x in fl if x['clause'].split('#')[0] in r.ob.oid] or fl
            rep['replay'] = {'reproduced': True, 'function': fn_, 'failing_input': best[0]['inputs'],
                             'violated_clause': best[0]['clause'], 'detail': best[0]['detail'],
                             'how': 'real function executed by CPython on this input; the contract clause evaluated false'}
            rep['replayed'] = True
            tail = ''
        replayer = None
        for pref, fn in run.R.replays.items():
            if base_oid(r.ob.oid).startswith(pref) or pref in r.ob.oid:
                replayer = fn
                break
        if replayer is not None:
            try:
                out = replayer(r, run)
                rep['replay'] = out
                if out.get('reproduced'):
                    rep['replayed'] = True
                    tail = ''
            except Exception:
                rep['replay_error'] = traceback.format_exc()
        json.dump(rep, open(path, 'w'), indent=1, default=str)
        lines.append('VIOLATION property=%s replay=%s obligation=%s%s' % (prop, path, r.ob.oid, tail))
        status = 1 if status in (0, 2) else status
    for sid, ok, note in static_fail:
        path = os.path.join(replay_dir, re.sub(r'[^A-Za-z0-9_.\-]', '_', sid) + '.json')
        json.dump({'property': prop, 'obligation': sid, 'kind': 'static-scan', 'note': note, 'replayed': False},
                  open(path, 'w'), indent=1)
        lines.append('VIOLATION property=%s replay=%s obligation=%s no-failing-input-found' % (prop, path, sid))
        status = 1 if status in (0, 2) else status
    for name, v in bounded_viol:
        path = os.path.join(replay_dir, 'bounded_%s_%s.json' % (name, re.sub(r'[^A-Za-z0-9_.\-]', '_', str(v.get('signature', 'x')))[:60]))
        json.dump({'property': prop, 'bounded_check': name, 'violation': v, 'replayed': True}, open(path, 'w'),
                  indent=1, default=str)
        lines.append('VIOLATION property=%s replay=%s bounded=%s' % (prop, path, name))
        status = 1 if status in (0, 2) else status

    # a crash of the concrete harness (generator or evaluator) is a checker fault - unless a violation is reported anyway (a generator
    # that drives the real code may die in exactly the defect the refuted obligation names)
    if harness_fault and status in (0, 2):
        fault = ('checker-fault', 'concrete contract evaluation failed: ' + ' | '.join(conc_err)[:1500])
        status = 3
    elif conc_err and status == 1:
        lines.append('note: concrete harness stopped early next to the reported violation: ' + ' | '.join(e.strip().splitlines()[-1] for e in conc_err)[:300])

    n_obl = len(real) + len(run.static)
    n_dis = len(discharged) + len([s for s in run.static if s[1]])
    by_solver = {}
    for r in discharged:
        d = by_solver.setdefault(r.solver, {'count': 0, 'seconds': 0.0})
        d['count'] += 1
        d['seconds'] = round(d['seconds'] + r.seconds, 3)
    if run.static:
        by_solver['static-scan'] = {'count': len([s for s in run.static if s[1]]), 'seconds': 0.0}
    samples = []
    for r in (discharged[:3] + refuted[:3] + unknown[:2]):
        samples.append({'obligation': r.ob.oid, 'kind': r.ob.kind, 'where': r.ob.where, 'goal': r.ob.note[:300],
                        'verdict': r.verdict, 'solver': r.solver, 'seconds': round(r.seconds, 3),
                        'path_condition_conjuncts': len(r.ob.pc)})
    for s in run.static[:2]:
        samples.append({'obligation': s[0], 'kind': 'static-scan', 'verdict': 'discharged' if s[1] else 'refuted',
                        'goal': s[2][:300]})
    level = getattr(run.mod, 'LEVEL', 'proof') if hasattr(run, 'mod') else 'proof'
    all_ok = (n_obl > 0 and n_dis == n_obl and not fault)
    if level == 'proof' and not all_ok:
        level = 'other'
    ctx = getattr(run, 'ctx', None)
    assumed = sorted(ctx.assumed) if ctx else []
    from contracts import common
    assumptions = [('%s: %s' % (a, common.ASSUMPTIONS[a])) if a in common.ASSUMPTIONS else a for a in assumed]
    assumptions += list(getattr(run.mod, 'ASSUMPTIONS', [])) if hasattr(run, 'mod') else []
    trusted_contracts = []
    if hasattr(run, 'R'):
        for c in run.R.contracts.values():
            if c.trusted and ctx and c.key in ctx.used_contracts:
                trusted_contracts.append('%s:%s (assumed contract%s)' % (c.module, c.qualname, ': ' + c.note if c.note else ''))
    cov = {
        'obligations': n_obl,
        'discharged': n_dis,
        'refuted': len(refuted),
        'undecided': len(unknown),
        'known_findings_matched': len(seen_known),
        'canaries': {'total': len(canaries), 'sat': len([c for c in canaries if c.verdict == 'ok-canary']),
                     'undetermined': len([c for c in canaries if c.verdict == 'canary-unknown']),
                     'vacuous': len(vacuous)},
        'by_backend': by_solver,
        'solver_seconds': round(sum(r.seconds for r in results), 2),
        'checker_cmd': './check %s --tier %s' % (prop, tier),
        'trusted_base': TRUSTED_BASE + trusted_contracts,
        'functions_under_contract': getattr(run, 'functions', []),
        'functions_inlined_into_callers': sorted('%s:%s' % k for k in (ctx.inlined if ctx else [])),
        'samples': samples,
        'explanation': ('contract-based deductive verification: VCs generated from the ast of the real functions '
                        'in /repo/src by pyvc, discharged by SMT; ' +
                        ('all obligations discharged' if all_ok else
                         'NOT all obligations discharged (%d of %d)%s' % (n_dis, n_obl, '; ' + fault[1][:400] if fault else ''))),
    }
    if concrete:
        cov['bounded_concrete_contract_check'] = {
            'note': 'BOUNDED, not counted as proved: the same contract text evaluated by CPython around calls of the '
                    'real functions on generated small inputs (cross-check of contracts and engine; replay search)',
            'evaluations': sum(v['evaluations'] for v in concrete.values()),
            'functions': len(concrete),
            'inputs_rejected_by_precondition': sum(v['skipped_by_precondition'] for v in concrete.values()),
            'failures': sum(len(v['failures']) for v in concrete.values()),
            'per_function_evaluations': {k: v['evaluations'] for k, v in concrete.items()},
            'bound': 'random small-scope inputs by type (pool of 9 names in 2 spellings, 7 record kinds, TTL in '
                     '{0,1,2,120,1124,1125,4500}, caches of <= 5 records), N per function = VERIF_CONCRETE_N',
        }
    if getattr(run, 'inherited', None):
        cov['inherited_functions'] = {'note': 'functions on this property\'s path whose contracts are owned by another check; their obligations are '
                                              'generated and discharged in this run too (counted in obligations/discharged)', 'from': run.inherited}
    if run.bounded:
        cov['bounded'] = {k: {kk: vv for kk, vv in v.items() if kk != 'violations'} for k, v in run.bounded.items()}
        cov['bounded_note'] = 'bounded stand-ins are NOT counted in obligations/discharged'
    ev = {'property_id': prop, 'tier': tier, 'seed': seed, 'level': level, 'coverage': cov,
          'assumptions': assumptions, 'wall_s': round(time.time() - run.t0, 2),
          'violations': len(violations) + len(static_fail) + len(bounded_viol)}
    json.dump(ev, open(evidence_path, 'w'), indent=1, default=str)
    for l in lines:
        print(l)
    verbose = os.environ.get('VERIF_VERBOSE')
    print('%s tier=%s obligations=%d discharged=%d refuted=%d undecided=%d canaries=%d/%d wall=%.1fs exit=%d' % (
        prop, tier, n_obl, n_dis, len(refuted), len(unknown),
        len([c for c in canaries if c.verdict == 'ok-canary']), len(canaries), time.time() - run.t0, status))
    if fault:
        print('%s: %s' % fault)
    for r in unknown[:10]:
        print('UNDECIDED %s  %s  tried=%s' % (r.ob.oid, r.ob.note[:100], r.tried))
    for r in vacuous:
        print('VACUOUS %s (contradictory precondition / unreachable exit)' % r.ob.oid)
    for r in disagree:
        print('SOLVER-DISAGREEMENT %s %s' % (r.ob.oid, r.tried))
    if verbose:
        for r in results:
            print('  %-12s %-8s %6.2fs %s   %s' % (r.verdict, r.solver, r.seconds, r.ob.oid, r.ob.note[:80]))
    return status


def main(argv):
    import argparse
    ap = argparse.ArgumentParser()
    ap.add_argument('prop')
    ap.add_argument('--tier', default=os.environ.get('VERIF_TIER', 'quick'))
    ap.add_argument('--replay')
    a = ap.parse_args(argv)
    seed = int(os.environ.get('VERIF_SEED', '0') or 0)
    if a.replay:
        print(open(a.replay).read())
        return 0
    return run_property(a.prop.upper(), a.tier, seed)
