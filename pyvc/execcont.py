"""Executor part 2: container semantics (list / dict / set, record-keyed variants)."""
import z3

from .core import (Val, Sc, RefV, NoneV, TupleV, Cont, PyConst, FuncV, CellLoc, FieldLoc, ItemLoc, ElemLoc,
                   TermLoc, VCError, fresh)
from .core import simp
from .types import (T, INT, REAL, BOOL, STR, BYTES, OPTINT, IDENT, ANYREF, Ref, Str, Bytes, NONE, Ident,
                    ident_of, cls_of, blen)

_card = {}
_wit = {}


def card_fn(ksort):
    n = ksort.name()
    if n not in _card:
        _card[n] = z3.Function('card_' + n, z3.ArraySort(ksort, z3.BoolSort()), z3.IntSort())
        _wit[n] = z3.Function('wit_' + n, z3.ArraySort(ksort, z3.BoolSort()), ksort)
    return _card[n], _wit[n]


def card_axioms():
    ax = []
    for n, card in list(_card.items()):
        wit = _wit[n]
        asort = card.domain(0)
        ksort = asort.domain()
        h = z3.Const('h', asort)
        k = z3.Const('k', ksort)
        ax.append(z3.ForAll([h], card(h) >= 0, patterns=[card(h)]))
        ax.append(z3.ForAll([h, k], z3.Implies(z3.Select(h, k), card(h) > 0),
                            patterns=[z3.MultiPattern(card(h), z3.Select(h, k))]))
        ax.append(z3.ForAll([h], z3.Implies(card(h) > 0, z3.Select(h, wit(h))), patterns=[card(h)]))
        ax.append(z3.ForAll([h, k], card(z3.Store(h, k, True)) == card(h) + z3.If(z3.Select(h, k), 0, 1),
                            patterns=[card(z3.Store(h, k, True))]))
        ax.append(z3.ForAll([h, k], card(z3.Store(h, k, False)) == card(h) - z3.If(z3.Select(h, k), 1, 0),
                            patterns=[card(z3.Store(h, k, False))]))
    return ax


bsum_fn = z3.Function('bsum', z3.ArraySort(z3.IntSort(), Bytes), z3.IntSort(), z3.IntSort())


def bsum_axioms():
    a = z3.Const('a', z3.ArraySort(z3.IntSort(), Bytes))
    return [z3.ForAll([a], bsum_fn(a, 0) == 0, patterns=[bsum_fn(a, 0)])]


class ContMixin:

    def bsum_after_append(self, st, old, new, n, xterm):
        """bsum(arr, k) = total length of the first k chunks (spec function, defined by recursion on k).
        Instances of its definition are added where a chunk list changes; no recursive axiom is given to the
        solver (it would be a matching loop)."""
        k = z3.Int('k!bs')
        st.assume(bsum_fn(new, n + 1) == bsum_fn(old, n) + blen(xterm))
        st.assume(z3.ForAll([k], z3.Implies(k <= n, bsum_fn(new, k) == bsum_fn(old, k)),
                            patterns=[bsum_fn(new, k), bsum_fn(old, k)]))

    # ---- generic accessors --------------------------------------------------------------
    def c_term(self, c, st):
        return c.loc.read(st)

    def c_has_arr(self, c, st):
        return simp(c.t.acc('has')(self.c_term(c, st)))

    def c_len(self, c, st):
        t = c.t
        v = self.c_term(c, st)
        if t.kind == 'list':
            return t.acc('len')(v)
        has = t.acc('has')(v)
        card, _ = card_fn(has.sort().domain())
        return card(has)

    def key_term(self, c, k, st):
        """z3 key term for looking k up in container c."""
        t = c.t
        if t.kind in ('rdict', 'rset'):
            if isinstance(k, RefV):
                return ident_of(k.term)
            if isinstance(k, Sc) and k.t.kind == 'ident':
                return k.term
            raise VCError('record-keyed container indexed by %r' % (k,))
        kt = t.args[0]
        if isinstance(k, TupleV) and kt.kind == 'tuple':
            return self.term(k, st, kt)
        return self.term(k, st, kt)

    def elem_val(self, c, loc, et, st):
        """Val for an element living at loc with type et."""
        if et.is_container:
            return Cont(loc, et)
        term = loc.read(st)
        if et.kind == 'ref':
            v = RefV(term, et, False)
            self.assume_type(v, st)
            return v
        if et.kind == 'tuple':
            return self.wrap(term, et)
        return Sc(term, et)

    def new_cont(self, t, st, term=None):
        if term is None:
            term = self.empty_term(t)
        return Cont(st.new_cell(term), t)

    def empty_term(self, t):
        if t.kind == 'list':
            return t.mk(z3.IntVal(0), fresh('arr', z3.ArraySort(z3.IntSort(), t.args[0].sort())))
        if t.kind == 'dict':
            return t.mk(z3.K(t.args[0].sort(), z3.BoolVal(False)),
                        fresh('val', z3.ArraySort(t.args[0].sort(), t.args[1].sort())))
        if t.kind == 'rdict':
            return t.mk(z3.K(Ident, z3.BoolVal(False)), fresh('kobj', z3.ArraySort(Ident, Ref)),
                        fresh('val', z3.ArraySort(Ident, t.args[0].sort())))
        if t.kind == 'set':
            return t.mk(z3.K(t.args[0].sort(), z3.BoolVal(False)))
        if t.kind == 'rset':
            return t.mk(z3.K(Ident, z3.BoolVal(False)), fresh('obj', z3.ArraySort(Ident, Ref)))
        raise VCError('empty %r' % t)

    def write_cont(self, c, st, term, node=None):
        if c.frozen:
            raise VCError('mutation of a read-only container value (line %s)' % getattr(node, 'lineno', '?'))
        c.loc.write(st, term)

    def rebind_aliases(self, st, v, newloc):
        for name, val in list(st.locals.items()):
            if val is v:
                nv = Cont(newloc, v.t)
                for a in ('some', 'empty_literal'):
                    if hasattr(v, a):
                        setattr(nv, a, getattr(v, a))
                st.locals[name] = nv

    # ---- list ---------------------------------------------------------------------------
    def l_len(self, c, st):
        return c.t.acc('len')(self.c_term(c, st))

    def l_arr(self, c, st):
        return c.t.acc('arr')(self.c_term(c, st))

    def l_index(self, c, idx, st, frame, node):
        """normalise a (possibly negative constant) index, emit IndexError fork."""
        n = self.l_len(c, st)
        if isinstance(idx, PyConst) and isinstance(idx.v, int) and idx.v < 0:
            i = n + idx.v
        else:
            i, k = self.num(idx, st)
            if not (isinstance(idx, PyConst)) and not st.spec:
                i = z3.If(i < 0, i + n, i)
        self.pend_raise(st, z3.Or(i < 0, i >= n), 'IndexError', frame, node)
        return i

    def l_get(self, c, idx, st, frame, node):
        i = self.l_index(c, idx, st, frame, node)
        return self.elem_val(c, ElemLoc(c.loc, c.t, i), c.t.args[0], st)

    def l_append(self, c, v, st, node=None):
        t = c.t
        cur = self.c_term(c, st)
        n = t.acc('len')(cur)
        st.assume(n >= 0)
        arr = t.acc('arr')(cur)
        if self.ctx.named_appends and not st.spec:
            # a named array with a frame axiom triggered from BOTH sides, so that ground terms over the old
            # list instantiate facts over the new one (E-matching does not look through store terms)
            new = fresh('app', arr.sort())
            i = z3.Int('i!ap')
            xt = self.term(v, st, t.args[0])
            st.assume(z3.Select(new, n) == xt)
            body = z3.Implies(i != n, z3.Select(new, i) == z3.Select(arr, i))
            try:
                st.assume(z3.ForAll([i], body, patterns=[z3.Select(new, i), z3.Select(arr, i)]))
            except z3.Z3Exception:
                # the old array is a constant array (empty list literal): Select(arr, i) simplifies away, not a pattern
                st.assume(z3.ForAll([i], body, patterns=[z3.Select(new, i)]))
            if t.args[0].kind == 'bytes':
                self.bsum_after_append(st, arr, new, n, xt)
            self.write_cont(c, st, t.mk(n + 1, new), node)
            return
        self.write_cont(c, st, t.mk(n + 1, z3.Store(arr, n, self.term(v, st, t.args[0]))), node)

    def l_slice_term(self, c, lo, hi, st):
        """fresh list term equal to c[lo:hi] (lo/hi z3 ints already clamped into [0,len])."""
        t = c.t
        cur = self.c_term(c, st)
        arr = t.acc('arr')(cur)
        new = fresh('slice', arr.sort())
        i = z3.Int('i!s')
        st.assume(z3.ForAll([i], z3.Select(new, i) == z3.Select(arr, i + lo), patterns=[z3.Select(new, i)]))
        return t.mk(hi - lo, new)

    def clamp(self, x, n):
        """CPython slice clamping of index x for length n."""
        x2 = z3.If(x < 0, x + n, x)
        return z3.If(x2 < 0, 0, z3.If(x2 > n, n, x2))

    # ---- dict ---------------------------------------------------------------------------
    def d_has(self, c, k, st):
        return z3.Select(self.c_has_arr(c, st), self.key_term(c, k, st))

    def d_valtype(self, c):
        return c.t.args[1] if c.t.kind == 'dict' else c.t.args[0]

    def d_item(self, c, k, st):
        kt = self.key_term(c, k, st)
        return self.elem_val(c, ItemLoc(c.loc, c.t, kt), self.d_valtype(c), st)

    def d_store(self, c, k, v, st, node=None):
        t = c.t
        cur = self.c_term(c, st)
        kt = self.key_term(c, k, st)
        vt = self.d_valtype(c)
        vterm = self.term(v, st, vt)
        has = t.acc('has')(cur)
        if t.kind == 'dict':
            new = t.mk(z3.Store(has, kt, True), z3.Store(t.acc('val')(cur), kt, vterm))
        else:
            kobj = t.acc('kobj')(cur)
            # CPython keeps the existing key object when an equal key is present
            nk = z3.If(z3.Select(has, kt), kobj, z3.Store(kobj, kt, k.term))
            new = t.mk(z3.Store(has, kt, True), nk, z3.Store(t.acc('val')(cur), kt, vterm))
        self.write_cont(c, st, new, node)
        if isinstance(v, Cont) and isinstance(v.loc, CellLoc):
            # the container now lives inside the dict: local names bound to it become aliases of that slot
            # (rebinding in THIS state only; Cont objects are shared between forked states)
            self.rebind_aliases(st, v, ItemLoc(c.loc, c.t, kt))

    def d_delete(self, c, k, st, node=None):
        t = c.t
        cur = self.c_term(c, st)
        kt = self.key_term(c, k, st)
        has = z3.Store(t.acc('has')(cur), kt, False)
        if t.kind == 'dict':
            new = t.mk(has, t.acc('val')(cur))
        else:
            new = t.mk(has, t.acc('kobj')(cur), t.acc('val')(cur))
        self.write_cont(c, st, new, node)

    # ---- set ----------------------------------------------------------------------------
    def s_add(self, c, v, st, node=None):
        t = c.t
        cur = self.c_term(c, st)
        kt = self.key_term(c, v, st)
        has = t.acc('has')(cur)
        if t.kind == 'set':
            new = t.mk(z3.Store(has, kt, True))
        else:
            obj = t.acc('obj')(cur)
            new = t.mk(z3.Store(has, kt, True), z3.If(z3.Select(has, kt), obj, z3.Store(obj, kt, v.term)))
        self.write_cont(c, st, new, node)

    def s_discard(self, c, v, st, node=None):
        t = c.t
        cur = self.c_term(c, st)
        kt = self.key_term(c, v, st)
        has = z3.Store(t.acc('has')(cur), kt, False)
        new = t.mk(has) if t.kind == 'set' else t.mk(has, t.acc('obj')(cur))
        self.write_cont(c, st, new, node)

    # ---- iteration snapshots ------------------------------------------------------------------
    def snapshot_keys(self, c, st):
        """A list enumerating the keys of dict/set c in (unspecified) iteration order.
        Returns (len term, arr term over key sort)."""
        t = c.t
        has = self.c_has_arr(c, st)
        ks = has.sort().domain()
        n = fresh('n', z3.IntSort())
        arr = fresh('it', z3.ArraySort(z3.IntSort(), ks))
        pos = z3.Function('pos!%d' % next(_ctr), ks, z3.IntSort())
        i = z3.Int('i!e')
        k = z3.Const('k!e', ks)
        card, _ = card_fn(ks)
        st.assume(n >= 0)
        st.assume(n == card(has))
        st.assume(z3.ForAll([i], z3.Implies(z3.And(0 <= i, i < n),
                                            z3.And(z3.Select(has, z3.Select(arr, i)),
                                                   pos(z3.Select(arr, i)) == i)),
                            patterns=[z3.Select(arr, i)]))
        st.assume(z3.ForAll([k], z3.Implies(z3.Select(has, k),
                                            z3.And(0 <= pos(k), pos(k) < n, z3.Select(arr, pos(k)) == k)),
                            patterns=[z3.Select(has, k)]))
        return n, arr


import itertools
_ctr = itertools.count()
