"""Executor part 1: frames, coercions, truthiness, arithmetic helpers."""
import ast
import z3

from .core import (Val, Sc, RefV, NoneV, TupleV, Cont, PyConst, FuncV, ClassV, ModuleV, CellLoc, FieldLoc,
                   ItemLoc, ElemLoc, TermLoc, State, Obligation, Outcome, VCError, fresh)
from .types import (T, INT, REAL, BOOL, STR, BYTES, OPTINT, IDENT, ANYREF, Ref, Str, Bytes, NONE, Ident,
                    ident_of, cls_of, lower, slen, ulen, blen, bat, parse_type, ref, OptInt)


class Frame:
    def __init__(self, module, cls, finfo, contract, depth=0, verifying=False):
        self.module = module
        self.cls = cls
        self.finfo = finfo
        self.contract = contract
        self.depth = depth
        self.verifying = verifying
        self.raises = []          # pending raise outcomes produced inside expressions
        self.loop_ord = 0
        self.label = finfo.qualname if finfo else '<spec>'


def split_goal(g, depth=0):
    """Split a goal into independently provable conjuncts: And at top level, under ForAll, and in the
    consequent of Implies."""
    if depth > 6:
        return [g]
    if z3.is_and(g):
        out = []
        for c in g.children():
            out.extend(split_goal(c, depth + 1))
        return out
    if z3.is_implies(g):
        a, b = g.children()
        bs = split_goal(b, depth + 1)
        if len(bs) > 1:
            return [z3.Implies(a, x) for x in bs]
        return [g]
    if z3.is_eq(g) and g.arg(0).sort() == z3.BoolSort() and depth <= 3 and not z3.is_const(g.arg(0)) \
            and not z3.is_const(g.arg(1)):
        a, b = g.children()
        return split_goal(z3.Implies(a, b), depth + 1) + split_goal(z3.Implies(b, a), depth + 1)
    if z3.is_quantifier(g) and g.is_forall():
        n = g.num_vars()
        vs = [z3.Const('%s!sp%d' % (g.var_name(n - 1 - i), depth), g.var_sort(n - 1 - i)) for i in range(n)]
        body = z3.substitute_vars(g.body(), *vs)
        bs = split_goal(body, depth + 1)
        if len(bs) > 1:
            vs_o = list(reversed(vs))
            return [z3.ForAll(vs_o, x) for x in bs]
        return [g]
    return [g]


def is_num(t):
    return t.kind in ('int', 'real', 'bool')


class Base:
    """Helpers shared by the executor mixins."""

    # ---- conversions -------------------------------------------------------------
    def term(self, v, st, want=None):
        """z3 term for a value (optionally coerced to type `want`)."""
        ctx = self.ctx
        if isinstance(v, PyConst):
            x = v.v
            if isinstance(x, bool):
                t = z3.BoolVal(x)
                if want is not None and want.kind == 'int':
                    return z3.IntVal(int(x))
                return t
            if isinstance(x, int):
                if want is not None and want.kind == 'real':
                    return z3.RealVal(x)
                if want is not None and want.kind == 'bool':
                    return z3.BoolVal(x != 0)
                if want is not None and want.kind == 'optint':
                    return OPTINT.mk(z3.BoolVal(True), z3.IntVal(x))
                return z3.IntVal(x)
            if isinstance(x, float):
                return z3.RealVal(repr(x))
            if isinstance(x, str):
                return ctx.strlit(x)
            if isinstance(x, bytes):
                return ctx.byteslit(x)
            if x is None:
                return NONE
            raise VCError('no term for constant %r' % (x,))
        if isinstance(v, NoneV):
            if want is not None and want.kind == 'optint':
                return OPTINT.mk(z3.BoolVal(False), z3.IntVal(0))
            return NONE
        if isinstance(v, Sc):
            t = v.term
            if want is not None:
                if want.kind == 'real' and v.t.kind == 'int':
                    return z3.ToReal(t)
                if want.kind == 'real' and v.t.kind == 'bool':
                    return z3.If(t, z3.RealVal(1), z3.RealVal(0))
                if want.kind == 'int' and v.t.kind == 'bool':
                    return z3.If(t, z3.IntVal(1), z3.IntVal(0))
                if want.kind == 'optint' and v.t.kind == 'int':
                    return OPTINT.mk(z3.BoolVal(True), t)
            return t
        if isinstance(v, RefV):
            return v.term
        if isinstance(v, Cont):
            if want is not None and want.is_container and want != v.t and getattr(v, 'empty_literal', False):
                # an untyped empty display ({} / [] / set()) takes the type of its destination
                v.t = want
                v.loc.write(st, self.empty_term(want))
            return v.loc.read(st)
        if isinstance(v, TupleV):
            t = want if (want is not None and want.kind == 'tuple') else v.t
            return t.mk(*[self.term(i, st, a) for i, a in zip(v.items, t.args)])
        raise VCError('no term for %r' % (v,))

    def wrap(self, term, t, st=None, nullable=False):
        """Wrap a z3 term of type t as a Val."""
        if t.kind == 'ref':
            return RefV(term, t, nullable)
        if t.is_container:
            return Cont(TermLoc(term), t, frozen=True)
        if t.kind == 'tuple':
            return TupleV([self.wrap(t.acc('t%d' % i)(term), a) for i, a in enumerate(t.args)])
        return Sc(term, t)

    def fresh_val(self, name, t, st, nullable=False):
        """A fresh unconstrained value of type t (containers get a fresh cell)."""
        if t.is_container:
            c = Cont(st.new_cell(fresh(name, t.sort())), t)
            if t.kind == 'list':
                st.assume(t.acc('len')(c.loc.read(st)) >= 0)
            return c
        if t.kind == 'tuple':
            return TupleV([self.fresh_val(name, a, st) for a in t.args])
        if t.kind == 'none':
            return NoneV()
        v = self.wrap(fresh(name, t.sort()), t, nullable=nullable)
        self.assume_type(v, st)
        return v

    def assume_type(self, v, st):
        """Typing assumptions for a value of declared type (A4 in DESIGN.md)."""
        if st.spec:
            return      # specifications state the class facts they need explicitly
        if isinstance(v, RefV) and v.t.cls != 'object':
            isin = self.ctx.shapes.isinstance_term(v.term, v.t.cls)
            if v.nullable:
                st.assume(z3.Or(v.term == NONE, isin))
            else:
                st.assume(isin)
            hook = self.ctx.class_invariant_hook
            if hook is not None:
                for a in hook(self, v, st):
                    st.assume(z3.Implies(v.term != NONE, a) if v.nullable else a)

    # ---- truthiness ---------------------------------------------------------------
    def truth(self, v, st):
        if isinstance(v, PyConst):
            return z3.BoolVal(bool(v.v))
        if isinstance(v, NoneV):
            return z3.BoolVal(False)
        if isinstance(v, Sc):
            k = v.t.kind
            if k == 'bool':
                return v.term
            if k == 'int':
                return v.term != 0
            if k == 'real':
                return v.term != 0
            if k == 'str':
                return slen(v.term) != 0
            if k == 'bytes':
                return blen(v.term) != 0
            if k == 'optint':
                return z3.And(OPTINT.acc('oi_some')(v.term), OPTINT.acc('oi_val')(v.term) != 0)
        if isinstance(v, RefV):
            return v.term != NONE
        if isinstance(v, Cont):
            if getattr(v, 'some', None) is not None:
                return z3.And(v.some, self.c_len(v, st) != 0)
            return self.c_len(v, st) != 0
        if isinstance(v, TupleV):
            return z3.BoolVal(len(v.items) > 0)
        if isinstance(v, (FuncV, ClassV)):
            return z3.BoolVal(True)
        raise VCError('truth of %r' % (v,))

    # ---- numeric ------------------------------------------------------------------
    def num(self, v, st):
        """-> (term, kind) with kind int|real."""
        if isinstance(v, PyConst):
            if isinstance(v.v, bool):
                return z3.IntVal(int(v.v)), 'int'
            if isinstance(v.v, int):
                return z3.IntVal(v.v), 'int'
            if isinstance(v.v, float):
                return z3.RealVal(repr(v.v)), 'real'
        if isinstance(v, Sc):
            if v.t.kind == 'int':
                return v.term, 'int'
            if v.t.kind == 'real':
                return v.term, 'real'
            if v.t.kind == 'bool':
                return z3.If(v.term, z3.IntVal(1), z3.IntVal(0)), 'int'
            if v.t.kind == 'optint':
                # Optional[int] used as a number: only meaningful where the code has established `is not None`
                # (arithmetic on None raises TypeError in CPython: an obligation that it is not None is generated)
                from .types import OPTINT as _OI
                return _OI.acc('oi_val')(v.term), 'int'
        raise VCError('not numeric: %r' % (v,))

    def num2(self, a, b, st):
        ta, ka = self.num(a, st)
        tb, kb = self.num(b, st)
        if ka == kb:
            return ta, tb, ka
        if ka == 'int':
            ta = z3.ToReal(ta)
        if kb == 'int':
            tb = z3.ToReal(tb)
        return ta, tb, 'real'

    @staticmethod
    def mask_runs(m):
        """decompose a non-negative constant mask into contiguous runs [(lo, width)]."""
        runs = []
        i = 0
        while m >> i:
            if (m >> i) & 1:
                lo = i
                while (m >> i) & 1:
                    i += 1
                runs.append((lo, i - lo))
            else:
                i += 1
        return runs

    def bit_and(self, x, m):
        """x & m for constant m >= 0, exact for all Python ints (floor div/mod)."""
        if m == 0:
            return z3.IntVal(0)
        parts = []
        for lo, w in self.mask_runs(m):
            p = (x / (1 << lo)) % (1 << w) if lo else x % (1 << w)
            parts.append(p * (1 << lo) if lo else p)
        return z3.Sum(parts) if len(parts) > 1 else parts[0]

    def bit_or_const(self, x, m):
        """x | m for constant m >= 0: x + sum over set bits of m of 2^k*(1-bit(x,k))."""
        res = x
        k = 0
        while m >> k:
            if (m >> k) & 1:
                res = res + (1 << k) * (1 - ((x / (1 << k)) % 2))
            k += 1
        return res

    def is_pure_bool(self, v):
        return isinstance(v, Sc) and v.t.kind == 'bool' or (isinstance(v, PyConst) and isinstance(v.v, bool))

    # ---- obligations --------------------------------------------------------------
    def oblige(self, st, goal, kind, frame, node=None, note='', assume=True):
        if st.spec:
            return
        if z3.is_true(goal):
            return
        parts = split_goal(goal)
        if len(parts) > 1:
            for i, g in enumerate(parts):
                self._oblige1(st, g, '%s.%d' % (kind, i), frame, node, note, assume)
            return
        self._oblige1(st, goal, kind, frame, node, note, assume)

    def _oblige1(self, st, goal, kind, frame, node=None, note='', assume=True):
        view = getattr(frame, 'view', None)
        if view is not None and view.only_loops and not (kind.startswith('loop') or kind.startswith('ensures')):
            # checked in the view that assumes all invariants; here it is an assumption
            if assume:
                st.assume(goal)
            return
        where = ''
        if node is not None and hasattr(node, 'lineno'):
            where = '%s:%d' % (frame.finfo.path if frame.finfo else '?', node.lineno)
        base = '%s/%s.%s/%s' % (self.current_prop, frame.module.replace('zeroconf.', ''), frame.label, kind)
        ob = Obligation(self.ctx.new_oid(base), kind, st.pc, goal, where, note)
        self.ctx.obligations.append(ob)
        if assume:
            st.assume(goal)

    def pend_raise(self, st, cond, exc, frame, node=None):
        """An operation raises `exc` when cond holds: fork a raise outcome, continue with not cond."""
        if st.spec:
            return
        if z3.is_false(cond):
            return
        rs = st.fork()
        rs.assume(cond)
        frame.raises.append(Outcome('raise', rs, exc=exc, node=node))
        st.assume(z3.Not(cond))
