"""Locate the real functions in /repo/src/zeroconf by (module, qualname) from the ast.

Nothing is copied or rewritten: the verified text is the FunctionDef node of the file in the
working tree at the time of the run; sha256 of its source segment goes into the evidence.
"""
import ast
import hashlib
import os

REPO_SRC = os.environ.get('VERIF_REPO_SRC', '/repo/src')


class FuncInfo:
    def __init__(self, module, qualname, node, cls, src, path):
        self.module = module
        self.qualname = qualname
        self.node = node
        self.cls = cls
        self.src = src
        self.path = path
        self.sha = hashlib.sha256(src.encode()).hexdigest()

    @property
    def lines(self):
        return (self.node.lineno, self.node.end_lineno)

    def __repr__(self):
        return '<%s:%s>' % (self.module, self.qualname)


class ModInfo:
    def __init__(self, name, path, tree, text):
        self.name = name
        self.path = path
        self.tree = tree
        self.text = text
        self.funcs = {}
        self.classes = {}     # name -> ClassDef
        self.consts = {}      # name -> ast expr (module level simple assignments)
        self.imports = {}     # local name -> (module, name)


class Repo:
    def __init__(self, src=REPO_SRC, package='zeroconf'):
        self.src = src
        self.package = package
        self.modules = {}
        root = os.path.join(src, package)
        for dp, dn, fn in os.walk(root):
            for f in fn:
                if not f.endswith('.py'):
                    continue
                path = os.path.join(dp, f)
                rel = os.path.relpath(path, src)[:-3].replace(os.sep, '.')
                if rel.endswith('.__init__'):
                    rel = rel[:-9]
                text = open(path, encoding='utf-8').read()
                tree = ast.parse(text, path)
                self.modules[rel] = self._index(rel, path, tree, text)
        self._const_cache = {}

    def _index(self, name, path, tree, text):
        m = ModInfo(name, path, tree, text)

        def visit(body, prefix, cls):
            for node in body:
                if isinstance(node, (ast.FunctionDef, ast.AsyncFunctionDef)):
                    q = prefix + node.name
                    seg = ast.get_source_segment(text, node) or ''
                    # property setters share the name: keep getter under name, setter under name.setter
                    for d in node.decorator_list:
                        if isinstance(d, ast.Attribute) and d.attr == 'setter':
                            q = q + '.setter'
                    m.funcs[q] = FuncInfo(name, q, node, cls, seg, path)
                elif isinstance(node, ast.ClassDef):
                    m.classes[prefix + node.name] = node
                    visit(node.body, prefix + node.name + '.', prefix + node.name)
                elif isinstance(node, ast.If):
                    # 'if TYPE_CHECKING:' bodies are dead at run time
                    t = node.test
                    if isinstance(t, ast.Name) and t.id == 'TYPE_CHECKING':
                        visit(node.orelse, prefix, cls)
                    else:
                        visit(node.body, prefix, cls)
                        visit(node.orelse, prefix, cls)
                elif isinstance(node, ast.Assign) and cls is None:
                    for tg in node.targets:
                        if isinstance(tg, ast.Name):
                            m.consts[tg.id] = node.value
                elif isinstance(node, ast.AnnAssign) and cls is None and node.value is not None:
                    if isinstance(node.target, ast.Name):
                        m.consts[node.target.id] = node.value
                elif isinstance(node, ast.ImportFrom):
                    base = name.split('.')
                    # module 'a.b.c' (file) : level 1 -> 'a.b'
                    if node.level:
                        is_pkg = path.endswith('__init__.py')
                        up = node.level - (1 if is_pkg else 0)
                        pkg = base[:len(base) - up] if up else base
                        if not is_pkg:
                            pkg = base[:len(base) - node.level]
                        modname = '.'.join(pkg + ([node.module] if node.module else []))
                    else:
                        modname = node.module
                    for a in node.names:
                        m.imports[a.asname or a.name] = (modname, a.name)
                elif isinstance(node, ast.Import):
                    for a in node.names:
                        m.imports[a.asname or a.name.split('.')[0]] = (a.name, None)
        visit(tree.body, '', None)
        return m

    def func(self, module, qualname):
        m = self.modules.get(module)
        if m is None:
            raise KeyError('no module %s' % module)
        f = m.funcs.get(qualname)
        if f is None:
            raise KeyError('no function %s in %s' % (qualname, module))
        return f

    def has_func(self, module, qualname):
        return module in self.modules and qualname in self.modules[module].funcs

    def class_def(self, clsname):
        """Find a class by bare name anywhere in the package -> (module, ClassDef)."""
        for mn, m in self.modules.items():
            if clsname in m.classes:
                return mn, m.classes[clsname]
        return None, None

    def class_bases(self, clsname):
        mn, cd = self.class_def(clsname)
        if cd is None:
            return []
        out = []
        for b in cd.bases:
            if isinstance(b, ast.Name):
                out.append(b.id)
            elif isinstance(b, ast.Attribute):
                out.append(b.attr)
        return out

    def mro(self, clsname):
        out = [clsname]
        for b in self.class_bases(clsname):
            for x in self.mro(b):
                if x not in out:
                    out.append(x)
        return out

    def find_method(self, clsname, meth):
        """Resolve a method through the (single-inheritance-ish) MRO -> FuncInfo or None."""
        for c in self.mro(clsname):
            mn, cd = self.class_def(c)
            if cd is None:
                continue
            f = self.modules[mn].funcs.get(c + '.' + meth)
            if f is not None:
                return f
        return None

    def subclasses(self, clsname):
        out = set()
        for mn, m in self.modules.items():
            for cn in m.classes:
                if '.' in cn:
                    continue
                if clsname in self.mro(cn):
                    out.add(cn)
        return out

    def exception_classes(self):
        out = {}
        m = self.modules.get(self.package + '._exceptions')
        if m:
            for cn, cd in m.classes.items():
                b = cd.bases[0]
                out[cn] = b.id if isinstance(b, ast.Name) else b.attr
        return out

    def resolve_const(self, module, name, depth=0):
        """Evaluate a module-level constant to a Python value if it is a simple literal expression.
        Returns (True, value) or (False, None)."""
        key = (module, name)
        if key in self._const_cache:
            return self._const_cache[key]
        res = (False, None)
        m = self.modules.get(module)
        if m is not None and depth < 8:
            if name in m.consts:
                res = self._eval_const(module, m.consts[name], depth)
            elif name in m.imports:
                mod2, n2 = m.imports[name]
                if n2 is not None and mod2 in self.modules:
                    res = self.resolve_const(mod2, n2, depth + 1)
        self._const_cache[key] = res
        return res

    def _eval_const(self, module, node, depth):
        try:
            if isinstance(node, ast.Constant):
                return True, node.value
            if isinstance(node, ast.Name):
                return self.resolve_const(module, node.id, depth + 1)
            if isinstance(node, ast.UnaryOp) and isinstance(node.op, ast.USub):
                ok, v = self._eval_const(module, node.operand, depth)
                return (ok, -v) if ok else (False, None)
            if isinstance(node, ast.BinOp):
                ok1, a = self._eval_const(module, node.left, depth)
                ok2, b = self._eval_const(module, node.right, depth)
                if ok1 and ok2:
                    import operator
                    ops = {ast.Add: operator.add, ast.Sub: operator.sub, ast.Mult: operator.mul,
                           ast.Div: operator.truediv, ast.BitOr: operator.or_, ast.BitAnd: operator.and_,
                           ast.FloorDiv: operator.floordiv, ast.LShift: operator.lshift,
                           ast.Mod: operator.mod, ast.Pow: operator.pow}
                    return True, ops[type(node.op)](a, b)
                return False, None
            if isinstance(node, (ast.Tuple, ast.Set, ast.List)):
                vals = []
                for e in node.elts:
                    if isinstance(e, ast.Starred):
                        ok, v = self._eval_const(module, e.value, depth)
                        if not ok:
                            return False, None
                        vals.extend(v)
                    else:
                        ok, v = self._eval_const(module, e, depth)
                        if not ok:
                            return False, None
                        vals.append(v)
                if isinstance(node, ast.Set):
                    return True, frozenset(vals)
                return True, tuple(vals)
            if isinstance(node, ast.Attribute):
                # State.init.value style enum constants and IPVersion.All are left symbolic
                return False, None
        except Exception:
            return False, None
        return False, None
