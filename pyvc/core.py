"""pyvc core: forward symbolic execution of real Python function bodies (ast) to
verification conditions over z3 terms.  See DESIGN.md section 2.

The executor never solves anything itself: it emits Obligation objects
(path condition + goal); pyvc.solve discharges them in solver subprocesses.
"""
import ast
import copy
import itertools
import z3

from .types import (T, INT, REAL, BOOL, STR, BYTES, OPTINT, IDENT, ANYREF, Ref, Str, Bytes, NONE, Ident,
                    ident_of, cls_of, lower, slen, ulen, blen, bat, parse_type, ref, OptInt)
from . import types as _types

_uid = itertools.count()


FRESH_LOG = []


def fresh(prefix, sort):
    c = z3.Const('%s!%d' % (prefix, next(_uid)), sort)
    FRESH_LOG.append(c)
    return c


class VCError(Exception):
    """The engine cannot handle a construct (out of reach / contract drift) -> exit 2."""


# ---------------------------------------------------------------------------------------
# values

class Val:
    t = None


class Sc(Val):
    """Scalar z3-term value (int/real/bool/str/bytes/optint/ident/tuple-dt)."""
    __slots__ = ('term', 't')

    def __init__(self, term, t):
        self.term = term
        self.t = t

    def __repr__(self):
        return 'Sc(%s:%r)' % (self.term, self.t)


class RefV(Val):
    __slots__ = ('term', 't', 'nullable')

    def __init__(self, term, t=ANYREF, nullable=False):
        self.term = term
        self.t = t
        self.nullable = nullable

    def __repr__(self):
        return 'RefV(%s:%r%s)' % (self.term, self.t, '?' if self.nullable else '')


class NoneV(Val):
    t = T('none')

    def __repr__(self):
        return 'NoneV'


class TupleV(Val):
    __slots__ = ('items', 't')

    def __init__(self, items):
        self.items = list(items)
        self.t = T('tuple', [i.t for i in self.items])


class Cont(Val):
    """Container value living at a location."""

    def __init__(self, loc, t, frozen=False):
        self.loc = loc
        self.t = t
        self.frozen = frozen


class PyConst(Val):
    """A concrete Python constant (int, str, bool, tuple/frozenset of ints, ...)."""
    __slots__ = ('v', 't')

    def __init__(self, v):
        self.v = v
        if isinstance(v, bool):
            self.t = BOOL
        elif isinstance(v, int):
            self.t = INT
        elif isinstance(v, float):
            self.t = REAL
        elif isinstance(v, str):
            self.t = STR
        elif isinstance(v, bytes):
            self.t = BYTES
        else:
            self.t = T('pyconst')

    def __repr__(self):
        return 'PyConst(%r)' % (self.v,)


class FuncV(Val):
    """Callable: kind in builtin/function/method/class/contmethod/lambda/stub."""
    t = T('func')

    def __init__(self, kind, **kw):
        self.kind = kind
        self.__dict__.update(kw)

    def __repr__(self):
        return 'FuncV(%s,%s)' % (self.kind, {k: v for k, v in self.__dict__.items() if k != 'kind'})


class ClassV(Val):
    t = T('class')

    def __init__(self, name):
        self.name = name

    def __repr__(self):
        return 'ClassV(%s)' % self.name


class ModuleV(Val):
    t = T('module')

    def __init__(self, name):
        self.name = name


# ---------------------------------------------------------------------------------------
# locations of containers

def simp(t):
    """light simplification (select-over-store with equal index, accessor-of-constructor)"""
    try:
        return z3.simplify(t, blast_select_store=False, som=False, flat=False)
    except Exception:
        return t


class CellLoc:
    def __init__(self, cid):
        self.cid = cid

    def read(self, st):
        return st.cells[self.cid]

    def write(self, st, term):
        st.cells[self.cid] = term

    def key(self):
        return ('cell', self.cid)


class FieldLoc:
    def __init__(self, obj, fid, sort):
        self.obj = obj
        self.fid = fid
        self.sort = sort

    def read(self, st):
        return simp(z3.Select(st.heap_arr(self.fid, self.sort), self.obj))

    def write(self, st, term):
        st.heap[self.fid] = z3.Store(st.heap_arr(self.fid, self.sort), self.obj, term)

    def key(self):
        return ('field', self.fid, self.obj.sexpr())


class ItemLoc:
    """value of dict parent at key (dict or rdict)."""

    def __init__(self, parent, pt, key):
        self.parent = parent
        self.pt = pt
        self.k = key

    def read(self, st):
        return simp(z3.Select(self.pt.acc('val')(self.parent.read(st)), self.k))

    def write(self, st, term):
        p = self.parent.read(st)
        pt = self.pt
        if pt.kind == 'dict':
            new = pt.mk(pt.acc('has')(p), z3.Store(pt.acc('val')(p), self.k, term))
        else:
            new = pt.mk(pt.acc('has')(p), pt.acc('kobj')(p), z3.Store(pt.acc('val')(p), self.k, term))
        self.parent.write(st, new)

    def key(self):
        return ('item', self.parent.key(), self.k.sexpr())


class ElemLoc:
    def __init__(self, parent, pt, idx):
        self.parent = parent
        self.pt = pt
        self.i = idx

    def read(self, st):
        return simp(z3.Select(self.pt.acc('arr')(self.parent.read(st)), self.i))

    def write(self, st, term):
        p = self.parent.read(st)
        pt = self.pt
        self.parent.write(st, pt.mk(pt.acc('len')(p), z3.Store(pt.acc('arr')(p), self.i, term)))

    def key(self):
        return ('elem', self.parent.key(), self.i.sexpr())


class TermLoc:
    """A read-only container value given by a term (e.g. quantified/old/spec values)."""

    def __init__(self, term):
        self.term = term

    def read(self, st):
        return self.term

    def write(self, st, term):
        raise VCError('write to read-only container value')

    def key(self):
        return ('term', self.term.sexpr())


# ---------------------------------------------------------------------------------------
# state

class State:
    def __init__(self, ctx):
        self.ctx = ctx
        self.locals = {}
        self.heap = {}          # fid -> array term (current)
        self.cells = {}
        self.pc = []
        self.old = None         # pre-state for old()
        self.spec = False
        self.ghost = {}         # name -> Val (ghost variables)
        self.bound = {}         # bound variable names in spec quantifiers

    def fork(self):
        s = State.__new__(State)
        s.ctx = self.ctx
        s.locals = dict(self.locals)
        s.heap = dict(self.heap)
        s.cells = dict(self.cells)
        s.pc = list(self.pc)
        s.old = self.old
        s.spec = self.spec
        s.ghost = dict(self.ghost)
        s.bound = dict(self.bound)
        return s

    def assume(self, b):
        if z3.is_true(b):
            return
        self.pc.append(b)

    def heap_arr(self, fid, sort):
        a = self.heap.get(fid)
        if a is None:
            a = z3.Const('H0_' + fid, z3.ArraySort(Ref, sort))
            self.ctx.heap0[fid] = a
            self.heap[fid] = a
            self.ctx.note_heap_array(a, sort)
        return a

    def alloc_arr(self):
        a = self.heap.get('$alloc')
        if a is None:
            a = self.ctx.alive0
            self.heap['$alloc'] = a
        return a

    def allocate(self, o):
        a = self.alloc_arr()
        self.assume(z3.Not(z3.Select(a, o)))
        self.heap['$alloc'] = z3.Store(a, o, True)

    def new_cell(self, term):
        cid = next(_uid)
        self.cells[cid] = term
        return CellLoc(cid)


class Obligation:
    def __init__(self, oid, kind, pc, goal, where='', note=''):
        self.oid = oid
        self.kind = kind
        self.pc = list(pc)
        self.goal = goal
        self.where = where
        self.note = note
        self.expect = 'unsat'     # canaries expect 'sat'

    def formula(self, axioms):
        return list(axioms) + self.pc + [z3.Not(self.goal)]


class Outcome:
    __slots__ = ('kind', 'st', 'val', 'exc', 'node')

    def __init__(self, kind, st, val=None, exc=None, node=None):
        self.kind = kind      # normal / return / raise / break / continue
        self.st = st
        self.val = val
        self.exc = exc
        self.node = node


# ---------------------------------------------------------------------------------------
# exception lattice

BUILTIN_EXC = {
    'BaseException': None, 'Exception': 'BaseException', 'LookupError': 'Exception',
    'IndexError': 'LookupError', 'KeyError': 'LookupError', 'ValueError': 'Exception',
    'UnicodeError': 'ValueError', 'UnicodeEncodeError': 'UnicodeError', 'TypeError': 'Exception',
    'AttributeError': 'Exception', 'AssertionError': 'Exception', 'RuntimeError': 'Exception',
    'RecursionError': 'RuntimeError', 'NotImplementedError': 'RuntimeError', 'ZeroDivisionError': 'ArithmeticError',
    'ArithmeticError': 'Exception', 'OverflowError': 'ArithmeticError', 'OSError': 'Exception',
    'struct.error': 'Exception', 'StopIteration': 'Exception', 'asyncio.TimeoutError': 'Exception',
    'asyncio.CancelledError': 'BaseException',
}


class Ctx:
    """Everything shared by one verification run: source index, shapes, contracts, axioms."""

    def __init__(self, repo, shapes, contracts, stubs=None):
        self.repo = repo                # pyvc.source.Repo
        self.shapes = shapes            # pyvc.shapes.Shapes
        self.contracts = contracts      # dict (module, qualname) -> Contract
        self.stubs = stubs or {}
        self.obligations = []
        self.heap0 = {}
        self.axioms = []
        self.strlits = {}
        self.byteslits = {}
        self.exc_parent = dict(BUILTIN_EXC)
        self.exc_parent.update(repo.exception_classes())
        self.spec_funcs = {}
        self.notes = []
        self.assumed = set()
        self.inline_depth = 0
        self._oid_count = {}
        self.alive0 = z3.Const('alive0', z3.ArraySort(Ref, z3.BoolSort()))
        self.max_paths = 4000
        self.merge_paths = True
        self.no_merge_in_loops = False
        self.named_appends = True
        self.used_contracts = set()
        self.inlined = set()
        self.record_classes_all = set()
        self.rec_elem_type = T('ref', cls='DNSRecord')
        self.class_invariant_hook = None
        self.ref_eq_hook = None
        self.getattr_hook = None
        self.setattr_hook = None
        self.await_hook = None
        self.spec_builtin_hook = None
        self.type_aliases = {}
        self.heap_axioms = []
        self.ghost_objects = {}      # name -> RefV (global ghost objects such as the call log)

    def note_heap_array(self, arr, sort):
        """typing invariant of list-valued heap fields: every stored list has a non-negative length"""
        if sort.kind() == z3.Z3_DATATYPE_SORT and sort.name().startswith('List_'):
            o = z3.Const('o!ln', Ref)
            ln = sort.accessor(0, 0)
            self.heap_axioms.append(z3.ForAll([o], ln(z3.Select(arr, o)) >= 0, patterns=[z3.Select(arr, o)]))

    ALIASES = {'float_': 'float', '_float': 'float', 'int_': 'int', '_int': 'int', 'str_': 'str', '_str': 'str',
               'bytes_': 'bytes', '_bytes': 'bytes', 'List': 'list', 'Dict': 'dict', 'Set': 'set',
               'Tuple': 'tuple', 'Optional': 'opt', 'Iterable': 'list', 'Sequence': 'list', 'Any': 'object',
               'Collection': 'list', 'deque': 'list', 'DNSRecord_': 'DNSRecord', 'DNSQuestion_': 'DNSQuestion',
               '_DNSRecord': 'DNSRecord', 'DNSPointer_': 'DNSPointer', 'DNSOutgoing_': 'DNSOutgoing'}

    def annotation_type(self, text, frame, depth=0):
        import re as _re
        text = text.strip().strip("'\"")
        if text in ('None',):
            return None
        m = _re.match(r'^Union\[(.*)\]$', text)
        if m:
            parts = [p.strip() for p in split_top(m.group(1))]
            if set(parts) <= {'float', 'int', '_float', '_int', 'float_', 'int_'}:
                return T('real')
            np = [p for p in parts if p != 'None']
            if len(np) == 1:
                return self.annotation_type(np[0], frame, depth)
            return None
        toks = _re.split(r'([\[\],])', text)
        out = []
        for tk in toks:
            t = tk.strip().strip("'\"")
            if not t:
                continue
            if t in '[],':
                out.append(t)
                continue
            t = t.split('.')[-1]
            t = self.ALIASES.get(t, self.type_aliases.get(t, t))
            if t == 'float':
                t = 'real'
            if t not in ('int', 'real', 'bool', 'str', 'bytes', 'list', 'dict', 'set', 'tuple', 'opt', 'object', 'optint') \
                    and t not in self.shapes._ids:
                # a module-level alias such as _AnswerWithAdditionalsType
                if frame is not None and depth < 4:
                    node = self.find_alias(frame.module, t)
                    if node is not None:
                        r = self.annotation_type(ast.unparse(node), frame, depth + 1)
                        if r is None:
                            return None
                        out.append(repr(r))
                        continue
                return None
            out.append(t)
        try:
            return parse_type(''.join(out))
        except Exception:
            return None

    def find_alias(self, module, name, depth=0):
        m = self.repo.modules.get(module)
        if m is None or depth > 5:
            return None
        if name in m.consts:
            return m.consts[name]
        if name in m.imports:
            mod2, n2 = m.imports[name]
            if n2:
                return self.find_alias(mod2, n2, depth + 1)
        return None

    def exc_is(self, name, base):
        seen = name
        while seen is not None:
            if seen == base:
                return True
            seen = self.exc_parent.get(seen)
        return False

    def strlit(self, s):
        c = self.strlits.get(s)
        if c is None:
            c = z3.Const('str!%d' % len(self.strlits), Str)
            self.strlits[s] = c
        return c

    def byteslit(self, b):
        c = self.byteslits.get(b)
        if c is None:
            c = z3.Const('bytes!%d' % len(self.byteslits), Bytes)
            self.byteslits[b] = c
        return c

    def literal_axioms(self):
        ax = []
        lits = list(self.strlits.items())
        if len(lits) > 1:
            ax.append(z3.Distinct(*[c for _, c in lits]))
        for s, c in lits:
            ax.append(slen(c) == len(s))
            ax.append(ulen(c) == len(s.encode('utf-8', 'surrogatepass')))
            lo = s.lower()
            ax.append(lower(c) == self.strlit(lo))
        # second pass: lower() may have added literals
        if len(self.strlits) != len(lits):
            return self.literal_axioms()
        bl = list(self.byteslits.items())
        if len(bl) > 1:
            ax.append(z3.Distinct(*[c for _, c in bl]))
        for b, c in bl:
            ax.append(blen(c) == len(b))
            for i, x in enumerate(b[:16]):
                ax.append(bat(c, i) == x)
        return ax

    def new_oid(self, base):
        n = self._oid_count.get(base, 0)
        self._oid_count[base] = n + 1
        return '%s#%d' % (base, n)


GLOBAL_AXIOMS = []


def split_top(s):
    out, depth, cur = [], 0, ''
    for ch in s:
        if ch == '[':
            depth += 1
        elif ch == ']':
            depth -= 1
        if ch == ',' and depth == 0:
            out.append(cur)
            cur = ''
        else:
            cur += ch
    if cur.strip():
        out.append(cur)
    return out



def base_axioms():
    s = z3.Const('s', Str)
    b = z3.Const('b', Bytes)
    i = z3.Int('i')
    return [
        z3.ForAll([s], lower(lower(s)) == lower(s), patterns=[lower(lower(s))]),
        z3.ForAll([s], slen(lower(s)) == slen(s), patterns=[slen(lower(s))]),
        z3.ForAll([s], z3.And(slen(s) >= 0, ulen(s) >= slen(s), ulen(s) <= 4 * slen(s)),
                  patterns=[slen(s)]),
        z3.ForAll([s], z3.And(ulen(s) >= slen(s), ulen(s) <= 4 * slen(s)), patterns=[ulen(s)]),
        z3.ForAll([b], blen(b) >= 0, patterns=[blen(b)]),
        z3.ForAll([b, i], z3.And(bat(b, i) >= 0, bat(b, i) < 256), patterns=[bat(b, i)]),
    ]
