"""Sorts and type descriptors for the pyvc verification-condition generator.

Python values are encoded as (see DESIGN.md 2.2):
  int -> Int, float -> Real, bool -> Bool, str -> uninterpreted Str (+ lower/len functions),
  bytes -> uninterpreted Bytes (+ blen/bat), objects -> uninterpreted Ref with one heap array
  per field, list -> datatype (len, Array Int E), dict -> datatype (has, val) [record keyed:
  (has, kobj, val) over Ident], set -> Array K Bool [record keyed: (has, obj) over Ident].
"""
import re
import z3

Ref = z3.DeclareSort('Ref')
Str = z3.DeclareSort('Str')
Bytes = z3.DeclareSort('Bytes')
NONE = z3.Const('none', Ref)

_cache = {}


def _dt(name, fields):
    if name in _cache:
        return _cache[name]
    d = z3.Datatype(name)
    d.declare('mk_' + name, *fields)
    s = d.create()
    _cache[name] = s
    return s


# Option of Int (scope_id) and of Real
OptInt = _dt('OptInt', [('oi_some', z3.BoolSort()), ('oi_val', z3.IntSort())])

# IntList as a plain list datatype, needed inside Ident for NSEC rdtypes
IntList = _dt('List_Int', [('len', z3.IntSort()), ('arr', z3.ArraySort(z3.IntSort(), z3.IntSort()))])


def _mk_ident():
    if 'Ident' in _cache:
        return _cache['Ident'], _cache['RData']
    RData = z3.Datatype('RData')
    RData.declare('RD_None')
    RData.declare('RD_Addr', ('rd_address', Bytes), ('rd_scope', OptInt))
    RData.declare('RD_Hinfo', ('rd_cpu', Str), ('rd_os', Str))
    RData.declare('RD_Ptr', ('rd_alias_key', Str))
    RData.declare('RD_Text', ('rd_text', Bytes))
    RData.declare('RD_Srv', ('rd_priority', z3.IntSort()), ('rd_weight', z3.IntSort()),
                  ('rd_port', z3.IntSort()), ('rd_server_key', Str))
    RData.declare('RD_Nsec', ('rd_next_name', Str), ('rd_rdtypes', IntList))
    RData = RData.create()
    Ident = z3.Datatype('Ident')
    Ident.declare('mk_ident', ('i_kind', z3.IntSort()), ('i_key', Str), ('i_type', z3.IntSort()),
                  ('i_class', z3.IntSort()), ('i_rdata', RData))
    Ident = Ident.create()
    _cache['Ident'] = Ident
    _cache['RData'] = RData
    return Ident, RData


Ident, RData = _mk_ident()
ident_of = z3.Function('ident', Ref, Ident)
cls_of = z3.Function('cls', Ref, z3.IntSort())
lower = z3.Function('lower', Str, Str)
slen = z3.Function('slen', Str, z3.IntSort())      # len(s) in code points
ulen = z3.Function('ulen', Str, z3.IntSort())      # len(s.encode('utf-8'))
blen = z3.Function('blen', Bytes, z3.IntSort())
bat = z3.Function('bat', Bytes, z3.IntSort(), z3.IntSort())

KIND_QUESTION, KIND_ADDR, KIND_HINFO, KIND_PTR, KIND_TEXT, KIND_SRV, KIND_NSEC = range(7)


class T:
    """Type descriptor."""
    __slots__ = ('kind', 'args', 'cls', '_sort')

    def __init__(self, kind, args=(), cls=None):
        self.kind = kind
        self.args = tuple(args)
        self.cls = cls
        self._sort = None

    def __repr__(self):
        if self.kind == 'ref':
            return self.cls
        if self.kind == 'rdict':
            return 'dict[DNSRecord,%r]' % (self.args[0],)
        if self.kind == 'rset':
            return 'set[DNSRecord]'
        if self.args:
            return '%s[%s]' % (self.kind, ','.join(map(repr, self.args)))
        return self.kind

    def __eq__(self, o):
        return isinstance(o, T) and (self.kind, self.args, self.cls) == (o.kind, o.args, o.cls)

    def __hash__(self):
        return hash((self.kind, self.args, self.cls))

    @property
    def is_container(self):
        return self.kind in ('list', 'dict', 'set', 'rdict', 'rset')

    def sortname(self):
        if self.kind == 'ref':
            return 'Ref'
        if self.args:
            return '%s_%s' % (self.kind.capitalize(), '_'.join(a.sortname() for a in self.args))
        return {'int': 'Int', 'real': 'Real', 'bool': 'Bool', 'str': 'Str', 'bytes': 'Bytes',
                'optint': 'OptInt', 'ident': 'Ident', 'rset': 'Rset'}[self.kind]

    def sort(self):
        if self._sort is not None:
            return self._sort
        k = self.kind
        if k == 'int':
            s = z3.IntSort()
        elif k == 'real':
            s = z3.RealSort()
        elif k == 'bool':
            s = z3.BoolSort()
        elif k == 'str':
            s = Str
        elif k == 'bytes':
            s = Bytes
        elif k == 'ref':
            s = Ref
        elif k == 'optint':
            s = OptInt
        elif k == 'ident':
            s = Ident
        elif k == 'list':
            s = _dt(self.sortname(), [('len', z3.IntSort()),
                                      ('arr', z3.ArraySort(z3.IntSort(), self.args[0].sort()))])
        elif k == 'dict':
            K, V = self.args
            s = _dt(self.sortname(), [('has', z3.ArraySort(K.sort(), z3.BoolSort())),
                                      ('val', z3.ArraySort(K.sort(), V.sort()))])
        elif k == 'rdict':
            V = self.args[0]
            s = _dt(self.sortname(), [('has', z3.ArraySort(Ident, z3.BoolSort())),
                                      ('kobj', z3.ArraySort(Ident, Ref)),
                                      ('val', z3.ArraySort(Ident, V.sort()))])
        elif k == 'set':
            s = _dt(self.sortname(), [('has', z3.ArraySort(self.args[0].sort(), z3.BoolSort()))])
        elif k == 'rset':
            s = _dt('Rset', [('has', z3.ArraySort(Ident, z3.BoolSort())),
                             ('obj', z3.ArraySort(Ident, Ref))])
        elif k == 'tuple':
            s = _dt(self.sortname(), [('t%d' % i, a.sort()) for i, a in enumerate(self.args)])
        else:
            raise TypeError('no sort for %r' % (self,))
        self._sort = s
        return s

    # datatype helpers
    def acc(self, name):
        s = self.sort()
        for i in range(s.constructor(0).arity()):
            a = s.accessor(0, i)
            if a.name() == name:
                return a
        raise KeyError(name)

    def mk(self, *fields):
        return self.sort().constructor(0)(*fields)


INT, REAL, BOOL, STR, BYTES, OPTINT, IDENT = (T('int'), T('real'), T('bool'), T('str'), T('bytes'),
                                              T('optint'), T('ident'))
ANYREF = T('ref', cls='object')

RECORD_CLASSES = set()   # filled by shapes: names of classes whose instances hash/compare by ident


def ref(cls):
    return T('ref', cls=cls)


def parse_type(s):
    """Parse 'dict[str, list[DNSRecord]]' and friends."""
    s = s.strip()
    toks = re.findall(r'[A-Za-z_][A-Za-z_0-9\.]*|\[|\]|,', s)
    pos = [0]

    def parse():
        name = toks[pos[0]]
        pos[0] += 1
        args = []
        if pos[0] < len(toks) and toks[pos[0]] == '[':
            pos[0] += 1
            while True:
                args.append(parse())
                if toks[pos[0]] == ',':
                    pos[0] += 1
                    continue
                if toks[pos[0]] == ']':
                    pos[0] += 1
                    break
        low = name
        if low in ('int',):
            return INT
        if low in ('real', 'float'):
            return REAL
        if low == 'bool':
            return BOOL
        if low == 'str':
            return STR
        if low == 'bytes':
            return BYTES
        if low == 'optint':
            return OPTINT
        if low == 'ident':
            return IDENT
        if low == 'opt':
            return args[0]
        if low == 'list':
            return T('list', args)
        if low == 'tuple':
            return T('tuple', args)
        if low == 'dict':
            if args[0].kind == 'ref' and args[0].cls in RECORD_CLASSES:
                return T('rdict', [args[1]])
            return T('dict', args)
        if low == 'set':
            if args[0].kind == 'ref' and args[0].cls in RECORD_CLASSES:
                return T('rset')
            return T('set', args)
        return ref(name)

    t = parse()
    return t
