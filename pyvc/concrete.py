"""Concrete semantics of the contract language: the SAME contract text that pyvc proves symbolically is
evaluated by CPython on real objects around a call of the REAL function.

Used for (1) replaying refuted obligations / finding a failing input when the solver only times out,
(2) cross-checking contracts and engine against CPython on the unchanged tree (every contract must hold on
every generated input), (3) the run-time monitor.
"""
import ast
import os
import collections
import copy
import importlib
import itertools
import random

Ident = collections.namedtuple('Ident', 'kind key type class_ rdata')

KINDS = {'DNSQuestion': 0, 'DNSAddress': 1, 'DNSHinfo': 2, 'DNSPointer': 3, 'DNSText': 4, 'DNSService': 5,
         'DNSNsec': 6}


class RData(tuple):
    names = ()

    def __getattr__(self, n):
        try:
            return self[self.names.index(n)]
        except ValueError:
            raise AttributeError(n)


def mk_rdata(names, vals):
    r = RData(vals)
    r.names = names
    return r


def ident_of(r):
    cn = type(r).__name__
    k = KINDS.get(cn)
    if k is None:
        return ('obj', id(r))
    if cn == 'DNSQuestion':
        rd = mk_rdata((), ())
    elif cn == 'DNSAddress':
        rd = mk_rdata(('address', 'scope_id'), (r.address, r.scope_id))
    elif cn == 'DNSHinfo':
        rd = mk_rdata(('cpu', 'os'), (r.cpu, r.os))
    elif cn == 'DNSPointer':
        rd = mk_rdata(('alias_key',), (r.alias_key,))
    elif cn == 'DNSText':
        rd = mk_rdata(('text',), (r.text,))
    elif cn == 'DNSService':
        rd = mk_rdata(('priority', 'weight', 'port', 'server_key'), (r.priority, r.weight, r.port, r.server_key))
    else:
        rd = mk_rdata(('next_name', 'rdtypes'), (r.next_name, tuple(r.rdtypes)))
    return IdentV(k, r.key, r.type, r.class_, rd)


class IdentV(Ident):
    def __getattr__(self, n):
        return getattr(self.rdata, n)


def is_recordish(x):
    return type(x).__name__ in KINDS


# model-only fields (validity flags of Optional[list] memos) -> (real attribute, projection)
MODEL_FIELDS = {
    '_dns_address_cache_valid': ('_dns_address_cache', lambda v: v is not None),
    '_addr_nsec_cache_valid': ('_get_address_and_nsec_records_cache', lambda v: v is not None),
    # identity set of a builder's answer section (ghost field of the send log)
    'g_answers': ('answers', lambda v: {a: set() for a, t in v}),
}


class SpecError(Exception):
    pass


class Snapshot:
    """Pre-state: container attributes copied (deeply through containers, never through objects),
    scalar attributes recorded per object."""

    def __init__(self):
        self.attrs = {}      # id(obj) -> {attr: value}
        self.keep = []
        self.conts = {}      # id(container) -> copy  (for container parameters)

    def copy_value(self, v, depth=0):
        if isinstance(v, dict):
            return {k: self.copy_value(x, depth + 1) for k, x in v.items()}
        if isinstance(v, list):
            return [self.copy_value(x, depth + 1) for x in v]
        if isinstance(v, collections.deque):
            return collections.deque(self.copy_value(x, depth + 1) for x in v)
        if isinstance(v, set):
            return set(v)
        if isinstance(v, tuple):
            return tuple(self.copy_value(x, depth + 1) for x in v)
        self.visit(v, depth + 1)
        return v

    def visit(self, o, depth=0):
        if o is None or isinstance(o, (int, float, str, bytes, bool, type)) or depth > 6:
            return
        if isinstance(o, (dict, list, set, tuple, collections.deque)):
            if id(o) not in self.conts:
                self.keep.append(o)
                self.conts[id(o)] = None
                self.conts[id(o)] = self.copy_value(o, depth)
            return
        if id(o) in self.attrs:
            return
        names = []
        for c in type(o).__mro__:
            names.extend(getattr(c, '__slots__', ()) or ())
        if hasattr(o, '__dict__'):
            names.extend(o.__dict__.keys())
        if not names:
            return
        self.keep.append(o)
        d = self.attrs[id(o)] = {}
        for n in names:
            try:
                v = getattr(o, n)
            except AttributeError:
                continue
            if callable(v) and not isinstance(v, (dict, list, set)):
                continue
            d[n] = self.copy_value(v, depth)


MODEL_CLASSES = {}     # ghost/model classes (TimerHandle, EventLoop, ...) -> their concrete counterparts


class Evaluator:
    def __init__(self, spec_funcs, modules=('zeroconf._dns', 'zeroconf._cache', 'zeroconf')):
        self.spec_funcs = spec_funcs
        self.classes = {}
        for m in modules:
            try:
                mod = importlib.import_module(m)
            except Exception:
                continue
            for n in dir(mod):
                v = getattr(mod, n)
                if isinstance(v, type):
                    self.classes.setdefault(n, v)
        self.universe = None
        self.ghost_funcs = {}

    def cls(self, name):
        if name in self.classes:
            return self.classes[name]
        for m in list(importlib.sys.modules.values()):
            if m and getattr(m, '__name__', '').startswith('zeroconf') and hasattr(m, name):
                v = getattr(m, name)
                if isinstance(v, type):
                    self.classes[name] = v
                    return v
        if name in MODEL_CLASSES:
            return MODEL_CLASSES[name]
        raise SpecError('unknown class ' + name)

    # ------------------------------------------------------------------------------------------
    def eval(self, text_or_node, env, snap=None, old_mode=False):
        node = ast.parse(text_or_node.strip(), mode='eval').body if isinstance(text_or_node, str) else text_or_node
        return self.ev(node, env, snap, old_mode)

    def ev(self, n, env, snap, old):
        m = getattr(self, 'c_' + type(n).__name__)
        return m(n, env, snap, old)

    def c_Constant(self, n, env, snap, old):
        return n.value

    def c_Name(self, n, env, snap, old):
        if n.id in env:
            v = env[n.id]
            if old and snap is not None and isinstance(v, (dict, list, set, collections.deque)) and id(v) in snap.conts:
                return snap.conts[id(v)]
            return v
        if n.id in ('True', 'False', 'None'):
            return {'True': True, 'False': False, 'None': None}[n.id]
        try:
            return self.cls(n.id)
        except SpecError:
            raise SpecError('unbound name %s' % n.id)

    def c_Tuple(self, n, env, snap, old):
        out = []
        for e in n.elts:
            if isinstance(e, ast.Starred):
                out.extend(self.ev(e.value, env, snap, old))
            else:
                out.append(self.ev(e, env, snap, old))
        return tuple(out)

    def c_UnaryOp(self, n, env, snap, old):
        v = self.ev(n.operand, env, snap, old)
        if isinstance(n.op, ast.Not):
            return not v
        if isinstance(n.op, ast.USub):
            return -v
        raise SpecError('unary')

    def c_BoolOp(self, n, env, snap, old):
        if isinstance(n.op, ast.And):
            for v in n.values:
                if not self.ev(v, env, snap, old):
                    return False
            return True
        for v in n.values:
            if self.ev(v, env, snap, old):
                return True
        return False

    def c_BinOp(self, n, env, snap, old):
        a = self.ev(n.left, env, snap, old)
        b = self.ev(n.right, env, snap, old)
        import operator as o
        ops = {ast.Add: o.add, ast.Sub: o.sub, ast.Mult: o.mul, ast.Div: o.truediv, ast.FloorDiv: o.floordiv,
               ast.Mod: o.mod, ast.BitAnd: o.and_, ast.BitOr: o.or_, ast.LShift: o.lshift, ast.RShift: o.rshift}
        return ops[type(n.op)](a, b)

    def c_IfExp(self, n, env, snap, old):
        return self.ev(n.body if self.ev(n.test, env, snap, old) else n.orelse, env, snap, old)

    def c_Compare(self, n, env, snap, old):
        left = self.ev(n.left, env, snap, old)
        for op, c in zip(n.ops, n.comparators):
            right = self.ev(c, env, snap, old)
            if isinstance(op, ast.Is):
                r = left is right
            elif isinstance(op, ast.IsNot):
                r = left is not right
            elif isinstance(op, ast.Eq):
                r = self.eq(left, right)
            elif isinstance(op, ast.NotEq):
                r = not self.eq(left, right)
            elif isinstance(op, ast.Lt):
                r = left < right
            elif isinstance(op, ast.LtE):
                r = left <= right
            elif isinstance(op, ast.Gt):
                r = left > right
            elif isinstance(op, ast.GtE):
                r = left >= right
            elif isinstance(op, ast.In):
                r = self.contains(right, left)
            elif isinstance(op, ast.NotIn):
                r = not self.contains(right, left)
            else:
                raise SpecError('cmp')
            if not r:
                return False
            left = right
        return True

    def eq(self, a, b):
        import enum
        if isinstance(a, enum.Enum):
            a = a.value
        if isinstance(b, enum.Enum):
            b = b.value
        if isinstance(a, bool) or isinstance(b, bool):
            return bool(a) == bool(b)
        return a == b

    def contains(self, cont, x):
        return x in cont

    def c_Attribute(self, n, env, snap, old):
        o = self.ev(n.value, env, snap, old)
        return self.getattr(o, n.attr, snap, old)

    def getattr(self, o, attr, snap, old):
        if isinstance(o, IdentV):
            return getattr(o, attr)
        if old and snap is not None and id(o) in snap.attrs and attr in snap.attrs[id(o)]:
            return snap.attrs[id(o)][attr]
        if attr in MODEL_FIELDS and not hasattr(o, attr):
            real_attr, fn = MODEL_FIELDS[attr]
            base = snap.attrs[id(o)][real_attr] if (old and snap is not None and id(o) in snap.attrs and real_attr in snap.attrs[id(o)]) else getattr(o, real_attr)
            return fn(base)
        v = getattr(o, attr)
        if old and snap is not None and isinstance(v, (dict, list, set, collections.deque)) and id(v) in snap.conts:
            return snap.conts[id(v)]
        return v

    def find_key(self, d, i):
        """key object of record-keyed dict/set d with identity i (None if absent)."""
        for k in d:
            if is_recordish(k) and ident_of(k) == i:
                return k
        return None

    def c_Subscript(self, n, env, snap, old):
        o = self.ev(n.value, env, snap, old)
        k = self.ev(n.slice, env, snap, old)
        if isinstance(o, dict) and isinstance(k, IdentV):
            ko = self.find_key(o, k)
            return o[ko]
        if isinstance(o, dict) and is_recordish(k):
            return o[k]
        return o[k]

    def c_Lambda(self, n, env, snap, old):
        return ('lambda', n, env)

    def c_Call(self, n, env, snap, old):
        f = n.func
        if isinstance(f, ast.Name):
            name = f.id
            a = n.args
            if name == 'old':
                return self.ev(a[0], env, snap, True)
            if name in ('forall', 'exists'):
                decl = a[0].value
                lam = a[1]
                doms = []
                names = []
                from .core import split_top
                for part in split_top(decl):
                    nm, ts = [x.strip() for x in part.split(':', 1)]
                    names.append(nm)
                    doms.append(self.universe.domain(ts))
                body = lam.body if isinstance(lam, ast.Lambda) else lam
                for combo in itertools.product(*doms):
                    e2 = dict(env)
                    e2.update(zip(names, combo))
                    try:
                        v = self.ev(body, e2, snap, old)
                    except (KeyError, IndexError, AttributeError, TypeError) as e:
                        # partial terms under a guard that is false: treat as unspecified -> skip the instance
                        continue
                    if name == 'forall' and not v:
                        return False
                    if name == 'exists' and v:
                        return True
                return name == 'forall'
            if name == 'implies':
                if not self.ev(a[0], env, snap, old):
                    return True
                return bool(self.ev(a[1], env, snap, old))
            if name == 'iff':
                return bool(self.ev(a[0], env, snap, old)) == bool(self.ev(a[1], env, snap, old))
            if name == 'ite':
                return self.ev(a[1] if self.ev(a[0], env, snap, old) else a[2], env, snap, old)
            vals = [self.ev(x, env, snap, old) for x in a] if name not in ('cls_is', 'as_', 'exact_class') else None
            if name == 'ident':
                return ident_of(vals[0])
            if name == 'lower':
                return vals[0].lower()
            if name in ('len', 'card'):
                return len(vals[0])
            if name == 'slen':
                return len(vals[0])
            if name == 'ulen':
                return len(vals[0].encode('utf-8'))
            if name == 'blen':
                return len(vals[0])
            if name == 'bat':
                return vals[0][vals[1]]
            if name == 'mod':
                return vals[0] % vals[1]
            if name == 'div':
                return vals[0] // vals[1]
            if name == 'hash':
                return hash(vals[0])
            if name == 'heap_eq':
                return True
            if name in ('to_real', 'to_int'):
                return vals[0] if name == 'to_real' else int(vals[0] // 1)
            if name == 'list_eq':
                return list(vals[0]) == list(vals[1])
            if name == 'cls_is':
                v = self.ev(a[0], env, snap, old)
                return isinstance(v, self.cls(a[1].id))
            if name == 'exact_class':
                v = self.ev(a[0], env, snap, old)
                return type(v) is self.cls(a[1].id)
            if name == 'as_':
                return self.ev(a[0], env, snap, old)
            if name == 'bsum':
                return sum(len(x) for x in list(vals[0])[:vals[1]])
            if name == 'bsum_unfold':
                return True
            if name == 'uf':
                return self.ghost_funcs[vals[0]](*vals[1:])
            if name in ('allocated', 'fresh_obj'):
                # an object existed in the pre-state iff the snapshot (everything reachable from the inputs) saw it
                v = self.ev(a[0], env, snap, old)
                if snap is None or v is None or isinstance(v, (int, float, str, bytes, bool)):
                    return True
                was = id(v) in snap.attrs or id(v) in snap.conts
                if name == 'fresh_obj':
                    return not was
                return was if old else True
            if name == 'some':
                return vals[0]
            if name == 'nothing':
                return None
            if name == 'heap_unchanged':
                for oid_, attrs in snap.attrs.items():
                    o = next(x for x in snap.keep if id(x) == oid_)
                    for an, av in attrs.items():
                        cur = getattr(o, an, None)
                        same = (cur is av) or (not isinstance(av, (dict, list, set, collections.deque)) and cur == av) \
                            or (isinstance(av, (dict, list, set, collections.deque)) and type(cur) is type(av) and list(cur) == list(av))
                        if not same:
                            if os.environ.get('VERIF_DEBUG_HEAP'):
                                print('heap_unchanged: %s.%s %r -> %r' % (type(o).__name__, an, av, cur))
                            return False
                return True
            if name == 'unchanged':
                return self.eq(self.ev(a[0], env, snap, False), self.ev(a[0], env, snap, True))
            if name == 'isinstance':
                return isinstance(vals[0], vals[1])
            if name == 'pack2v':
                import struct
                return struct.pack('>H', vals[0]) if 0 <= vals[0] < 65536 else None
            if name in self.spec_funcs.get('__concrete__', {}):
                return self.spec_funcs['__concrete__'][name](*vals)
            if name in self.spec_funcs:
                params, ret, body = self.spec_funcs[name]
                if callable(body):
                    raise SpecError('builtin spec function %s has no concrete semantics' % name)
                e2 = dict(getattr(self, 'ghost_env', {}))     # ghost objects (CLOCK, TIMERS, ...) are global names
                e2.update({pn: v for (pn, pt), v in zip(params, vals)})
                return self.ev(ast.parse(body.strip(), mode='eval').body, e2, snap, old)
            raise SpecError('unknown spec function %s' % name)
        if isinstance(f, ast.Attribute):
            o = self.ev(f.value, env, snap, old)
            args = [self.ev(x, env, snap, old) for x in n.args]
            if f.attr == 'has':
                k = args[0]
                if isinstance(k, IdentV):
                    return self.find_key(o, k) is not None
                return k in o
            if f.attr == 'keyobj':
                k = args[0]
                return self.find_key(o, k if isinstance(k, IdentV) else ident_of(k))
            if f.attr == 'get':
                return o.get(*args)
            if f.attr == 'lower':
                return o.lower()
            raise SpecError('method %s' % f.attr)
        raise SpecError('call')


class Universe:
    """finite quantifier domains drawn from the concrete pre/post states"""

    def __init__(self):
        self.strs = set()
        self.idents = set()
        self.objs = []
        self.tuples = set()
        self.maxlen = 0
        self._seen = set()

    def add(self, v, depth=0):
        if depth > 7 or v is None or isinstance(v, (bool, float, bytes, type)):
            return
        if isinstance(v, int):
            return
        if isinstance(v, str):
            self.strs.add(v)
            self.strs.add(v.lower())
            return
        if id(v) in self._seen:
            return
        self._seen.add(id(v))
        if isinstance(v, dict):
            self.maxlen = max(self.maxlen, len(v))
            for k, x in list(v.items()):
                self.add(k, depth + 1)
                self.add(x, depth + 1)
            return
        if isinstance(v, tuple) and v and all(isinstance(x, (str, int)) for x in v):
            self.tuples.add(v)
        if isinstance(v, (list, set, tuple, collections.deque)):
            self.maxlen = max(self.maxlen, len(v))
            for x in list(v):
                self.add(x, depth + 1)
            return
        self.objs.append(v)
        if is_recordish(v):
            try:
                self.idents.add(ident_of(v))
            except AttributeError:
                pass        # an object still under construction (self of __init__)
        names = []
        for c in type(v).__mro__:
            names.extend(getattr(c, '__slots__', ()) or ())
        if hasattr(v, '__dict__'):
            names.extend(v.__dict__.keys())
        for n in names:
            try:
                self.add(getattr(v, n), depth + 1)
            except AttributeError:
                pass

    def domain(self, ts):
        ts = ts.strip()
        if ts == 'str':
            return sorted(self.strs)
        if ts == 'ident':
            return sorted(self.idents, key=repr)
        if ts == 'int':
            return list(range(-1, self.maxlen + 2))
        if ts == 'bool':
            return [False, True]
        if ts.startswith('tuple['):
            return sorted(self.tuples, key=repr)
        return [o for o in self.objs if any(c.__name__ == ts for c in type(o).__mro__)]


class Failure:
    def __init__(self, kind, clause, detail, inputs):
        self.kind = kind
        self.clause = clause
        self.detail = detail
        self.inputs = inputs

    def as_dict(self):
        return {'kind': self.kind, 'clause': self.clause, 'detail': self.detail, 'inputs': self.inputs}


class patched_clock:
    """Pin current_time_millis() (as imported into every loaded zeroconf module) to a chosen value."""

    def __init__(self, value):
        self.value = value
        self.saved = []

    def __enter__(self):
        import sys
        v = self.value
        for name, m in list(sys.modules.items()):
            if m is not None and name.startswith('zeroconf') and hasattr(m, 'current_time_millis'):
                self.saved.append((m, m.current_time_millis))
                m.current_time_millis = lambda v=v: v
        return self

    def __exit__(self, *a):
        for m, f in self.saved:
            m.current_time_millis = f


def check_call(contract, func, kwargs, spec_funcs, describe=None, exc_lattice=None, clock=None, extra_env=None,
               ghost_funcs=None, ghost_out_fn=None):
    """Run the REAL function on concrete inputs and evaluate the contract.  Returns None (holds), a Failure,
    or 'skip' when the precondition does not hold for this input."""
    ev = Evaluator(spec_funcs)
    uni = Universe()
    for v in kwargs.values():
        uni.add(v)
    ev.universe = uni
    ev.ghost_funcs = dict(ghost_funcs or {})
    env = dict(kwargs)
    if extra_env:
        env.update(extra_env)
        ev.ghost_env = dict(extra_env)
        for v in extra_env.values():
            uni.add(v)
    try:
        for r in contract.requires:
            if not ev.eval(r, env):
                return 'skip'
    except SpecError:
        raise
    def safe_repr(v):
        try:
            return repr(v)[:300]
        except Exception:
            return '<%s under construction>' % type(v).__name__
    # described BEFORE the snapshot: repr() of a DNSIncoming parses its records lazily (a write)
    desc = describe(kwargs) if describe else {k: safe_repr(v) for k, v in kwargs.items()}
    snap = Snapshot()
    for v in kwargs.values():
        snap.visit(v)
    for v in (extra_env or {}).values():
        snap.visit(v)
    raised = None
    result = None
    try:
        if clock is not None:
            with patched_clock(clock):
                result = func(**kwargs)
        else:
            result = func(**kwargs)
    except Exception as e:   # noqa
        raised = e
    # post-state universe: add new things
    uni._seen = set()
    for v in kwargs.values():
        uni.add(v)
    for v in (extra_env or {}).values():
        uni.add(v)
    uni.add(result)
    for c in snap.conts.values():
        uni.add(c)
    if raised is not None:
        name = type(raised).__name__
        allowed = None
        for exc, cond in contract.raises.items():
            if any(c.__name__ == exc.split('.')[-1] for c in type(raised).__mro__):
                allowed = cond
                break
        if allowed is None:
            return Failure('raises', 'no-raise[%s]' % name, '%s: %r escaped' % (name, raised), desc)
        if not ev.eval(allowed, env, snap, True):
            return Failure('raises', 'raises[%s]' % name, '%s raised outside its condition %s' % (name, allowed), desc)
        return None
    for exc in contract.raises_exact:
        if ev.eval(contract.raises[exc], env, snap, True):
            return Failure('raises-exact', 'raises-exact[%s]' % exc, 'returned normally although %s was promised' % exc, desc)
    env2 = dict(env)
    env2['result'] = result
    ghosts = set(getattr(contract, 'ghost_out', {}) or {})
    if ghost_out_fn is not None and raised is None:
        got = ghost_out_fn(kwargs, result)
        for k_, v_ in got.items():
            env2[k_] = v_
            uni.add(v_)
            ghosts.discard(k_)
    if clock is not None and 'now' in ghosts:
        env2['now'] = clock
        ghosts.discard('now')
    all_ens = list(contract.all_ensures() if hasattr(contract, 'all_ensures') else contract.ensures) + list(getattr(contract, 'ensures_concrete', []))
    for i, e in enumerate(all_ens):
        if ghosts and any(isinstance(x, ast.Name) and x.id in ghosts for x in ast.walk(ast.parse(e.strip(), mode='eval'))):
            continue      # clause mentions a function-local ghost (e.g. the clock value read inside): not evaluable
        try:
            ok = ev.eval(e, env2, snap, False)
        except SpecError:
            raise
        if not ok:
            return Failure('ensures', 'ensures#%d' % i, e, dict(desc, result=repr(result)[:300]))
    return None
