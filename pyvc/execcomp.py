"""Executor part 7: comprehensions and generator expressions.

[elem for x in A for y in B(x) if cond] is characterised by a bijection between the index range of the
result and the set of generator tuples satisfying the guards (skolem functions src_m / pos), plus
monotonicity for a single generator over a list (order preservation).  Set/dict comprehensions by
membership with a witness function.
"""
import ast
import itertools
import z3

from .core import (Val, Sc, RefV, NoneV, TupleV, Cont, PyConst, FuncV, CellLoc, FieldLoc, ItemLoc, ElemLoc, TermLoc,
                   Outcome, VCError, fresh)
from .types import (T, INT, REAL, BOOL, STR, BYTES, IDENT, ANYREF, Ref, Str, Ident, ident_of, NONE, ref)
from .core import VCError as _VCE
from .execbase import Frame
from . import core as _core

_n = itertools.count()


def first_iter_of(ex):
    return getattr(ex, '_comp_first_iter', None)


class CompMixin:

    def comp_domain(self, generators, st, frame):
        """-> (bound consts, guard terms, scratch state, facts-start-index)"""
        # the first iterable cannot depend on the bound variables: evaluate it in the real state
        first_iter = self.ev1(generators[0].iter, st, frame)
        self._comp_first_iter = first_iter
        self._comp_fresh_start = len(_core.FRESH_LOG)
        s = st.fork()
        s.locals = dict(st.locals)
        n0 = len(s.pc)
        self._comp_n0 = n0
        bvs = []
        guards = []
        self._comp_mem = []      # indexes of membership guards (facts are asserted under these only)
        self._comp_trig = []     # one trigger term per generator
        self._comp_marks = []    # (index into FRESH_LOG, number of bound variables in scope from there on)
        self._comp_pc_marks = []  # (index into the scratch pc, number of bound variables in scope from there on)
        listgen = None
        for gi, g in enumerate(generators):
            itv = first_iter if gi == 0 else self.ev1(g.iter, s, frame)
            uid = next(_n)
            if isinstance(itv, FuncV) and itv.kind in ('items', 'values'):
                c = itv.cont
                has = self.c_has_arr(c, s)
                k = z3.Const('ck!%d' % uid, has.sort().domain())
                bvs.append(k)
                self._comp_mem.append(len(guards))
                guards.append(z3.Select(has, k))
                self._comp_trig.append(z3.Select(has, k))
                item = self.elem_val(c, ItemLoc(c.loc, c.t, k), self.d_valtype(c), s)
                if itv.kind == 'values':
                    x = item
                else:
                    x = TupleV([self.key_val(c, k, s), item])
            elif isinstance(itv, Cont) and itv.t.kind == 'list':
                j = z3.Const('cj!%d' % uid, z3.IntSort())
                bvs.append(j)
                self._comp_mem.append(len(guards))
                guards.append(z3.And(0 <= j, j < self.l_len(itv, s)))
                self._comp_trig.append(z3.Select(self.l_arr(itv, s), j))
                x = self.wrap_elem(z3.Select(self.l_arr(itv, s), j), itv.t.args[0], s)
                if len(generators) == 1:
                    listgen = j
            elif isinstance(itv, Cont):
                has = self.c_has_arr(itv, s)
                k = z3.Const('ck!%d' % uid, has.sort().domain())
                bvs.append(k)
                self._comp_mem.append(len(guards))
                guards.append(z3.Select(has, k))
                self._comp_trig.append(z3.Select(has, k))
                x = self.key_val(itv, k, s)
            elif isinstance(itv, PyConst) and isinstance(itv.v, (tuple, frozenset)):
                items = sorted(itv.v)
                j = z3.Const('cj!%d' % uid, z3.IntSort())
                bvs.append(j)
                self._comp_mem.append(len(guards))
                guards.append(z3.And(0 <= j, j < len(items)))
                self._comp_trig.append(None)
                term = z3.IntVal(items[-1]) if items else z3.IntVal(0)
                for idx in range(len(items) - 2, -1, -1):
                    term = z3.If(j == idx, z3.IntVal(items[idx]), term)
                x = Sc(term, INT)
                if len(generators) == 1:
                    listgen = j
            else:
                raise VCError('comprehension over %r' % (itv,))
            self._comp_marks.append((len(_core.FRESH_LOG), len(bvs)))
            self._comp_pc_marks.append((len(s.pc), len(bvs)))
            for s2 in self.assign(g.target, x, s, frame, g.iter):
                pass
            for cnd in g.ifs:
                v = self.ev1(cnd, s, frame)
                guards.append(self.truth(v, s))
                self.narrow(cnd, s, True)
        return bvs, guards, s, n0, listgen

    def lift_fresh(self, start, bvs, terms):
        """Constants created while evaluating under the bound variables (results of contract calls,
        snapshots) depend on those variables: replace each by a fresh function of the bound variables."""
        new = _core.FRESH_LOG[start:]
        if not new or not bvs:
            return terms
        sub = []
        marks = getattr(self, '_comp_marks', [])
        for idx, c in enumerate(new, start):
            # a constant depends on the bound variables that existed when it was created
            nb = 0
            for fresh_index, nbv in marks:
                if idx >= fresh_index:
                    nb = nbv
            deps = bvs[:nb] if marks else bvs
            if not deps:
                continue
            f = z3.Function('L' + c.decl().name(), *[b.sort() for b in deps], c.sort())
            sub.append((c, f(*deps)))
        if not sub:
            return terms
        return [z3.substitute(t, *sub) if t is not None else None for t in terms]

    def assert_facts(self, st, bvs, guards, facts):
        """facts[k] was assumed at scratch-pc index n0+k: it depends on the bound variables in scope at that
        point and holds under the membership guards of those generators only"""
        mem = [guards[i] for i in self._comp_mem]
        for k, f in enumerate(facts):
            idx = self._comp_n0 + k
            nb = 0
            for pc_index, nbv in self._comp_pc_marks:
                if idx >= pc_index:
                    nb = nbv
            if nb == 0:
                st.assume(f)
                continue
            trig = [t for t in self._comp_trig[:nb] if t is not None]
            pats = ([z3.MultiPattern(*trig)] if len(trig) > 1 else trig) if len(trig) == nb else []
            st.assume(z3.ForAll(bvs[:nb], z3.Implies(z3.And(*mem[:nb]) if mem[:nb] else z3.BoolVal(True), f),
                                patterns=pats))

    def comp_pats(self):
        ts = [t for t in self._comp_trig if t is not None]
        if len(ts) != len(self._comp_trig) or not ts:
            return []
        return [z3.MultiPattern(*ts)] if len(ts) > 1 else [ts[0]]

    def key_val(self, c, k, s):
        """Val for the key object/value of container c at abstract key k."""
        t = c.t
        if t.kind == 'rdict':
            v = RefV(z3.Select(t.acc('kobj')(self.c_term(c, s)), k), self.ctx.rec_elem_type, False)
            return v
        if t.kind == 'rset':
            return RefV(z3.Select(t.acc('obj')(self.c_term(c, s)), k), self.ctx.rec_elem_type, False)
        return self.wrap(k, t.args[0])

    def comp_eval(self, node_elt, s, frame, st, bvs, guards):
        """evaluate the element expression in the scratch state; exceptions become a pending raise
        guarded by 'some tuple of the domain raises'."""
        tmp = Frame(frame.module, frame.cls, frame.finfo, frame.contract, frame.depth)
        tmp.label = frame.label
        res = list(self.ev(node_elt, s, tmp))
        if len(res) != 1:
            raise VCError('comprehension element forks')
        for o in tmp.raises:
            # the raise path's extra conditions relative to st
            extra = o.st.pc[len(st.pc):]
            cond = z3.Exists(bvs, z3.And(*(guards + extra))) if bvs else z3.And(*(guards + extra))
            self.pend_raise(st, cond, o.exc, frame, o.node)
        return res[0][1]

    def comp_heap_effects(self, s, st, bvs, guards):
        """Objects constructed by the element expression (one per generator tuple): transfer the initialisation
        of their own fields from the scratch state to the real state."""
        a_s = s.heap.get('$alloc')
        a_0 = st.alloc_arr()
        if a_s is None or a_s.eq(a_0):
            return
        # the scratch allocation array is Store(...Store(alloc, o1, True)..., ok, True)
        objs = []
        t = a_s
        while z3.is_store(t):
            objs.append(t.arg(1))
            t = t.arg(0)
        if not t.eq(a_0):
            raise VCError('allocation inside a comprehension could not be summarised')
        start = self._comp_fresh_start
        G = z3.And(*guards) if guards else z3.BoolVal(True)
        GM = z3.And(*[guards[i] for i in self._comp_mem]) if self._comp_mem else z3.BoolVal(True)
        lifted_objs = self.lift_fresh(start, bvs, objs)
        Gl = self.lift_fresh(start, bvs, [G])[0]
        x = z3.Const('x!ca', Ref)
        a_n = fresh('alloc', a_0.sort())
        st.assume(z3.ForAll([x], z3.Implies(z3.Select(a_0, x), z3.Select(a_n, x)), patterns=[z3.Select(a_0, x)]))
        for o in lifted_objs:
            st.assume(z3.ForAll(bvs, z3.Implies(Gl, z3.And(z3.Select(a_n, o), z3.Not(z3.Select(a_0, o)), o != NONE)),
                                patterns=[o]))
            # distinct tuples give distinct objects
            b2 = [z3.Const(b.decl().name() + '!2', b.sort()) for b in bvs]
            o2 = z3.substitute(o, *zip(bvs, b2))
            st.assume(z3.ForAll(bvs + b2, z3.Implies(o == o2, z3.And(*[p == q for p, q in zip(bvs, b2)])),
                                patterns=[z3.MultiPattern(o, o2)]))
        st.heap['$alloc'] = a_n
        for fid, hs in s.heap.items():
            if fid == '$alloc':
                continue
            h0 = st.heap.get(fid)
            if h0 is None:
                h0 = self.ctx.heap0.get(fid)
            if h0 is not None and hs.eq(h0):
                continue
            stores = []
            t = hs
            while z3.is_store(t):
                stores.append((t.arg(1), t.arg(2)))
                t = t.arg(0)
            if h0 is None or not t.eq(h0) or not all(any(o.eq(ob) for ob in objs) for o, v in stores):
                raise VCError('heap effect inside a comprehension on a pre-existing object (field %s)' % fid)
            hn = fresh('Hc_' + fid, hs.sort())
            st.assume(z3.ForAll([x], z3.Implies(z3.Select(a_0, x), z3.Select(hn, x) == z3.Select(h0, x)),
                                patterns=[z3.Select(hn, x)]))
            for o, v in stores:
                lo, lv = self.lift_fresh(start, bvs, [o, v])
                st.assume(z3.ForAll(bvs, z3.Implies(Gl, z3.Select(hn, lo) == lv), patterns=[z3.Select(hn, lo)]))
            st.heap[fid] = hn

    def ev_ListComp(self, node, st, frame):
        bvs, guards, s, n0, listgen = self.comp_domain(node.generators, st, frame)
        elem = self.comp_eval(node.elt, s, frame, st, bvs, guards)
        self.comp_heap_effects(s, st, bvs, guards)
        facts = s.pc[n0:]
        et = elem.t
        if isinstance(elem, RefV) and elem.t.cls == 'object':
            et = ANYREF
        lt = T('list', [et])
        eterm = self.term(elem, s, et)
        lifted = self.lift_fresh(self._comp_fresh_start, bvs, [eterm] + guards + facts)
        eterm, guards, facts = lifted[0], lifted[1:1 + len(guards)], lifted[1 + len(guards):]
        self._comp_trig = self.lift_fresh(self._comp_fresh_start, bvs, self._comp_trig)
        uid = next(_n)
        n = fresh('cn', z3.IntSort())
        arr = fresh('carr', z3.ArraySort(z3.IntSort(), et.sort()))
        j = z3.Int('j!c%d' % uid)
        srcs = [z3.Function('csrc%d_%d' % (uid, i), z3.IntSort(), b.sort()) for i, b in enumerate(bvs)]
        pos = z3.Function('cpos%d' % uid, *[b.sort() for b in bvs], z3.IntSort())
        G = z3.And(*guards) if guards else z3.BoolVal(True)
        F = z3.And(*facts) if facts else z3.BoolVal(True)
        sub = [(b, f(j)) for b, f in zip(bvs, srcs)]
        st.assume(n >= 0)
        if facts:
            self.assert_facts(st, bvs, guards, facts)
        if listgen is not None and len(node.generators) == 1 and not node.generators[0].ifs \
                and isinstance(first_iter_of(self), Cont):
            # a plain map over a list: same length, element by element
            src_list = first_iter_of(self)
            st.assume(n == self.l_len(src_list, st))
            st.assume(z3.ForAll([j], z3.Implies(z3.And(0 <= j, j < n),
                                                z3.Select(arr, j) == z3.substitute(eterm, (bvs[0], j))),
                                patterns=[z3.Select(arr, j), z3.Select(self.l_arr(src_list, st), j)]))
            c = self.new_cont(lt, st, lt.mk(n, arr))
            yield st, c
            return
        st.assume(z3.ForAll([j], z3.Implies(z3.And(0 <= j, j < n),
                                            z3.And(z3.substitute(G, *sub),
                                                   z3.Select(arr, j) == z3.substitute(eterm, *sub),
                                                   pos(*[f(j) for f in srcs]) == j)),
                            patterns=[z3.Select(arr, j)]))
        st.assume(z3.ForAll(bvs, z3.Implies(G,
                                            z3.And(0 <= pos(*bvs), pos(*bvs) < n,
                                                   z3.Select(arr, pos(*bvs)) == eterm,
                                                   *[f(pos(*bvs)) == b for f, b in zip(srcs, bvs)])),
                            patterns=self.comp_pats()))
        if listgen is not None:
            j2 = z3.Int('j2!c%d' % uid)
            st.assume(z3.ForAll([j, j2], z3.Implies(z3.And(0 <= j, j < j2, j2 < n), srcs[0](j) < srcs[0](j2))))
        c = self.new_cont(lt, st, lt.mk(n, arr))
        c.comp = {'srcs': srcs, 'pos': pos, 'bvs': bvs}
        yield st, c

    ev_GeneratorExp = ev_ListComp

    def ev_SetComp(self, node, st, frame):
        bvs, guards, s, n0, listgen = self.comp_domain(node.generators, st, frame)
        elem = self.comp_eval(node.elt, s, frame, st, bvs, guards)
        facts = s.pc[n0:]
        rec = isinstance(elem, RefV) and elem.t.cls in self.ctx.record_classes_all
        t = T('rset') if rec else T('set', [elem.t])
        c = self.new_cont(t, st)
        kt = self.key_term(c, elem, s)
        self._member_axioms(c, t, kt, elem, None, bvs, guards, facts, s, st)
        yield st, c

    def ev_DictComp(self, node, st, frame):
        bvs, guards, s, n0, listgen = self.comp_domain(node.generators, st, frame)
        kv = self.comp_eval(node.key, s, frame, st, bvs, guards)
        vv = self.comp_eval(node.value, s, frame, st, bvs, guards)
        facts = s.pc[n0:]
        rec = isinstance(kv, RefV) and kv.t.cls in self.ctx.record_classes_all
        t = T('rdict', [vv.t]) if rec else T('dict', [kv.t, vv.t])
        c = self.new_cont(t, st)
        kt = self.key_term(c, kv, s)
        self._member_axioms(c, t, kt, kv, vv, bvs, guards, facts, s, st)
        yield st, c

    def _member_axioms(self, c, t, kt, kval, vval, bvs, guards, facts, s, st):
        uid = next(_n)
        vt0 = self.term(vval, s, t.args[-1]) if vval is not None else None
        kv0 = kval.term if isinstance(kval, RefV) else None
        lifted = self.lift_fresh(self._comp_fresh_start, bvs, [kt, vt0, kv0] + guards + facts)
        kt, vt0, kv0 = lifted[0], lifted[1], lifted[2]
        guards, facts = lifted[3:3 + len(guards)], lifted[3 + len(guards):]
        self._comp_trig = self.lift_fresh(self._comp_fresh_start, bvs, self._comp_trig)
        ks = kt.sort()
        has = fresh('chas', z3.ArraySort(ks, z3.BoolSort()))
        G = z3.And(*guards) if guards else z3.BoolVal(True)
        F = z3.And(*facts) if facts else z3.BoolVal(True)
        wit = [z3.Function('cwit%d_%d' % (uid, i), ks, b.sort()) for i, b in enumerate(bvs)]
        k = z3.Const('k!c%d' % uid, ks)
        sub = [(b, f(k)) for b, f in zip(bvs, wit)]
        parts = [has]
        if facts:
            self.assert_facts(st, bvs, guards, facts)
        st.assume(z3.ForAll(bvs, z3.Implies(G, z3.Select(has, kt)), patterns=self.comp_pats()))
        st.assume(z3.ForAll([k], z3.Implies(z3.Select(has, k),
                                            z3.And(z3.substitute(G, *sub), z3.substitute(kt, *sub) == k)),
                            patterns=[z3.Select(has, k)]))
        if t.kind in ('rset', 'rdict'):
            obj = fresh('cobj', z3.ArraySort(ks, Ref))
            # the stored key object is the object of SOME generating tuple with that identity (first wins
            # in CPython; the order is left unspecified)
            st.assume(z3.ForAll([k], z3.Implies(z3.Select(has, k), z3.Select(obj, k) == z3.substitute(kv0, *sub)),
                                patterns=[z3.Select(obj, k)]))
            parts.append(obj)
        if vval is not None:
            vt = vt0
            val = fresh('cval', z3.ArraySort(ks, vt.sort()))
            st.assume(z3.ForAll([k], z3.Implies(z3.Select(has, k), z3.Select(val, k) == z3.substitute(vt, *sub)),
                                patterns=[z3.Select(val, k)]))
            parts.append(val)
        self.write_cont(c, st, t.mk(*parts))
