"""Executor part 4: calls (contracts, inlining, dispatch, builtins, container/str methods, spec builtins)."""
import ast
import z3

from .core import (Val, Sc, RefV, NoneV, TupleV, Cont, PyConst, FuncV, ClassV, ModuleV, CellLoc, FieldLoc,
                   ItemLoc, ElemLoc, TermLoc, State, Outcome, VCError, fresh)
from .types import (T, INT, REAL, BOOL, STR, BYTES, OPTINT, IDENT, ANYREF, Ref, Str, Bytes, NONE, Ident, RData,
                    ident_of, cls_of, lower, slen, ulen, blen, bat, parse_type, ref)
from .execbase import Frame
from .execcont import card_fn

MAX_INLINE_DEPTH = 6
LOG_NAMES = {'log', 'QuietLogger'}


class CallMixin:

    def ev_Call(self, node, st, frame):
        # logging is a no-op (trusted T5): arguments are not even evaluated (they are pure reads)
        f = node.func
        if isinstance(f, ast.Attribute) and isinstance(f.value, ast.Name) and f.value.id in LOG_NAMES:
            yield st, NoneV()
            return
        if isinstance(f, ast.Attribute) and f.attr == '_log_exception_debug':
            yield st, NoneV()
            return
        st = self.at_call_hooks(node, st, frame)
        for st1, fv in self.ev(f, st, frame):
            # spec builtins take unevaluated args (lambdas, old)
            if isinstance(fv, FuncV) and fv.kind == 'specbuiltin':
                yield st1, self.spec_builtin(fv.name, node, st1, frame)
                continue
            args = []
            st2 = st1
            star_done = False
            plain = []
            for a in node.args:
                plain.append(a)
            # evaluate positional (handle *tuple of constants)
            def eval_args(nodes, s):
                if not nodes:
                    yield s, []
                    return
                n0 = nodes[0]
                if isinstance(n0, ast.Starred):
                    for s1, v in self.ev(n0.value, s, frame):
                        if isinstance(v, PyConst) and isinstance(v.v, tuple):
                            items = [PyConst(x) for x in v.v]
                        elif isinstance(v, TupleV):
                            items = v.items
                        else:
                            raise VCError('*args of non-tuple')
                        for s2, rest in eval_args(nodes[1:], s1):
                            yield s2, items + rest
                else:
                    for s1, v in self.ev(n0, s, frame):
                        for s2, rest in eval_args(nodes[1:], s1):
                            yield s2, [v] + rest
            for st2, args in eval_args(plain, st1):
                kwn = [k for k in node.keywords]
                for st3, kvals in self.ev_list([k.value for k in kwn], st2, frame):
                    kwargs = {k.arg: v for k, v in zip(kwn, kvals)}
                    self.at_call_arg_hooks(node, st3, frame, args, kwargs)
                    yield from self.call(fv, args, kwargs, st3, frame, node)

    def at_call_arg_hooks(self, node, st, frame, args, kwargs):
        """at_calls entries keyed '<callee>@args': assertions about the ACTUAL arguments of a call site, evaluated in the
        caller's state with _nargs, _arg0.._argN (positional) and _kw_<name> (keyword) bound to the evaluated arguments."""
        if st.spec or not frame.verifying or frame.contract is None:
            return
        view = getattr(frame, 'view', None)
        ac = view.at_calls if view is not None else frame.contract.at_calls
        if not ac:
            return
        f = node.func
        text = ast.unparse(f)
        specs = ac.get(text + '@args')
        if specs is None and isinstance(f, ast.Attribute):
            specs = ac.get(f.attr + '@args')
        if specs is None and isinstance(f, ast.Name):
            specs = ac.get(f.id + '@args')
        if not specs:
            return
        name = f.attr if isinstance(f, ast.Attribute) else text
        sp = st.fork()
        sp.spec = True
        sp.pc = st.pc
        sp.locals = dict(st.locals)
        sp.locals['_nargs'] = PyConst(len(args))
        for i, a in enumerate(args):
            sp.locals['_arg%d' % i] = a
        for i in range(len(args), 8):
            sp.locals['_arg%d' % i] = NoneV()      # not passed positionally (test _nargs / _kw_<name> first)
        for k, v in kwargs.items():
            sp.locals['_kw_' + k] = v
        for i, e in enumerate(specs):
            self.oblige(st, self.spec_bool(e, sp, frame), 'at-call-args[%s]#%d' % (name, i), frame, node, e)

    def at_call_hooks(self, node, st, frame):
        """at_calls of the contract under verification: assertions (and ghost statements) attached to call sites,
        keyed by the source text of the callee expression ('self.async_updates', 'packets_data.append') or by its
        last attribute name."""
        if st.spec or not frame.verifying or frame.contract is None:
            return st
        view = getattr(frame, 'view', None)
        ac = view.at_calls if view is not None else frame.contract.at_calls
        if not ac:
            return st
        f = node.func
        text = ast.unparse(f)
        specs = ac.get(text)
        if specs is None and isinstance(f, ast.Attribute):
            specs = ac.get(f.attr)
        if specs is None and isinstance(f, ast.Name):
            specs = ac.get(f.id)
        if not specs:
            return st
        name = f.attr if isinstance(f, ast.Attribute) else text
        for i, e in enumerate(specs):
            if e.startswith('ghost:'):
                outs = self.exec_block(ast.parse(e[6:].strip()).body, st, frame)
                if len(outs) != 1 or outs[0].kind != 'normal':
                    raise VCError('ghost statement must not fork: %s' % e)
                st = outs[0].st
                continue
            sp = st.fork()
            sp.spec = True
            sp.pc = st.pc
            self.oblige(st, self.spec_bool(e, sp, frame), 'at-call[%s]#%d' % (name, i), frame, node, e)
        return st

    # ---- dispatch -----------------------------------------------------------------------------
    def call(self, fv, args, kwargs, st, frame, node):
        if isinstance(fv, ClassV):
            yield from self.construct(fv.name, args, kwargs, st, frame, node)
            return
        if not isinstance(fv, FuncV):
            raise VCError('call of non-callable %r (line %s)' % (fv, getattr(node, 'lineno', '?')))
        k = fv.kind
        if k == 'builtin':
            m = getattr(self, 'bi_' + fv.name, None)
            if m is None:
                raise VCError('builtin %s not modelled' % fv.name)
            yield from m(args, kwargs, st, frame, node)
        elif k == 'contmethod':
            m = getattr(self, 'cm_' + fv.name, None)
            if m is None:
                raise VCError('container method %s not modelled (line %s)' % (fv.name, getattr(node, 'lineno', '?')))
            yield from m(fv.recv, args, kwargs, st, frame, node)
        elif k == 'strmethod':
            m = getattr(self, 'sm_' + fv.name, None)
            if m is None:
                raise VCError('str method %s not modelled' % fv.name)
            yield from m(fv.recv, args, kwargs, st, frame, node)
        elif k == 'method':
            yield from self.call_method(fv.recv, fv.name, args, kwargs, st, frame, node)
        elif k == 'function':
            f = self.ctx.repo.func(fv.module, fv.qualname)
            yield from self.call_func(f, args, kwargs, st, frame, node)
        elif k in ('stub', 'stubmethod'):
            if k == 'stubmethod':
                yield from fv.fn(self, fv.recv, args, kwargs, st, frame, node)
            else:
                yield from fv.fn(self, args, kwargs, st, frame, node)
        elif k == 'spec':
            yield st, self.call_spec(fv.name, args, st, frame)
        elif k == 'lambda':
            yield st, self.call_lambda(fv, args, st)
        elif k == 'supermethod':
            f = fv.finfo
            yield from self.call_func(f, [fv.recv] + list(args), kwargs, st, frame, node, static_cls=fv.cls)
        elif k == 'external':
            raise VCError('call of unmodelled external %s (line %s)' % (fv.name, getattr(node, 'lineno', '?')))
        else:
            raise VCError('call kind %s' % k)

    def call_method(self, recv, name, args, kwargs, st, frame, node):
        ctx = self.ctx
        cls = recv.t.cls
        # candidate implementations: the static class's resolution plus overrides in subclasses
        impls = {}
        f0 = ctx.repo.find_method(cls, name)
        subs = [c for c in ctx.shapes.subclasses(cls) if c != cls]
        overriding = []
        for c in subs:
            mn, cd = ctx.repo.class_def(c)
            if cd is not None and (c + '.' + name) in ctx.repo.modules[mn].funcs:
                overriding.append(c)
        contract = ctx.contracts.get((f0.module, f0.qualname)) if f0 else None
        if not overriding or (contract is not None and getattr(contract, 'covers_overrides', False)):
            if f0 is None:
                raise VCError('no method %s.%s' % (cls, name))
            is_static = any(isinstance(d, ast.Name) and d.id == 'staticmethod' for d in f0.node.decorator_list)
            yield from self.call_func(f0, ([] if is_static else [recv]) + list(args), kwargs, st, frame, node)
            return
        # dynamic dispatch: split on the exact class
        groups = {}
        for c in ctx.shapes.subclasses(cls):
            mn, cd = ctx.repo.class_def(c)
            if cd is None:
                continue
            f = ctx.repo.find_method(c, name)
            if f is None:
                continue
            groups.setdefault((f.module, f.qualname), (f, []))[1].append(c)
        for (f, classes) in groups.values():
            s = st.fork()
            s.assume(z3.Or(*[ctx.shapes.exact_class_term(recv.term, c) for c in classes]))
            # narrow the static type when a single defining class
            ncls = f.cls if f.cls in ctx.shapes.mro(classes[0]) and len(classes) >= 1 else cls
            r2 = RefV(recv.term, ref(self.common_class(classes, cls)), False)
            yield from self.call_func(f, [r2] + list(args), kwargs, s, frame, node)

    def common_class(self, classes, default):
        if len(classes) == 1:
            return classes[0]
        mros = [self.ctx.shapes.mro(c) for c in classes]
        for c in mros[0]:
            if all(c in m for m in mros):
                return c
        return default

    # ---- repo functions -----------------------------------------------------------------------
    def bind_args(self, f, args, kwargs, st, frame):
        """Bind call arguments to parameter names, evaluating defaults."""
        a = f.node.args
        names = [x.arg for x in a.posonlyargs + a.args]
        bound = {}
        if len(args) > len(names):
            if a.vararg is None:
                raise VCError('too many args for %s' % f.qualname)
        for n, v in zip(names, args):
            bound[n] = v
        for k, v in kwargs.items():
            bound[k] = v
        defaults = a.defaults
        dnames = names[len(names) - len(defaults):]
        fr = Frame(f.module, f.cls, f, None)
        for n, d in zip(dnames, defaults):
            if n not in bound:
                bound[n] = self.ev1(d, st, fr)
        for x, d in zip(a.kwonlyargs, a.kw_defaults):
            if x.arg not in bound and d is not None:
                bound[x.arg] = self.ev1(d, st, fr)
        for n in names:
            if n not in bound:
                raise VCError('missing argument %s for %s' % (n, f.qualname))
        return bound

    def call_func(self, f, args, kwargs, st, frame, node, static_cls=None):
        ctx = self.ctx
        key = (f.module, f.qualname)
        c = ctx.contracts.get(key)
        being_verified = frame.verifying and frame.finfo is f
        if c is not None and not (frame.contract is not None and key in
                                  {(m, q) for (m, q) in frame.contract.inline_callees}):
            yield from self.call_by_contract(f, c, args, kwargs, st, frame, node)
            return
        yield from self.inline(f, args, kwargs, st, frame, node)

    def inline(self, f, args, kwargs, st, frame, node):
        if frame.depth >= MAX_INLINE_DEPTH:
            raise VCError('inline depth exceeded at %s' % f.qualname)
        if isinstance(f.node, ast.AsyncFunctionDef) and not getattr(frame, 'allow_async_inline', False):
            raise VCError('async callee %s needs a contract' % f.qualname)
        for d in f.node.decorator_list:
            dn = d.id if isinstance(d, ast.Name) else (d.attr if isinstance(d, ast.Attribute) else None)
            if dn not in ('property', 'staticmethod', 'classmethod', 'setter', 'lru_cache'):
                if not (isinstance(d, ast.Call)):
                    raise VCError('decorator on inlined %s' % f.qualname)
        is_static = any(isinstance(d, ast.Name) and d.id == 'staticmethod' for d in f.node.decorator_list)
        bound = self.bind_args(f, args, kwargs, st, frame)
        sub = Frame(f.module, f.cls, f, None, frame.depth + 1)
        sub.caller = frame
        saved = st.locals
        s = st
        s.locals = self.retype_params(f, bound, s)
        self.ctx.inlined.add((f.module, f.qualname))
        outs = self.exec_block(f.node.body, s, sub)
        for o in outs:
            o.st.locals = dict(saved)
            if o.kind == 'raise':
                frame.raises.append(o)
            elif o.kind == 'return':
                yield o.st, o.val
            elif o.kind == 'normal':
                yield o.st, NoneV()
            else:
                raise VCError('break/continue escaping function')

    def retype_params(self, f, bound, st):
        """Narrow static types of arguments to the callee's annotations when they are classes we know
        (so that attribute access resolves in the callee's vocabulary)."""
        out = {}
        ann = {a.arg: a.annotation for a in f.node.args.posonlyargs + f.node.args.args + f.node.args.kwonlyargs}
        for n, v in bound.items():
            if n == 'self' and isinstance(v, RefV) and f.cls and v.t.cls not in self.ctx.shapes.subclasses(f.cls):
                v = RefV(v.term, ref(f.cls), v.nullable)
            out[n] = v
        return out

    def call_by_contract(self, f, c, args, kwargs, st, frame, node):
        ctx = self.ctx
        bound = self.bind_args(f, args, kwargs, st, frame)
        # evaluate the contract in a spec state whose locals are the parameters
        cast = self.cast_params(c, bound, st)
        pre = st.fork()
        pre.spec = True
        pre.locals = cast
        pre.old = None
        sub = Frame(f.module, f.cls, f, c)
        label = '%s.%s' % (f.module.replace('zeroconf.', ''), f.qualname)
        for i, r in enumerate(c.requires):
            g = self.spec_bool(r, pre, sub)
            self.oblige(st, g, 'pre[%s#%d]' % (label, i), frame, node, 'precondition of %s: %s' % (f.qualname, r))
        ctx.used_contracts.add(c.key)
        # raise outcomes
        for exc, cond in c.raises.items():
            g = self.spec_bool(cond, pre, sub)
            if z3.is_false(g):
                continue
            rs = st.fork()
            rs.assume(g)
            self.havoc_modifies(c, pre, rs, sub)
            if exc in c.ensures_raise:
                post = rs.fork()
                post.spec = True
                post.locals = dict(pre.locals)
                post.old = pre
                for e in c.ensures_raise[exc]:
                    rs.assume(self.spec_bool(e, post, sub))
            frame.raises.append(Outcome('raise', rs, exc=exc, node=node))
            if exc in c.raises_exact:
                st.assume(z3.Not(g))
        # normal outcome
        self.havoc_modifies(c, pre, st, sub)
        if any('allocated(' in e or 'fresh_obj(' in e for e in c.all_ensures()):
            # the callee may allocate: the allocation set grows monotonically (what it says about allocated()/fresh_obj()
            # in its postcondition refers to this grown set, old(allocated()) to the set before the call)
            a0 = st.alloc_arr()
            a1 = fresh('alloc', z3.ArraySort(Ref, z3.BoolSort()))
            x = z3.Const('x!al', Ref)
            st.assume(z3.ForAll([x], z3.Implies(z3.Select(a0, x), z3.Select(a1, x))))
            st.heap['$alloc'] = a1
        res = None
        post = st.fork()
        post.spec = True
        post.locals = dict(pre.locals)
        post.old = pre
        if c.returns and c.returns != 'none':
            rt = parse_type(c.returns)
            nullable = c.returns.strip().startswith('opt[')
            if c.result_alias:
                res = self.ev1(ast.parse(c.result_alias, mode='eval').body, post, sub)
            else:
                res = self.fresh_val('ret_' + f.node.name, rt, st, nullable=nullable)
                if isinstance(res, RefV):
                    self.assume_type(res, st)
            post.locals['result'] = res
            post.cells = dict(st.cells)
            post.pc = list(st.pc)
        else:
            res = NoneV()
        for gname, gts in c.ghost_out.items():
            post.locals[gname] = self.fresh_val('go_' + gname, parse_type(gts), st)
        for cid, tv in st.cells.items():
            if cid not in post.cells:
                post.cells[cid] = tv
        for e in c.all_ensures():
            st.assume(self.spec_bool(e, post, sub))
        yield st, res

    def cast_params(self, c, bound, st):
        out = {}
        for n, v in bound.items():
            ts = c.params.get(n)
            if ts and isinstance(v, RefV):
                t = parse_type(ts)
                if t.kind == 'ref' and t.cls != v.t.cls and t.cls in self.ctx.shapes.subclasses(v.t.cls) + self.ctx.shapes.mro(v.t.cls):
                    pass
                if t.kind == 'ref':
                    # keep the more specific of the two static types
                    if v.t.cls == 'object' or t.cls in self.ctx.shapes.subclasses(v.t.cls):
                        v = RefV(v.term, t, v.nullable)
            if ts and isinstance(v, Cont) and v.t.kind in ('set', 'rset', 'dict', 'rdict'):
                t = parse_type(ts)
                if t.kind == 'list':
                    # the callee iterates an Iterable: any enumeration of the set is a possible order
                    v = self.to_list(v, st, Frame('zeroconf', None, None, None), None)
            if ts and isinstance(v, NoneV):
                t = parse_type(ts)
                if t.kind == 'ref':
                    v = RefV(NONE, t, True)
                elif t.kind == 'optint':
                    v = Sc(self.term(v, st, OPTINT), OPTINT)
            if ts and isinstance(v, (PyConst, Sc)):
                t = parse_type(ts)
                if t.kind in ('real', 'int', 'bool', 'optint') and v.t.kind != t.kind:
                    v = Sc(self.term(v, st, t), t)
                elif isinstance(v, PyConst) and t.kind in ('str', 'bytes', 'int', 'real', 'bool'):
                    v = Sc(self.term(v, st, t), t)
            out[n] = v
        return out

    def havoc_modifies(self, c, pre, st, sub):
        """havoc the locations in c.modifies (evaluated in the pre-state)."""
        for m in c.modifies:
            self.havoc_loc(m, pre, st, sub)

    def havoc_loc(self, m, pre, st, sub):
        m = m.strip()
        if m == '*':
            # arbitrary effect on every heap field known so far (weak contract of an abstracted callee)
            for fid in list(st.heap.keys()) + [f for f in self.ctx.heap0 if f not in st.heap]:
                if fid.startswith('$'):
                    continue
                old = st.heap.get(fid)
                if old is None:
                    old = self.ctx.heap0[fid]
                st.heap[fid] = fresh('Hany_' + fid, old.sort())
                self.ctx.note_heap_array(st.heap[fid], old.sort().range())
            return
        if m.endswith('[*]'):
            # whole heap array  'Class.attr[*]'
            cls, attr = m[:-3].split('.')
            fs = self.ctx.shapes.field(cls, attr)
            st.heap[fs.fid] = fresh('Hv_' + fs.fid, z3.ArraySort(Ref, fs.t.sort()))
            self.ctx.note_heap_array(st.heap[fs.fid], fs.t.sort())
            return
        node = ast.parse(m, mode='eval').body
        if isinstance(node, ast.Name):
            v = self.ev1(node, pre, sub)
            if isinstance(v, Cont):
                v.loc.write(st, fresh('hv_' + node.id, v.t.sort()))
                if v.t.kind == 'list':
                    st.assume(v.t.acc('len')(v.loc.read(st)) >= 0)
                return
            raise VCError('modifies %s: not a container' % m)
        if isinstance(node, ast.Attribute):
            obj = self.ev1(node.value, pre, sub)
            if isinstance(obj, RefV):
                fs = self.ctx.shapes.field(obj.t.cls, node.attr)
                if fs is None or fs.kind != 'heap':
                    raise VCError('modifies %s: not a heap field' % m)
                arr = st.heap_arr(fs.fid, fs.t.sort())
                nv = fresh('hv_' + node.attr, fs.t.sort())
                st.heap[fs.fid] = z3.Store(arr, obj.term, nv)
                if fs.t.is_container and fs.nullable:
                    sa = st.heap_arr(fs.fid + '$some', z3.BoolSort())
                    st.heap[fs.fid + '$some'] = z3.Store(sa, obj.term, fresh('hv_some', z3.BoolSort()))
                if fs.t.kind == 'list':
                    st.assume(fs.t.acc('len')(nv) >= 0)
                return
        if isinstance(node, ast.Subscript):
            v = self.ev1(node, pre, sub)
            if isinstance(v, Cont):
                v.loc.write(st, fresh('hv_item', v.t.sort()))
                return
        raise VCError('modifies clause not understood: %s' % m)

    def spec_bool(self, text, st, frame):
        node = self.parse_spec(text)
        try:
            v = self.ev1(node, st, frame)
        except VCError:
            raise
        except Exception as e:
            raise VCError('while evaluating spec %r in %s: %s: %s' % (text[:200], frame.label, type(e).__name__, e))
        return self.truth(v, st)

    def parse_spec(self, text):
        c = self._spec_cache.get(text)
        if c is None:
            c = ast.parse(text.strip(), mode='eval').body
            self._spec_cache[text] = c
        return c

    # ---- constructors -------------------------------------------------------------------------
    def construct(self, clsname, args, kwargs, st, frame, node):
        ctx = self.ctx
        k = 'ctor:' + clsname
        if k in ctx.stubs:
            yield from ctx.stubs[k](self, args, kwargs, st, frame, node)
            return
        if clsname in ctx.exc_parent:
            yield st, RefV(fresh('exc', Ref), ref('object'))
            return
        mn, cd = ctx.repo.class_def(clsname)
        if cd is None:
            raise VCError('constructor of unknown class %s' % clsname)
        o = fresh('new_' + clsname, Ref)
        st.assume(o != NONE)
        st.assume(ctx.shapes.exact_class_term(o, clsname))
        st.allocate(o)
        obj = RefV(o, ref(clsname), False)
        f = ctx.repo.find_method(clsname, '__init__')
        if f is None:
            yield st, obj
            return
        for st1, _ in self.call_func(f, [obj] + list(args), kwargs, st, frame, node):
            yield st1, obj

    def known_refs(self, st):
        return []

    # ---- super() ------------------------------------------------------------------------------
    def bi_super(self, args, kwargs, st, frame, node):
        fr = frame
        cls = fr.cls
        selfv = st.locals.get('self')
        yield st, FuncV('superobj', cls=cls, recv=selfv)

    # ---- spec functions -----------------------------------------------------------------------
    def call_spec(self, name, args, st, frame):
        params, ret, body = self.ctx.spec_funcs[name]
        if callable(body):
            return body(self, st, *args)
        s = st.fork()
        s.spec = True
        s.pc = st.pc
        s.locals = {}
        for (pn, pt), v in zip(params, args):
            s.locals[pn] = v
        return self.ev1(self.parse_spec(body), s, frame)

    def call_lambda(self, fv, args, st):
        s = st.fork()
        s.locals = dict(fv.env)
        s.bound = dict(fv.bound)
        s.pc = st.pc
        for a, v in zip(fv.node.args.args, args):
            s.locals[a.arg] = v
        return self.ev1(fv.node.body, s, fv.frame)
