"""Executor part 6: statements, loops, function verification."""
import ast
import z3

from .core import (Val, Sc, RefV, NoneV, TupleV, Cont, PyConst, FuncV, ClassV, ModuleV, CellLoc, FieldLoc,
                   ItemLoc, ElemLoc, TermLoc, State, Outcome, Obligation, VCError, fresh)
from .types import (T, INT, REAL, BOOL, STR, BYTES, OPTINT, IDENT, ANYREF, Ref, Str, Bytes, NONE, Ident,
                    ident_of, cls_of, lower, slen, ulen, blen, bat, parse_type, ref)
from .execbase import Frame

MUTATORS = {'append', 'extend', 'insert', 'pop', 'popleft', 'remove', 'discard', 'add', 'update', 'clear',
            'setdefault', 'sort', 'reverse'}
NONMUT_CALLS = {'len', 'set', 'list', 'sorted', 'reversed', 'enumerate', 'isinstance', 'bool', 'int', 'tuple',
                'dict', 'min', 'max', 'hash', 'range', 'cast', 'frozenset', 'str', 'bytes'}


class _NoMerge(Exception):
    pass


def loops_in_order(fnode):
    out = []

    def visit(n):
        for ch in ast.iter_child_nodes(n):
            if isinstance(ch, (ast.FunctionDef, ast.AsyncFunctionDef, ast.Lambda, ast.ClassDef)):
                continue
            if isinstance(ch, (ast.For, ast.While, ast.AsyncFor)):
                out.append(ch)
            visit(ch)
    visit(fnode)
    out.sort(key=lambda n: (n.lineno, n.col_offset))
    return {id(n): i for i, n in enumerate(out)}


def is_noop_stmt(s):
    """pure logging statements"""
    if isinstance(s, ast.Expr) and isinstance(s.value, ast.Call):
        f = s.value.func
        if isinstance(f, ast.Attribute) and isinstance(f.value, ast.Name) and f.value.id in ('log', 'QuietLogger'):
            return True
        if isinstance(f, ast.Attribute) and f.attr == '_log_exception_debug':
            return True
    if isinstance(s, ast.Pass):
        return True
    if isinstance(s, ast.Expr) and isinstance(s.value, ast.Constant):
        return True
    return False


class StmtMixin:

    def exec_block(self, stmts, st, frame):
        """-> list of Outcome"""
        outs = []
        live = [st]
        for s in stmts:
            nxt = []
            for cur in live:
                for o in self.exec_stmt(s, cur, frame):
                    if o.kind == 'normal':
                        nxt.append(o.st)
                    else:
                        outs.append(o)
            live = nxt
            if not live:
                break
            if len(live) > 1 and self.ctx.merge_paths and self.may_merge(frame):
                live = self.merge_states(live)
            if len(live) > self.ctx.max_paths:
                raise VCError('path explosion (%d live paths) in %s line %s' % (len(live), frame.label, s.lineno))
        outs.extend(Outcome('normal', s_) for s_ in live)
        return outs

    # ---- state merging (join after each statement) -----------------------------------------------
    def may_merge(self, frame):
        fr = frame
        while getattr(fr, 'contract', None) is None and getattr(fr, 'caller', None) is not None:
            fr = fr.caller
        mode = fr.contract.merge if getattr(fr, 'contract', None) is not None else 'all'
        if self.ctx.no_merge_in_loops and mode == 'all':
            mode = 'outside-loops'
        if mode == 'none':
            return False
        if mode == 'outside-loops' and getattr(fr, 'in_loop', 0):
            return False
        return True

    def merge_states(self, states):
        """Join path states that continue at the same program point into one state with a path selector.
        Returns [merged] or the input list when some value cannot be merged."""
        if len(states) < 2:
            return states
        try:
            return [self._merge(states)]
        except _NoMerge:
            return states

    def _merge(self, states):
        s0 = states[0]
        # common path-condition prefix
        p0 = 0
        m = min(len(s.pc) for s in states)
        while p0 < m and all(s.pc[p0].eq(s0.pc[p0]) for s in states[1:]):
            p0 += 1
        sel = fresh('path', z3.IntSort())
        out = s0.fork()
        out.pc = list(s0.pc[:p0])
        extras = [list(s.pc[p0:]) for s in states]

        def ite(terms):
            # a named merged value, equal to the path's value under the path selector (equalities between
            # constants keep E-matching effective; nested ite terms do not)
            m = fresh('mrg', terms[0].sort())
            for i, t in enumerate(terms):
                extras[i].append(m == t)
            return m
        def heap_ite(terms):
            # heap arrays: when every path's value is the common base with stores at the same single object,
            # merge the stored VALUE (named) instead of the whole array
            base = None
            objs = []
            vals = []
            ok = True
            for t in terms:
                if z3.is_store(t) and not z3.is_store(t.arg(0)):
                    b, o, v = t.arg(0), t.arg(1), t.arg(2)
                else:
                    b, o, v = t, None, None
                if base is None:
                    base = b
                elif not base.eq(b):
                    ok = False
                    break
                objs.append(o)
                vals.append(v)
            if ok:
                os_ = [o for o in objs if o is not None]
                if os_ and all(o.eq(os_[0]) for o in os_[1:]):
                    o = os_[0]
                    vs = [v if v is not None else z3.Select(base, o) for v in vals]
                    return z3.Store(base, o, ite(vs))
            r = terms[-1]
            for i in range(len(terms) - 2, -1, -1):
                r = z3.If(sel == i, terms[i], r)
            return r
        # heap
        fids = set()
        for s in states:
            fids |= set(s.heap)
        for fid in fids:
            ts = []
            for s in states:
                t = s.heap.get(fid)
                if t is None:
                    t = self.ctx.heap0.get(fid) if fid != '$alloc' else self.ctx.alive0
                    if t is None:
                        raise _NoMerge()
                ts.append(t)
            if fid == '$alloc':
                # the allocation set is only ever read through select: a named merged array keeps the monotonicity
                # chain instantiable (nested ite arrays do not E-match)
                out.heap[fid] = ts[0] if all(t.eq(ts[0]) for t in ts[1:]) else ite(ts)
                continue
            out.heap[fid] = ts[0] if all(t.eq(ts[0]) for t in ts[1:]) else heap_ite(ts)
        # cells
        cids = set()
        for s in states:
            cids |= set(s.cells)
        for cid in cids:
            ts = [s.cells.get(cid) for s in states]
            present = [t for t in ts if t is not None]
            if len(set(t.sort().name() for t in present)) > 1:
                raise _NoMerge()
            if len(present) < len(ts):
                # the cell exists only on some paths (a container created inside a branch): keep its value
                out.cells[cid] = present[0] if all(t.eq(present[0]) for t in present[1:]) else \
                    ite([t if t is not None else present[0] for t in ts])
            else:
                out.cells[cid] = ts[0] if all(t.eq(ts[0]) for t in ts[1:]) else ite(ts)
        # locals
        names = set()
        for s in states:
            names |= set(s.locals)
        out.locals = {}
        for n in names:
            vs = [s.locals.get(n) for s in states]
            if any(v is None for v in vs):
                # defined on some paths only: drop (a use would be an UnboundLocalError on the other path)
                if n.startswith('__'):
                    continue
                continue
            out.locals[n] = self._merge_vals(vs, ite, out)
        # (sel=0 and F0) or (sel=1 and F1) ...  ==  sel in range, and each fact guarded by its selector: keeps every
        # fact a separate hypothesis (relevance slicing, E-matching)
        out.pc.append(z3.And(sel >= 0, sel < len(states)))
        for i, ex in enumerate(extras):
            for fct in ex:
                out.pc.append(z3.Implies(sel == i, fct))
        return out

    def _merge_vals(self, vs, ite, out):
        v0 = vs[0]
        if all(v is v0 for v in vs[1:]):
            return v0
        if all(isinstance(v, PyConst) for v in vs) and all(v.v == v0.v and type(v.v) is type(v0.v) for v in vs):
            return v0
        if all(isinstance(v, NoneV) for v in vs):
            return v0
        if all(isinstance(v, (RefV, NoneV)) for v in vs):
            rv = [v for v in vs if isinstance(v, RefV)]
            t = rv[0].t
            for v in rv[1:]:
                if v.t != t:
                    t = ANYREF if v.t.cls not in self.ctx.shapes.mro(t.cls) and t.cls not in self.ctx.shapes.mro(v.t.cls) \
                        else (t if t.cls in self.ctx.shapes.mro(v.t.cls) else v.t)
            terms = [v.term if isinstance(v, RefV) else NONE for v in vs]
            if all(x.eq(terms[0]) for x in terms[1:]):
                return RefV(terms[0], t, any(isinstance(v, NoneV) or v.nullable for v in vs))
            return RefV(ite(terms), t, any(isinstance(v, NoneV) or v.nullable for v in vs))
        if all(isinstance(v, Cont) for v in vs):
            k0 = v0.loc.key()
            if all(v.loc.key() == k0 and v.t == v0.t for v in vs[1:]):
                return v0
            if all(v.t == v0.t for v in vs):
                terms = [v.loc.read(out) if not isinstance(v.loc, CellLoc) else out.cells[v.loc.cid] for v in vs]
                # different containers on different paths: a merged read-only VALUE would lose aliasing
                raise _NoMerge()
            raise _NoMerge()
        if all(isinstance(v, (Sc, PyConst)) for v in vs):
            kinds = set(v.t.kind for v in vs)
            if len(kinds) == 1:
                t = v0.t
            elif kinds <= {'int', 'real', 'bool'}:
                t = REAL if 'real' in kinds else INT
            elif kinds <= {'optint', 'int'}:
                t = OPTINT
            else:
                raise _NoMerge()
            terms = [self.term(v, out, t) for v in vs]
            if all(x.eq(terms[0]) for x in terms[1:]):
                return Sc(terms[0], t)
            return Sc(ite(terms), t)
        if all(isinstance(v, TupleV) for v in vs) and len(set(len(v.items) for v in vs)) == 1:
            return TupleV([self._merge_vals([v.items[i] for v in vs], ite, out) for i in range(len(v0.items))])
        if all(isinstance(v, (FuncV, ClassV)) for v in vs):
            raise _NoMerge()
        if any(isinstance(v, NoneV) for v in vs) and all(isinstance(v, (NoneV, Sc)) and (isinstance(v, NoneV) or v.t.kind in ('int', 'optint')) for v in vs):
            terms = [self.term(v, out, OPTINT) for v in vs]
            return Sc(ite(terms), OPTINT)
        raise _NoMerge()

    def exec_stmt(self, node, st, frame):
        m = getattr(self, 'st_' + type(node).__name__, None)
        if m is None:
            raise VCError('unsupported statement %s at line %s' % (type(node).__name__, node.lineno))
        res = list(m(node, st, frame))
        if frame.raises:
            res.extend(frame.raises)
            frame.raises = []
        return res

    # ---- simple statements ----------------------------------------------------------------
    def st_Pass(self, node, st, frame):
        yield Outcome('normal', st)

    def st_Global(self, node, st, frame):
        yield Outcome('normal', st)

    st_Nonlocal = st_Global
    st_Import = st_Global
    st_ImportFrom = st_Global

    def st_Expr(self, node, st, frame):
        if is_noop_stmt(node):
            yield Outcome('normal', st)
            return
        for st1, v in self.ev(node.value, st, frame):
            yield Outcome('normal', st1)

    def st_Return(self, node, st, frame):
        if node.value is None:
            yield Outcome('return', st, NoneV())
            return
        for st1, v in self.ev(node.value, st, frame):
            yield Outcome('return', st1, v)

    def st_Break(self, node, st, frame):
        yield Outcome('break', st)

    def st_Continue(self, node, st, frame):
        yield Outcome('continue', st)

    def st_Raise(self, node, st, frame):
        if node.exc is None:
            exc = st.locals.get('__current_exc')
            yield Outcome('raise', st, exc=exc.v if exc else 'Exception', node=node)
            return
        e = node.exc
        name = None
        if isinstance(e, ast.Call):
            e = e.func
        if isinstance(e, ast.Name):
            name = e.id
        elif isinstance(e, ast.Attribute):
            name = e.attr
        if name is None:
            raise VCError('raise of computed exception')
        yield Outcome('raise', st, exc=name, node=node)

    def st_Assert(self, node, st, frame):
        for st1, v in self.ev(node.test, st, frame):
            t = self.truth(v, st1)
            self.pend_raise(st1, z3.Not(t), 'AssertionError', frame, node)
            yield Outcome('normal', st1)

    def st_Delete(self, node, st, frame):
        cur = [st]
        for tg in node.targets:
            nxt = []
            for s in cur:
                if isinstance(tg, ast.Subscript):
                    for s1, c in self.ev(tg.value, s, frame):
                        if isinstance(tg.slice, ast.Slice):
                            # del l[a:]
                            if tg.slice.upper is not None or tg.slice.lower is None:
                                raise VCError('del slice shape')
                            lo = self.ev1(tg.slice.lower, s1, frame)
                            t = c.t
                            curt = self.c_term(c, s1)
                            n = t.acc('len')(curt)
                            lo_t = self.clamp(self.num(lo, s1)[0], n)
                            self.write_cont(c, s1, t.mk(lo_t, t.acc('arr')(curt)), node)
                            nxt.append(s1)
                            continue
                        for s2, k in self.ev(tg.slice, s1, frame):
                            if c.t.kind in ('dict', 'rdict'):
                                self.pend_raise(s2, z3.Not(self.d_has(c, k, s2)), 'KeyError', frame, node)
                                self.d_delete(c, k, s2, node)
                                nxt.append(s2)
                            else:
                                raise VCError('del list[i]')
                elif isinstance(tg, ast.Name):
                    s.locals.pop(tg.id, None)
                    nxt.append(s)
                else:
                    raise VCError('del target')
            cur = nxt
        for s in cur:
            yield Outcome('normal', s)

    # ---- assignment ----------------------------------------------------------------------
    def st_Assign(self, node, st, frame):
        self.mark_hint(node.value, None, frame)
        for st1, v in self.ev(node.value, st, frame):
            cur = [st1]
            for tg in node.targets:
                nxt = []
                for s in cur:
                    nxt.extend(self.assign(tg, v, s, frame, node))
                cur = nxt
            for s in cur:
                yield Outcome('normal', s)

    def st_AnnAssign(self, node, st, frame):
        if node.value is None:
            yield Outcome('normal', st)
            return
        self.mark_hint(node.value, node.annotation, frame, target=node.target)
        for st1, v in self.ev(node.value, st, frame):
            for s in self.assign(node.target, v, st1, frame, node):
                yield Outcome('normal', s)

    def mark_hint(self, value, annotation, frame, target=None):
        """Attach a container type hint to empty displays ([] {} set() dict() deque()) from the
        annotation or from the contract's / shapes' declared field type."""
        if not isinstance(value, (ast.List, ast.Dict, ast.Call, ast.Set)):
            return
        t = None
        if annotation is not None:
            t = self.type_from_annotation(annotation, frame)
        if t is None and target is not None and isinstance(target, ast.Attribute) and frame.cls:
            fs = self.ctx.shapes.field(frame.cls, target.attr)
            if fs is not None:
                t = fs.t
        if t is not None:
            value._pyvc_hint = t

    def type_from_annotation(self, ann, frame):
        try:
            text = ast.unparse(ann)
        except Exception:
            return None
        return self.ctx.annotation_type(text, frame)

    def assign(self, tg, v, st, frame, node):
        """-> list of states"""
        if isinstance(tg, ast.Name):
            st.locals[tg.id] = v
            return [st]
        if isinstance(tg, (ast.Tuple, ast.List)):
            items = self.unpack(v, len(tg.elts), st, frame, node)
            cur = [st]
            for t_, i_ in zip(tg.elts, items):
                nxt = []
                for s in cur:
                    nxt.extend(self.assign(t_, i_, s, frame, node))
                cur = nxt
            return cur
        if isinstance(tg, ast.Attribute):
            out = []
            for s1, obj in self.ev(tg.value, st, frame):
                out.extend(self.setattr(obj, tg.attr, v, s1, frame, node))
            return out
        if isinstance(tg, ast.Subscript):
            out = []
            for s1, c in self.ev(tg.value, st, frame):
                for s2, k in self.ev(tg.slice, s1, frame):
                    if not isinstance(c, Cont):
                        raise VCError('subscript store on %r' % (c,))
                    if c.t.kind == 'list':
                        i = self.l_index(c, k, s2, frame, node)
                        old_arr = self.l_arr(c, s2)
                        vt_ = self.term(v, s2, c.t.args[0])
                        if c.t.args[0].kind != 'bytes':
                            ElemLoc(c.loc, c.t, i).write(s2, vt_)
                        else:
                            from .execcont import bsum_fn
                            from .types import blen as _blen
                            new_arr = fresh('set', old_arr.sort())
                            iv = fresh('idx', z3.IntSort())
                            s2.assume(iv == i)
                            i = iv
                            s2.assume(new_arr == z3.Store(old_arr, i, vt_))
                            self.write_cont(c, s2, c.t.mk(self.l_len(c, s2), new_arr), node)
                            kk = z3.Int('k!be')
                            s2.assume(z3.ForAll([kk], bsum_fn(new_arr, kk) == z3.If(kk <= i, bsum_fn(old_arr, kk),
                                      bsum_fn(old_arr, kk) - _blen(z3.Select(old_arr, i)) + _blen(vt_)),
                                      patterns=[bsum_fn(new_arr, kk)]))
                    else:
                        self.d_store(c, k, v, s2, node)
                    out.append(s2)
            return out
        raise VCError('assignment target %s' % type(tg).__name__)

    def unpack(self, v, n, st, frame, node):
        if isinstance(v, TupleV):
            if len(v.items) != n:
                raise VCError('unpack arity')
            return v.items
        if isinstance(v, PyConst) and isinstance(v.v, tuple):
            return [PyConst(x) for x in v.v]
        if isinstance(v, Sc) and v.t.kind == 'tuple':
            return self.wrap(v.term, v.t).items
        raise VCError('unpack of %r (line %s)' % (v, getattr(node, 'lineno', '?')))

    def setattr(self, obj, attr, v, st, frame, node):
        ctx = self.ctx
        if not isinstance(obj, RefV):
            raise VCError('attribute store on %r' % (obj,))
        if obj.nullable:
            self.pend_raise(st, obj.term == NONE, 'AttributeError', frame, node)
        hook = ctx.setattr_hook
        if hook is not None:
            r = hook(self, obj, attr, v, st, frame, node)
            if r is not None:
                return r
        fs = ctx.shapes.field(obj.t.cls, attr)
        if fs is None:
            f = ctx.repo.find_method(obj.t.cls, attr + '.setter')
            if f is not None:
                return [s for s, _ in self.call_func(f, [obj, v], {}, st, frame, node)]
            raise VCError('store to undeclared field %s.%s (line %s)' % (obj.t.cls, attr, getattr(node, 'lineno', '?')))
        if fs.kind != 'heap':
            raise VCError('store to %s field %s' % (fs.kind, fs.fid))
        t = fs.t
        if t.is_container and fs.nullable:
            some = st.heap_arr(fs.fid + '$some', z3.BoolSort())
            if isinstance(v, NoneV):
                st.heap[fs.fid + '$some'] = z3.Store(some, obj.term, False)
                return [st]
            flag = getattr(v, 'some', None)
            st.heap[fs.fid + '$some'] = z3.Store(some, obj.term, flag if flag is not None else z3.BoolVal(True))
        term = self.term(v, st, t)
        arr = st.heap_arr(fs.fid, t.sort())
        st.heap[fs.fid] = z3.Store(arr, obj.term, term)
        if isinstance(v, Cont) and isinstance(v.loc, CellLoc):
            self.rebind_aliases(st, v, FieldLoc(obj.term, fs.fid, t.sort()))
        return [st]

    def st_AugAssign(self, node, st, frame):
        tg = node.target
        for st1, cur in self.ev(tg, st, frame):
            for st2, v in self.ev(node.value, st1, frame):
                if isinstance(node.op, ast.BitOr) and isinstance(cur, Cont):
                    self.set_update_from(cur, v, st2, frame, node)
                    yield Outcome('normal', st2)
                    continue
                fake = ast.BinOp(left=tg, op=node.op, right=node.value)
                ast.copy_location(fake, node)
                r = self.binop(node.op, cur, v, st2, frame, fake)
                for s in self.assign(tg, r, st2, frame, node):
                    yield Outcome('normal', s)

    # ---- control flow ---------------------------------------------------------------------
    def st_If(self, node, st, frame):
        # 'if TYPE_CHECKING:' is dead at run time
        if isinstance(node.test, ast.Name) and node.test.id == 'TYPE_CHECKING':
            yield from self.exec_block(node.orelse, st, frame)
            return
        noop = all(is_noop_stmt(s) for s in node.body) and all(is_noop_stmt(s) for s in node.orelse)
        for st1, c in self.ev(node.test, st, frame):
            if noop:
                yield Outcome('normal', st1)
                continue
            t = self.truth(c, st1)
            if z3.is_true(t):
                yield from self.exec_block(node.body, st1, frame)
                continue
            if z3.is_false(t):
                yield from self.exec_block(node.orelse, st1, frame)
                continue
            s1 = st1.fork()
            s1.assume(t)
            self.narrow(node.test, s1, True)
            yield from self.exec_block(node.body, s1, frame)
            s2 = st1.fork()
            s2.assume(z3.Not(t))
            self.narrow(node.test, s2, False)
            yield from self.exec_block(node.orelse, s2, frame)

    def st_Try(self, node, st, frame):
        outs = self.exec_block(node.body, st, frame)
        res = []
        for o in outs:
            if o.kind == 'raise':
                handled = False
                for h in node.handlers:
                    names = self.handler_names(h, frame)
                    if names is None or any(self.ctx.exc_is(o.exc, n) for n in names):
                        s = o.st
                        if h.name:
                            s.locals[h.name] = RefV(fresh('exc', Ref), ref('object'))
                        s.locals['__current_exc'] = PyConst(o.exc)
                        res.extend(self.exec_block(h.body, s, frame))
                        handled = True
                        break
                if not handled:
                    res.append(o)
            elif o.kind == 'normal' and node.orelse:
                res.extend(self.exec_block(node.orelse, o.st, frame))
            else:
                res.append(o)
        if node.finalbody:
            fin = []
            for o in res:
                for fo in self.exec_block(node.finalbody, o.st, frame):
                    if fo.kind == 'normal':
                        fin.append(Outcome(o.kind, fo.st, o.val, o.exc, o.node))
                    else:
                        fin.append(fo)
            res = fin
        yield from res

    def handler_names(self, h, frame):
        if h.type is None:
            return None
        t = h.type
        elts = t.elts if isinstance(t, ast.Tuple) else [t]
        names = []
        for e in elts:
            if isinstance(e, ast.Name):
                ok, v = self.ctx.repo.resolve_const(frame.module, e.id)
                m = self.ctx.repo.modules.get(frame.module)
                if m and e.id in m.consts and isinstance(m.consts[e.id], ast.Tuple):
                    for x in m.consts[e.id].elts:
                        names.append(x.id if isinstance(x, ast.Name) else ('%s.%s' % (x.value.id, x.attr)))
                else:
                    names.append(e.id)
            elif isinstance(e, ast.Attribute):
                names.append('%s.%s' % (e.value.id, e.attr) if isinstance(e.value, ast.Name) else e.attr)
        return names

    def st_With(self, node, st, frame):
        # only contextlib.suppress(...) is modelled
        item = node.items[0]
        ce = item.context_expr
        if isinstance(ce, ast.Call) and (getattr(ce.func, 'id', None) == 'suppress' or getattr(ce.func, 'attr', None) == 'suppress'):
            names = []
            for a in ce.args:
                names.append(a.id if isinstance(a, ast.Name) else '%s.%s' % (a.value.id, a.attr))
            for o in self.exec_block(node.body, st, frame):
                if o.kind == 'raise' and any(self.ctx.exc_is(o.exc, n) for n in names):
                    yield Outcome('normal', o.st)
                else:
                    yield o
            return
        raise VCError('with statement at line %s' % node.lineno)

    def st_FunctionDef(self, node, st, frame):
        st.locals[node.name] = FuncV('localfunc', node=node, frame=frame)
        yield Outcome('normal', st)

    # ---- loops ---------------------------------------------------------------------------
    def loop_spec(self, node, frame):
        if frame.contract is None:
            return None
        if not hasattr(frame, 'loop_index'):
            frame.loop_index = loops_in_order(frame.finfo.node)
        idx = frame.loop_index.get(id(node))
        loops = getattr(frame, 'view_loops', None)
        if loops is None:
            loops = frame.contract.loops
        return loops.get(idx), idx

    def st_For(self, node, st, frame):
        for st1, itv in self.ev(node.iter, st, frame):
            yield from self.run_for(node, itv, st1, frame)

    def make_iteration(self, itv, st, frame, node):
        """-> (kind, list Cont or python list, getter(st, idxterm)->Val, source container or None)"""
        if isinstance(itv, (TupleV,)):
            return 'unroll', list(itv.items), None, None
        if isinstance(itv, PyConst) and isinstance(itv.v, (tuple, frozenset, list)):
            items = sorted(itv.v) if isinstance(itv.v, frozenset) else list(itv.v)
            return 'unroll', [PyConst(x) for x in items], None, None
        if isinstance(itv, FuncV) and itv.kind == 'range':
            lo, hi = itv.lo, itv.hi
            if isinstance(lo, PyConst) and isinstance(hi, PyConst) and hi.v - lo.v <= 16:
                return 'unroll', [PyConst(i) for i in range(lo.v, hi.v)], None, None
            lo_t, hi_t = self.num(lo, st)[0], self.num(hi, st)[0]
            n = z3.If(hi_t > lo_t, hi_t - lo_t, 0)
            t = T('list', [INT])
            arr = fresh('rng', z3.ArraySort(z3.IntSort(), z3.IntSort()))
            i = z3.Int('i!rg')
            st.assume(z3.ForAll([i], z3.Select(arr, i) == lo_t + i, patterns=[z3.Select(arr, i)]))
            lst = self.new_cont(t, st, t.mk(n, arr))
            return 'list', lst, None, None
        if isinstance(itv, FuncV) and itv.kind == 'items':
            c = itv.cont
            lst = self.to_list(c, st, frame, node)
            keys = getattr(lst, 'keys_arr', None)

            def getter(s, k, lst=lst, c=c, keys=keys):
                kv = self.wrap_elem(z3.Select(self.l_arr(lst, s), k), lst.t.args[0], s)
                if keys is not None:
                    kt = z3.Select(keys, k)
                    from .core import ItemLoc as IL
                    item = self.elem_val(c, IL(c.loc, c.t, kt), self.d_valtype(c), s)
                else:
                    item = self.d_item(c, kv, s)
                return TupleV([kv, item])
            return 'list', lst, getter, c
        if isinstance(itv, FuncV) and itv.kind == 'values':
            c = itv.cont
            lst = self.to_list(c, st, frame, node)
            keys = getattr(lst, 'keys_arr', None)

            def getter(s, k, lst=lst, c=c, keys=keys):
                if keys is not None:
                    kt = z3.Select(keys, k)
                else:
                    kt = z3.Select(self.l_arr(lst, s), k)
                from .core import ItemLoc as IL
                return self.elem_val(c, IL(c.loc, c.t, kt), self.d_valtype(c), s)
            return 'list', lst, getter, c
        if isinstance(itv, FuncV) and itv.kind == 'enumerate':
            kind, lst, g0, src = self.make_iteration(itv.it, st, frame, node)
            if kind != 'list':
                raise VCError('enumerate of unrolled')

            def getter(s, k, lst=lst, g0=g0):
                inner = g0(s, k) if g0 else self.wrap_elem(z3.Select(self.l_arr(lst, s), k), lst.t.args[0], s)
                return TupleV([Sc(k, INT), inner])
            return 'list', lst, getter, src
        if isinstance(itv, Sc) and itv.t.kind == 'bytes':
            # iterating bytes yields its ints
            from .types import blen as _blen, bat as _bat
            t = T('list', [INT])
            arr = fresh('bytes_it', z3.ArraySort(z3.IntSort(), z3.IntSort()))
            i = z3.Int('i!bi')
            st.assume(z3.ForAll([i], z3.And(z3.Select(arr, i) == _bat(itv.term, i)), patterns=[z3.Select(arr, i)]))
            st.assume(z3.ForAll([i], z3.Implies(z3.And(0 <= i, i < _blen(itv.term)), z3.And(0 <= _bat(itv.term, i), _bat(itv.term, i) < 256)),
                                patterns=[_bat(itv.term, i)]))
            st.assume(_blen(itv.term) >= 0)
            return 'list', self.new_cont(t, st, t.mk(_blen(itv.term), arr)), None, None
        if isinstance(itv, Cont):
            if itv.t.kind == 'list':
                # iterating a live list: snapshot (mutation during iteration is not modelled for lists)
                lst = self.new_cont(itv.t, st, self.c_term(itv, st))
                return 'list', lst, None, None
            lst = self.to_list(itv, st, frame, node)
            return 'list', lst, None, itv
        raise VCError('for over %r (line %s)' % (itv, node.lineno))

    def run_for(self, node, itv, st, frame):
        kind, lst, getter, src = self.make_iteration(itv, st, frame, node)
        spec_idx = self.loop_spec(node, frame)
        spec, idx = spec_idx if spec_idx else (None, None)
        if kind == 'unroll':
            yield from self.unroll(node, lst, st, frame)
            return
        if spec is None:
            raise VCError('loop at line %d of %s has no loop contract' % (node.lineno, frame.label))
        n = self.l_len(lst, st)
        st.assume(n >= 0)
        label = 'loop%d' % idx
        # initiation
        st.locals['_it'] = st.locals['_it%d' % idx] = lst
        st.locals['_k'] = st.locals['_k%d' % idx] = Sc(z3.IntVal(0), INT)
        self.check_invs(spec, st, frame, node, label + ':init')
        # havoc
        pre_loop = st.fork()
        self.havoc_loop(node, spec, st, frame)
        k = fresh('k', z3.IntSort())
        st.locals['_k'] = st.locals['_k%d' % idx] = Sc(k, INT)
        st.assume(z3.And(0 <= k, k <= n))
        for st_v in self.expand_opt(st):
            yield from self.run_for_head(node, spec, idx, label, lst, getter, src, n, k, st_v, frame)

    def expand_opt(self, st):
        """states for the two cases of every Optional[container] local that is None before the loop (see havoc_loop)"""
        pend = getattr(st, '_opt_none', [])
        st._opt_none = []
        out = [st]
        for name, t in pend:
            nxt = []
            for s in out:
                s_none = s.fork()
                s_none.locals[name] = NoneV()
                s_some = s.fork()
                s_some.locals[name] = self.fresh_val(name, t, s_some)
                nxt.extend([s_none, s_some])
            out = nxt
        return out

    def run_for_head(self, node, spec, idx, label, lst, getter, src, n, k, st, frame):
        self.assume_invs(spec, st, frame)
        src_has0 = self.c_has_arr(src, st) if (src is not None and not src.frozen) else None
        # body (run first: the exit state needs to know which locals an iteration leaves bound)
        s_body = st.fork()
        s_body.assume(k < n)
        if getter:
            item = getter(s_body, k)
        else:
            item = self.wrap_elem(z3.Select(self.l_arr(lst, s_body), k), lst.t.args[0], s_body)
        dec0 = self.eval_decreases(spec, s_body, frame)
        leaked = {}
        pending = []
        for s in self.assign(node.target, item, s_body, frame, node):
            frame.in_loop = getattr(frame, 'in_loop', 0) + 1
            try:
                body_outs = self.exec_block(node.body, s, frame)
            finally:
                frame.in_loop -= 1
            for o in body_outs:
                if o.kind in ('normal', 'continue'):
                    for nm, v in o.st.locals.items():
                        if nm not in st.locals and not nm.startswith('_') and isinstance(v, (Sc, RefV)):
                            leaked.setdefault(nm, v)
                    o.st.locals['_k'] = o.st.locals['_k%d' % idx] = Sc(k + 1, INT)
                    o.st.locals['_it'] = o.st.locals['_it%d' % idx] = lst
                    if src_has0 is not None:
                        self.oblige(o.st, self.c_has_arr(src, o.st) == src_has0, label + ':iter-mutation', frame, node,
                                    'container changed size during iteration')
                    self.check_invs(spec, o.st, frame, node, label + ':pres')
                elif o.kind == 'break':
                    pending.append(Outcome('normal', o.st))
                else:
                    pending.append(o)
        # exit
        s_exit = st.fork()
        s_exit.assume(k == n)
        # Python leaves the loop variable(s) and everything first bound inside the body bound after the loop (to the
        # values of the last iteration that ran).  They are given arbitrary values of the type seen in the body, except the
        # simple loop target, which is the last element.  (If the loop never ran they are unbound in CPython - reading
        # them then raises; that case is over-approximated by the arbitrary value and noted as an assumption.)
        for nm, v in leaked.items():
            if nm in s_exit.locals:
                continue
            if isinstance(node.target, ast.Name) and node.target.id == nm and getter is None:
                last = self.wrap_elem(z3.Select(self.l_arr(lst, s_exit), n - 1), lst.t.args[0], s_exit)
                if isinstance(last, (Sc, RefV)):
                    s_exit.locals[nm] = last
                    continue
            s_exit.locals[nm] = self.fresh_val('leak_' + nm, v.t, s_exit, nullable=getattr(v, 'nullable', False))
        if leaked:
            s_exit._leaked = set(getattr(s_exit, '_leaked', set())) | set(leaked)
        if node.orelse:
            yield from self.exec_block(node.orelse, s_exit, frame)
        else:
            yield Outcome('normal', s_exit)
        yield from pending

    def unroll(self, node, items, st, frame):
        live = [st]
        for it in items:
            nxt = []
            for s in live:
                for s1 in self.assign(node.target, it, s, frame, node):
                    for o in self.exec_block(node.body, s1, frame):
                        if o.kind in ('normal', 'continue'):
                            nxt.append(o.st)
                        elif o.kind == 'break':
                            yield Outcome('normal', o.st)
                        else:
                            yield o
            live = nxt
        for s in live:
            if node.orelse:
                yield from self.exec_block(node.orelse, s, frame)
            else:
                yield Outcome('normal', s)

    def st_While(self, node, st, frame):
        spec_idx = self.loop_spec(node, frame)
        spec, idx = spec_idx if spec_idx else (None, None)
        if spec is None:
            raise VCError('while loop at line %d of %s has no loop contract' % (node.lineno, frame.label))
        label = 'loop%d' % idx
        self.check_invs(spec, st, frame, node, label + ':init')
        self.havoc_loop(node, spec, st, frame)
        for st_v in self.expand_opt(st):
            yield from self.while_head(node, spec, idx, label, st_v, frame)

    def while_head(self, node, spec, idx, label, st, frame):
        self.assume_invs(spec, st, frame)
        for st1, c in self.ev(node.test, st, frame):
            t = self.truth(c, st1)
            s_exit = st1.fork()
            s_exit.assume(z3.Not(t))
            if node.orelse:
                yield from self.exec_block(node.orelse, s_exit, frame)
            else:
                yield Outcome('normal', s_exit)
            s_body = st1.fork()
            s_body.assume(t)
            dec0 = self.eval_decreases(spec, s_body, frame)
            frame.in_loop = getattr(frame, 'in_loop', 0) + 1
            try:
                body_outs = self.exec_block(node.body, s_body, frame)
            finally:
                frame.in_loop -= 1
            for o in body_outs:
                if o.kind in ('normal', 'continue'):
                    self.check_invs(spec, o.st, frame, node, label + ':pres')
                    if dec0 is not None:
                        dec1 = self.eval_decreases(spec, o.st, frame)
                        self.oblige(o.st, z3.And(dec0 >= 0, dec1 < dec0), label + ':decreases', frame, node)
                elif o.kind == 'break':
                    yield Outcome('normal', o.st)
                else:
                    yield o

    def eval_decreases(self, spec, st, frame):
        if spec is None or not spec.decreases:
            return None
        s = st.fork()
        s.spec = True
        v = self.ev1(self.parse_spec(spec.decreases), s, frame)
        return self.num(v, s)[0]

    def check_invs(self, spec, st, frame, node, label):
        s = st.fork()
        s.spec = True
        s.pc = st.pc
        # at the end of an iteration the path ends: proved invariants need not be assumed for the next ones
        keep = label.endswith(':init')
        for i, inv in enumerate(spec.inv):
            g = self.spec_bool(inv, s, frame)
            self.oblige(st, g, '%s#%d' % (label, i), frame, node, inv, assume=keep)

    def assume_invs(self, spec, st, frame):
        s = st.fork()
        s.spec = True
        for inv in list(spec.inv) + list(spec.assume_only):
            st.assume(self.spec_bool(inv, s, frame))
        for lem in spec.lemmas:
            if not lem.strip().startswith('bsum_unfold('):
                raise VCError('only definitional unfoldings may be assumed as loop lemmas: %s' % lem)
            st.assume(self.spec_bool(lem, s, frame))

    def havoc_loop(self, node, spec, st, frame):
        assigned = set()
        mutated = set()
        for n in ast.walk(node):
            if isinstance(n, ast.Name) and isinstance(n.ctx, (ast.Store, ast.Del)):
                assigned.add(n.id)
            elif isinstance(n, ast.Call):
                f = n.func
                if isinstance(f, ast.Attribute) and isinstance(f.value, ast.Name) and f.attr in MUTATORS:
                    mutated.add(f.value.id)
                fname = f.id if isinstance(f, ast.Name) else None
                if fname not in NONMUT_CALLS and not (isinstance(f, ast.Attribute) and isinstance(f.value, ast.Name)
                                                      and f.value.id in ('log',)):
                    if isinstance(f, ast.Attribute) and f.attr not in MUTATORS and not (
                            isinstance(f.value, ast.Name) and f.value.id == 'self') and isinstance(f.value, ast.Name) \
                            and isinstance(st.locals.get(f.value.id), Cont):
                        pass
                    else:
                        # arguments of calls: havoc only where the callee may modify them - a callee with a
                        # contract lists such parameters in `modifies`; unresolved/stubbed callees on other
                        # objects havoc what they change themselves; inlined callees are treated conservatively
                        mods = self.callee_modified_args(n, frame)
                        for a in mods:
                            mutated.add(a)
            elif isinstance(n, ast.Subscript) and isinstance(n.ctx, (ast.Store, ast.Del)) and isinstance(n.value, ast.Name):
                mutated.add(n.value.id)
            elif isinstance(n, ast.AugAssign) and isinstance(n.target, ast.Name):
                mutated.add(n.target.id)
        # the iteration variable(s) are (re)bound in every iteration, not havocked
        targets = set()
        if isinstance(node, ast.For):
            for n in ast.walk(node.target):
                if isinstance(n, ast.Name):
                    targets.add(n.id)
        for name in sorted(assigned - targets):
            v = st.locals.get(name)
            if v is None or name.startswith('_'):
                continue
            if isinstance(v, Cont):
                if isinstance(v.loc, CellLoc):
                    st.locals[name] = self.fresh_val(name, v.t, st)
                continue
            if isinstance(v, (Sc, RefV, PyConst, NoneV, TupleV)):
                t = v.t
                if isinstance(v, NoneV):
                    # `x: Optional[C] = None` before the loop, assigned inside it: havoc as a nullable C.
                    # Sound only with a declared type; anything else is out of reach.
                    t = None
                    for an in ast.walk(frame.finfo.node):
                        if isinstance(an, ast.AnnAssign) and isinstance(an.target, ast.Name) and an.target.id == name:
                            t = self.type_from_annotation(an.annotation, frame)
                    if t is None:
                        # assigned only together with leaving the loop (break/return/raise right after): stays None inside
                        if self._assigned_only_before_exit(node, name):
                            continue
                        raise VCError('local %s is None at the head of the loop at line %d and assigned inside it: '
                                      'needs a type annotation' % (name, node.lineno))
                    if t.is_container:
                        # Optional[container]: either still None or some container - both cases are explored
                        st._opt_none = getattr(st, '_opt_none', []) + [(name, t)]
                        continue
                    st.locals[name] = self.fresh_val(name, t, st, nullable=True)
                    continue
                st.locals[name] = self.fresh_val(name, t, st, nullable=True if isinstance(v, RefV) else False)
        for name in sorted(mutated):
            v = st.locals.get(name)
            if isinstance(v, Cont) and not v.frozen and isinstance(v.loc, CellLoc):
                v.loc.write(st, fresh('lv_' + name, v.t.sort()))
                if v.t.kind == 'list':
                    st.assume(v.t.acc('len')(v.loc.read(st)) >= 0)
        # objects may be allocated inside the loop: the allocation set only grows
        allocates = any(isinstance(n, ast.Call) and isinstance(n.func, ast.Name) and n.func.id[:1].isupper()
                        for n in ast.walk(node))
        if allocates:
            a0 = st.alloc_arr()
            a1 = fresh('alloc', a0.sort())
            x = z3.Const('x!al', Ref)
            st.assume(z3.ForAll([x], z3.Implies(z3.Select(a0, x), z3.Select(a1, x)), patterns=[z3.Select(a0, x)]))
            st.heap['$alloc'] = a1
        mods = spec.modifies if spec.modifies is not None else (frame.contract.modifies if frame.contract else [])
        pre = st.fork()
        pre.spec = True
        for m in mods:
            self.havoc_loc(m, pre, st, frame)

    @staticmethod
    def _assigned_only_before_exit(loop, name):
        """every store to `name` inside `loop` is a plain assignment statement followed, in the same block and with only
        simple statements in between, by break/return/raise: the variable keeps its pre-loop value in every iteration
        that reaches the loop head again."""
        stores = [n for n in ast.walk(loop) if isinstance(n, ast.Name) and n.id == name and isinstance(n.ctx, (ast.Store, ast.Del))]
        ok_stores = set()
        nested = set()
        for inner in ast.walk(loop):
            if inner is not loop and isinstance(inner, (ast.For, ast.While, ast.AsyncFor)):
                nested.update(id(x) for x in ast.walk(inner))
        for blk_owner in ast.walk(loop):
            for fld in ('body', 'orelse', 'finalbody'):
                blk = getattr(blk_owner, fld, None)
                if not isinstance(blk, list):
                    continue
                for i, s in enumerate(blk):
                    if isinstance(s, (ast.Assign, ast.AnnAssign)):
                        tg = s.targets if isinstance(s, ast.Assign) else [s.target]
                        names = [t for t in tg if isinstance(t, ast.Name) and t.id == name]
                        if not names:
                            continue
                        for s2 in blk[i + 1:]:
                            if isinstance(s2, (ast.Return, ast.Raise)) or (isinstance(s2, ast.Break) and id(s2) not in nested):
                                ok_stores.update(id(t) for t in names)
                                break
                            if not isinstance(s2, (ast.Assign, ast.AnnAssign, ast.AugAssign, ast.Expr, ast.Pass)):
                                break
        return all(id(n) in ok_stores for n in stores)

    def callee_modified_args(self, call, frame):
        f = call.func
        callee = None
        if isinstance(f, ast.Attribute) and isinstance(f.value, ast.Name) and f.value.id == 'self' and frame.cls:
            callee = self.ctx.repo.find_method(frame.cls, f.attr)
            offset = 1
        elif isinstance(f, ast.Name):
            m = self.ctx.repo.modules.get(frame.module)
            if m and f.id in m.funcs:
                callee = m.funcs[f.id]
            offset = 0
        elif isinstance(f, ast.Attribute):
            return []        # method on another object: contract/stub havocs explicitly
        names = [a.id for a in call.args if isinstance(a, ast.Name)]
        if callee is None:
            return names
        c = self.ctx.contracts.get((callee.module, callee.qualname))
        if c is None:
            return names
        params = [x.arg for x in callee.node.args.posonlyargs + callee.node.args.args][offset:]
        out = []
        for p_, a in zip(params, call.args):
            if isinstance(a, ast.Name) and p_ in c.modifies:
                out.append(a.id)
        return out

    # ---- await (A5) ------------------------------------------------------------------------
    def do_await(self, v, st, frame, node):
        hook = self.ctx.await_hook
        if hook is None:
            raise VCError('await without an await model')
        yield from hook(self, v, st, frame, node)
