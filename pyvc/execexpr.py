"""Executor part 3: expressions."""
import ast
import z3

from .core import (Val, Sc, RefV, NoneV, TupleV, Cont, PyConst, FuncV, ClassV, ModuleV, CellLoc, FieldLoc,
                   ItemLoc, ElemLoc, TermLoc, State, Outcome, VCError, fresh)
from .types import (T, INT, REAL, BOOL, STR, BYTES, OPTINT, IDENT, ANYREF, Ref, Str, Bytes, NONE, Ident,
                    ident_of, cls_of, lower, slen, ulen, blen, bat, parse_type, ref)

BUILTINS = {'len', 'isinstance', 'int', 'bool', 'float', 'hash', 'set', 'list', 'dict', 'tuple', 'reversed',
            'sorted', 'range', 'min', 'max', 'bytes', 'str', 'enumerate', 'cast', 'super', 'id', 'abs', 'type',
            'frozenset', 'any', 'all', 'zip', 'repr', 'iter', 'next', 'bytearray', 'sum', 'callable',
            'getattr', 'hasattr', 'print', 'deque'}
SPEC_BUILTINS = {'old', 'forall', 'exists', 'implies', 'iff', 'ite', 'result', 'ident', 'cls_is', 'fresh_obj',
                 'keyobj', 'valobj', 'has', 'lower', 'slen', 'ulen', 'blen', 'bat', 'to_real', 'to_int',
                 'exact_class', 'mk_ident', 'rd_ptr', 'rd_srv', 'rd_text', 'rd_addr', 'rd_hinfo', 'rd_nsec',
                 'some', 'nothing', 'as_', 'allocated', 'uf', 'bsum', 'bsum_unfold', 'heap_unchanged', 'unchanged', 'alias_of', 'list_eq', 'card', 'heap_eq', 'div', 'mod'}


class ExprMixin:

    def ev_list(self, nodes, st, frame):
        if not nodes:
            yield st, []
            return
        for st1, v in self.ev(nodes[0], st, frame):
            for st2, rest in self.ev_list(nodes[1:], st1, frame):
                yield st2, [v] + rest

    def ev1(self, node, st, frame):
        """Evaluate in spec mode (or any expression known not to fork): exactly one result."""
        res = list(self.ev(node, st, frame))
        if len(res) != 1:
            raise VCError('expression forks in single-path context: %s' % ast.unparse(node))
        return res[0][1]

    def ev(self, node, st, frame):
        m = getattr(self, 'ev_' + type(node).__name__, None)
        if m is None:
            raise VCError('unsupported expression %s at line %s' % (type(node).__name__, getattr(node, 'lineno', '?')))
        return m(node, st, frame)

    # ---- atoms --------------------------------------------------------------------------
    def ev_Constant(self, node, st, frame):
        if node.value is None:
            yield st, NoneV()
        elif node.value is Ellipsis:
            yield st, NoneV()
        else:
            yield st, PyConst(node.value)

    def ev_JoinedStr(self, node, st, frame):
        # f-strings only occur in log / exception messages: opaque string, but evaluate parts for effects
        yield st, Sc(fresh('fstr', Str), STR)

    def ev_Name(self, node, st, frame):
        yield st, self.lookup(node.id, st, frame, node)

    def lookup(self, name, st, frame, node=None):
        if name in st.locals:
            return st.locals[name]
        if name in st.bound:
            return st.bound[name]
        if name in st.ghost:
            return st.ghost[name]
        if name in self.ctx.ghost_objects:
            return self.ctx.ghost_objects[name]
        if name in ('True', 'False'):
            return PyConst(name == 'True')
        if st.spec and name in SPEC_BUILTINS:
            return FuncV('specbuiltin', name=name)
        if name in self.ctx.spec_funcs:
            return FuncV('spec', name=name)
        v = self.lookup_global(frame.module, name, st, frame)
        if v is not None:
            return v
        if name in BUILTINS:
            return FuncV('builtin', name=name)
        if st.spec and name in self.ctx.shapes._ids:
            return ClassV(name)
        if name in self.ctx.exc_parent:
            return ClassV(name)
        raise VCError('unresolved name %s in %s (line %s)' % (name, frame.label, getattr(node, 'lineno', '?')))

    def lookup_global(self, module, name, st, frame, depth=0):
        ctx = self.ctx
        key = module + ':' + name
        if key in ctx.stubs:
            return ctx.stubs[key](self, st, frame)
        m = ctx.repo.modules.get(module)
        if m is None:
            k2 = module + '.' + name
            if k2 in ctx.stubs:
                return ctx.stubs[k2](self, st, frame)
            return None
        if name in m.classes:
            return ClassV(name)
        if name in m.funcs:
            return FuncV('function', module=module, qualname=name)
        if name in m.consts:
            ok, v = ctx.repo.resolve_const(module, name)
            if ok:
                return PyConst(v)
            # alias like  _str = str / DNSRecord_ = DNSRecord / RAND_INT = random.randint
            cn = m.consts[name]
            if isinstance(cn, ast.Name) and depth < 5:
                if cn.id in BUILTINS or cn.id in ('str', 'int', 'float', 'bytes'):
                    return FuncV('builtin', name=cn.id)
                return self.lookup_global(module, cn.id, st, frame, depth + 1)
            if isinstance(cn, ast.Attribute) and isinstance(cn.value, ast.Name):
                base = self.lookup_global(module, cn.value.id, st, frame, depth + 1)
                if isinstance(base, ModuleV):
                    k2 = base.name + '.' + cn.attr
                    if k2 in ctx.stubs:
                        return ctx.stubs[k2](self, st, frame)
            if isinstance(cn, (ast.Tuple, ast.Set)) and all(isinstance(e, ast.Name) for e in cn.elts) and depth < 5:
                items = [self.lookup_global(module, e.id, st, frame, depth + 1) for e in cn.elts]
                if all(i is not None for i in items):
                    return TupleV(items)
            raise VCError('module constant %s.%s is not a literal and has no stub' % (module, name))
        if name in m.imports:
            mod2, n2 = m.imports[name]
            if n2 is None:
                return ModuleV(mod2)
            if mod2 in ctx.repo.modules and depth < 6:
                r = self.lookup_global(mod2, n2, st, frame, depth + 1)
                if r is not None:
                    return r
            k2 = '%s.%s' % (mod2, n2)
            if k2 in ctx.stubs:
                return ctx.stubs[k2](self, st, frame)
            if n2 in ('TYPE_CHECKING',):
                return PyConst(False)
            if n2 in ('cast',):
                return FuncV('builtin', name='cast')
            if n2 in ('deque',):
                return FuncV('builtin', name='deque')
            if mod2 in ctx.repo.modules or (mod2 and mod2.startswith(ctx.repo.package)):
                return ModuleV(mod2 + '.' + n2)
            return FuncV('external', name=k2)
        return None

    def ev_Tuple(self, node, st, frame):
        if any(isinstance(e, ast.Starred) for e in node.elts):
            # (a, b, *lst): the variable tail enters as one opaque component lhash(lst), a function of the
            # list's elements up to its length (congruence axiom in execlib.list_hash_axioms)
            plain = [e.value if isinstance(e, ast.Starred) else e for e in node.elts]
            for st1, vals in self.ev_list(plain, st, frame):
                out = []
                for e, v in zip(node.elts, vals):
                    if isinstance(e, ast.Starred):
                        if not (isinstance(v, Cont) and v.t.kind == 'list'):
                            raise VCError('starred non-list in tuple')
                        out.append(Sc(self.list_hash(v, st1), INT))
                    else:
                        out.append(v)
                yield st1, TupleV(out)
            return
        for st1, vals in self.ev_list(node.elts, st, frame):
            yield st1, TupleV(vals)

    def ev_List(self, node, st, frame):
        for st1, vals in self.ev_list(node.elts, st, frame):
            et = self.join_types([v.t for v in vals], frame, node)
            c = self.new_cont(T('list', [et]), st1)
            c.empty_literal = (not vals) and self.hint_type(node, frame) is None
            for v in vals:
                self.l_append(c, v, st1)
            yield st1, c

    def ev_Dict(self, node, st, frame):
        if node.keys:
            raise VCError('non-empty dict display')
        h = self.hint_type(node, frame)
        c = self.new_cont(h or T('dict', [STR, ANYREF]), st)
        c.empty_literal = h is None
        yield st, c

    def ev_Set(self, node, st, frame):
        elts = []
        for e in node.elts:
            elts.append(e)
        st1 = st
        items = []
        for e in elts:
            if isinstance(e, ast.Starred):
                v = None
                for st1, v in self.ev(e.value, st1, frame):
                    break
                items.append(('star', v))
            else:
                v = None
                for st1, v in self.ev(e, st1, frame):
                    break
                items.append(('one', v))
        # element type from first item
        first = items[0][1]
        et = first.t if items[0][0] == 'one' else (first.t.args[0] if first.t.kind in ('list', 'set') else ref('DNSRecord'))
        if et.kind == 'ref' and et.cls in self.ctx.record_classes_all:
            c = self.new_cont(T('rset'), st1)
        else:
            c = self.new_cont(T('set', [et]), st1)
        for kind, v in items:
            if kind == 'one':
                self.s_add(c, v, st1)
            else:
                self.set_update_from(c, v, st1, frame, node)
        yield st1, c

    def hint_type(self, node, frame):
        """type hint for an empty container display from the annotation of the enclosing AnnAssign
        or from the contract's `locals` table."""
        h = getattr(node, '_pyvc_hint', None)
        return h

    def join_types(self, ts, frame, node):
        if not ts:
            h = self.hint_type(node, frame)
            if h is not None:
                return h.args[0]
            return ANYREF
        t0 = ts[0]
        for t in ts[1:]:
            if t != t0:
                if t.kind == 'ref' and t0.kind == 'ref':
                    t0 = ANYREF
                elif {t.kind, t0.kind} <= {'int', 'real'}:
                    t0 = REAL
        return t0

    # ---- operators ----------------------------------------------------------------------
    def ev_UnaryOp(self, node, st, frame):
        for st1, v in self.ev(node.operand, st, frame):
            if isinstance(node.op, ast.Not):
                yield st1, Sc(neg(self.truth(v, st1)), BOOL)
            elif isinstance(node.op, ast.USub):
                t, k = self.num(v, st1)
                if isinstance(v, PyConst):
                    yield st1, PyConst(-v.v)
                else:
                    yield st1, Sc(-t, INT if k == 'int' else REAL)
            else:
                raise VCError('unary op')

    def ev_BinOp(self, node, st, frame):
        for st1, a in self.ev(node.left, st, frame):
            for st2, b in self.ev(node.right, st1, frame):
                yield st2, self.binop(node.op, a, b, st2, frame, node)

    def binop(self, op, a, b, st, frame, node):
        if isinstance(a, PyConst) and isinstance(b, PyConst) and not isinstance(op, ast.Mod) \
                and isinstance(a.v, (int, float)) and isinstance(b.v, (int, float)):
            import operator
            ops = {ast.Add: operator.add, ast.Sub: operator.sub, ast.Mult: operator.mul,
                   ast.Div: operator.truediv, ast.BitOr: operator.or_, ast.BitAnd: operator.and_,
                   ast.FloorDiv: operator.floordiv, ast.LShift: operator.lshift, ast.RShift: operator.rshift,
                   ast.Pow: operator.pow}
            if type(op) in ops:
                return PyConst(ops[type(op)](a.v, b.v))
        if isinstance(op, ast.Mod) and (a.t.kind == 'str'):
            return Sc(fresh('fmt', Str), STR)      # "..." % x : message formatting only
        if isinstance(op, ast.Add) and a.t.kind == 'str' and b.t.kind == 'str':
            return self.str_concat(a, b, st)
        if isinstance(op, ast.Add) and a.t.kind == 'bytes' and b.t.kind == 'bytes':
            return self.bytes_concat(a, b, st)
        if isinstance(op, ast.Sub) and isinstance(a, Cont) and isinstance(b, (Cont,)):
            return self.set_difference(a, b, st, frame, node)
        if isinstance(op, ast.Sub) and isinstance(a, PyConst) and isinstance(a.v, frozenset) and isinstance(b, Cont):
            return self.set_difference(self.const_set(a, st), b, st, frame, node)
        if isinstance(op, (ast.Add, ast.Sub, ast.Mult)):
            x, y, k = self.num2(a, b, st)
            r = {ast.Add: x + y, ast.Sub: x - y, ast.Mult: x * y}[type(op)]
            return Sc(r, INT if k == 'int' else REAL)
        if isinstance(op, ast.Pow) and isinstance(b, PyConst) and isinstance(b.v, int) and 0 <= b.v <= 4:
            # x ** small constant: repeated product (int stays int)
            x, k = self.num(a, st)
            r = z3.IntVal(1) if k == 'int' else z3.RealVal(1)
            for _ in range(b.v):
                r = r * x
            return Sc(r, INT if k == 'int' else REAL)
        if isinstance(op, ast.Div):
            x, y, k = self.num2(a, b, st)
            if k == 'int':
                x, y = z3.ToReal(x), z3.ToReal(y)
            self.pend_raise(st, y == 0, 'ZeroDivisionError', frame, node)
            return Sc(x / y, REAL)
        if isinstance(op, ast.FloorDiv):
            x, kx = self.num(a, st)
            y, ky = self.num(b, st)
            if kx == 'int' and ky == 'int' and isinstance(b, PyConst) and b.v > 0:
                return Sc(x / y, INT)
            raise VCError('floor division by non-constant')
        if isinstance(op, ast.Mod):
            x, kx = self.num(a, st)
            y, ky = self.num(b, st)
            if kx == 'int' and ky == 'int' and isinstance(b, PyConst) and b.v > 0:
                return Sc(x % y, INT)
            raise VCError('mod by non-constant')
        if isinstance(op, ast.LShift):
            x, kx = self.num(a, st)
            if isinstance(b, PyConst):
                return Sc(x * (1 << b.v), INT)
            raise VCError('shift by non-constant')
        if isinstance(op, ast.RShift):
            x, kx = self.num(a, st)
            if isinstance(b, PyConst):
                return Sc(x / (1 << b.v), INT)
            if isinstance(a, PyConst):
                return self.const_rshift(a.v, b, st)
            raise VCError('shift by non-constant')
        if isinstance(op, ast.BitAnd):
            if isinstance(b, PyConst) and b.v >= 0:
                return Sc(self.bit_and(self.num(a, st)[0], b.v), INT)
            if isinstance(a, PyConst) and a.v >= 0:
                return Sc(self.bit_and(self.num(b, st)[0], a.v), INT)
            return self.bit_and_sym(a, b, st)
        if isinstance(op, ast.BitOr):
            def _is_bool(v):
                return (isinstance(v, PyConst) and isinstance(v.v, bool)) or (isinstance(v, Sc) and v.t == BOOL)
            if _is_bool(a) and _is_bool(b):            # bool | bool is a bool in Python
                return Sc(z3.Or(self.truth(a, st), self.truth(b, st)), BOOL)
            if isinstance(b, PyConst) and b.v >= 0:
                return Sc(self.bit_or_const(self.num(a, st)[0], b.v), INT)
            if isinstance(a, PyConst) and a.v >= 0:
                return Sc(self.bit_or_const(self.num(b, st)[0], a.v), INT)
            return self.bit_or_sym(a, b, st, frame, node)
        raise VCError('binop %s' % type(op).__name__)

    def bit_or_sym(self, a, b, st, frame, node):
        """a | b for symbolic operands.  Supported exactly when the left operand is (syntactically) a
        multiple of 2^k (x << k, or an | of such) and the right one is proved to lie in [0, 2^k):
        then a | b == a + b.  The range fact is a side obligation."""
        x = self.num(a, st)[0]
        y = self.num(b, st)[0]
        k = self.low_zero_bits(node.left) if node is not None else 0
        if k:
            self.oblige(st, z3.And(y >= 0, y < (1 << k)), 'bitor-range', frame, node,
                        'a<<k | b rewritten to a + b needs 0 <= b < 2^k')
            return Sc(x + y, INT)
        raise VCError('symbolic | outside the supported shapes at line %s' % getattr(node, 'lineno', '?'))

    def low_zero_bits(self, node):
        if isinstance(node, ast.BinOp) and isinstance(node.op, ast.LShift) and isinstance(node.right, ast.Constant):
            return node.right.value
        if isinstance(node, ast.BinOp) and isinstance(node.op, ast.BitOr):
            a = self.low_zero_bits(node.left)
            b = self.low_zero_bits(node.right)
            return min(a, b)
        return 0

    def bit_and_sym(self, a, b, st):
        raise VCError('symbolic & symbolic')

    def const_rshift(self, c, b, st):
        # c >> bit  for 0 <= bit < 8 (NSEC bitmaps): table
        y = self.num(b, st)[0]
        r = z3.IntVal(0)
        for k in range(15, -1, -1):
            r = z3.If(y == k, z3.IntVal(c >> k), r)
        return Sc(r, INT)

    def ev_BoolOp(self, node, st, frame):
        is_and = isinstance(node.op, ast.And)
        if st.spec:
            vals = [self.ev1(v, st, frame) for v in node.values]
            ts = [self.truth(v, st) for v in vals]
            yield st, Sc(z3.And(*ts) if is_and else z3.Or(*ts), BOOL)
            return
        yield from self._boolop(node.values, is_and, st, frame, node)

    def _boolop(self, values, is_and, st, frame, node):
        if len(values) == 1:
            yield from self.ev(values[0], st, frame)
            return
        for st1, a in self.ev(values[0], st, frame):
            ta = self.truth(a, st1)
            if z3.is_true(ta) or z3.is_false(ta):
                if z3.is_true(ta) == is_and:
                    yield from self._boolop(values[1:], is_and, st1, frame, node)
                else:
                    yield st1, a
                continue
            # evaluate the rest under the guard; merge without forking when it is pure and boolean
            trial = st1.fork()
            trial.assume(ta if is_and else z3.Not(ta))
            self.narrow(values[0], trial, is_and)
            n0 = len(trial.pc)
            npend = len(frame.raises)
            nobl = len(self.ctx.obligations)
            res = list(self._boolop(values[1:], is_and, trial, frame, node))
            pure = (len(res) == 1 and len(frame.raises) == npend and len(self.ctx.obligations) == nobl
                    and same_terms(res[0][0].heap, st1.heap) and same_terms(res[0][0].cells, st1.cells))
            if pure and a.t.kind == 'bool' and res[0][1].t.kind == 'bool':
                tb = self.truth(res[0][1], trial)
                extra = res[0][0].pc[n0:]
                if extra:
                    st1.assume(z3.Implies(ta if is_and else z3.Not(ta), z3.And(*extra)))
                yield st1, Sc(z3.And(ta, tb) if is_and else z3.Or(ta, tb), BOOL)
                continue
            for s2, b in res:
                yield s2, b
            s3 = st1.fork()
            s3.assume(z3.Not(ta) if is_and else ta)
            yield s3, a

    def narrow(self, test, st, positive):
        """Refine static types of locals from a test known to be true (positive) or false."""
        if isinstance(test, ast.UnaryOp) and isinstance(test.op, ast.Not):
            self.narrow(test.operand, st, not positive)
            return
        if isinstance(test, ast.BoolOp):
            if isinstance(test.op, ast.And) and positive or isinstance(test.op, ast.Or) and not positive:
                for v in test.values:
                    self.narrow(v, st, positive)
            return
        if isinstance(test, ast.Call) and isinstance(test.func, ast.Name) and test.func.id == 'isinstance' \
                and positive and len(test.args) == 2 and isinstance(test.args[0], ast.Name):
            v = st.locals.get(test.args[0].id)
            c = test.args[1]
            if isinstance(v, RefV) and isinstance(c, ast.Name) and c.id in self.ctx.shapes._ids:
                if c.id in self.ctx.shapes.subclasses(v.t.cls) or v.t.cls == 'object':
                    st.locals[test.args[0].id] = RefV(v.term, ref(c.id), False)
            return
        if isinstance(test, ast.Compare) and len(test.ops) == 1 and isinstance(test.left, ast.Name) \
                and isinstance(test.comparators[0], ast.Constant) and test.comparators[0].value is None:
            v = st.locals.get(test.left.id)
            nonnull = (isinstance(test.ops[0], ast.IsNot) and positive) or (isinstance(test.ops[0], ast.Is) and not positive)
            if isinstance(v, RefV) and nonnull:
                st.locals[test.left.id] = RefV(v.term, v.t, False)
            if isinstance(v, Sc) and v.t.kind == 'optint' and nonnull:
                st.locals[test.left.id] = Sc(OPTINT.acc('oi_val')(v.term), INT)
            return
        if isinstance(test, ast.Name) and positive:
            v = st.locals.get(test.id)
            if isinstance(v, RefV):
                st.locals[test.id] = RefV(v.term, v.t, False)

    def ev_IfExp(self, node, st, frame):
        for st1, c in self.ev(node.test, st, frame):
            tc = self.truth(c, st1)
            if st.spec:
                a = self.ev1(node.body, st1, frame)
                b = self.ev1(node.orelse, st1, frame)
                yield st1, self.merge_vals(tc, a, b, st1)
                continue
            if z3.is_true(tc):
                yield from self.ev(node.body, st1, frame)
                continue
            if z3.is_false(tc):
                yield from self.ev(node.orelse, st1, frame)
                continue
            s1 = st1.fork()
            s1.assume(tc)
            self.narrow(node.test, s1, True)
            yield from self.ev(node.body, s1, frame)
            s2 = st1.fork()
            s2.assume(z3.Not(tc))
            self.narrow(node.test, s2, False)
            yield from self.ev(node.orelse, s2, frame)

    def merge_vals(self, c, a, b, st):
        if isinstance(a, NoneV) and isinstance(b, NoneV):
            return a
        if isinstance(a, (RefV, NoneV)) and isinstance(b, (RefV, NoneV)):
            t = a.t if isinstance(a, RefV) else b.t
            return RefV(z3.If(c, self.term(a, st), self.term(b, st)), t, True)
        if isinstance(a, Cont) and isinstance(b, Cont):
            return Cont(TermLoc(z3.If(c, self.term(a, st), self.term(b, st))), a.t, frozen=True)
        if a.t.kind in ('int', 'real', 'bool') and b.t.kind in ('int', 'real', 'bool') and a.t != b.t:
            if 'real' in (a.t.kind, b.t.kind):
                return Sc(z3.If(c, self.term(a, st, REAL), self.term(b, st, REAL)), REAL)
            return Sc(z3.If(c, self.term(a, st, INT), self.term(b, st, INT)), INT)
        if isinstance(a, TupleV) and isinstance(b, TupleV):
            return TupleV([self.merge_vals(c, x, y, st) for x, y in zip(a.items, b.items)])
        if (a.t.kind == 'optint' and b.t.kind == 'real') or (a.t.kind == 'real' and b.t.kind == 'optint'):
            # `x if x is not None else default_real`: the number carried by the Optional[int] side (see num())
            ta = z3.ToReal(OPTINT.acc('oi_val')(a.term)) if a.t.kind == 'optint' else self.term(a, st, REAL)
            tb = z3.ToReal(OPTINT.acc('oi_val')(b.term)) if b.t.kind == 'optint' else self.term(b, st, REAL)
            return Sc(z3.If(c, ta, tb), REAL)
        if a.t.kind == 'optint' or b.t.kind == 'optint':
            return Sc(z3.If(c, self.term(a, st, OPTINT), self.term(b, st, OPTINT)), OPTINT)
        return Sc(z3.If(c, self.term(a, st), self.term(b, st)), a.t)

    def ev_Compare(self, node, st, frame):
        if len(node.ops) == 1:
            for st1, a in self.ev(node.left, st, frame):
                for st2, b in self.ev(node.comparators[0], st1, frame):
                    yield st2, Sc(self.compare(node.ops[0], a, b, st2, frame, node), BOOL)
            return
        # chained a < b < c
        for st1, vals in self.ev_list([node.left] + node.comparators, st, frame):
            ts = [self.compare(op, vals[i], vals[i + 1], st1, frame, node) for i, op in enumerate(node.ops)]
            yield st1, Sc(z3.And(*ts), BOOL)

    def compare(self, op, a, b, st, frame, node):
        if isinstance(op, (ast.Is, ast.IsNot)):
            r = self.identical(a, b, st)
            return r if isinstance(op, ast.Is) else neg(r)
        if isinstance(op, (ast.Eq, ast.NotEq)):
            r = self.equal(a, b, st, frame, node)
            return r if isinstance(op, ast.Eq) else neg(r)
        if isinstance(op, (ast.In, ast.NotIn)):
            r = self.contains(b, a, st, frame, node)
            return r if isinstance(op, ast.In) else neg(r)
        x, y, k = self.num2(a, b, st)
        return {ast.Lt: x < y, ast.LtE: x <= y, ast.Gt: x > y, ast.GtE: x >= y}[type(op)]

    def identical(self, a, b, st):
        # type(x) is C : exact class test
        for x, y in ((a, b), (b, a)):
            if isinstance(x, FuncV) and x.kind == 'typeof' and isinstance(y, ClassV):
                if not isinstance(x.recv, RefV):
                    return z3.BoolVal(False)
                if y.name not in self.ctx.shapes._ids:
                    raise VCError('type() compared with class %s that has no shape' % y.name)
                return self.ctx.shapes.exact_class_term(x.recv.term, y.name)
        if isinstance(a, NoneV) and isinstance(b, NoneV):
            return z3.BoolVal(True)
        if isinstance(a, PyConst) and isinstance(b, PyConst):
            return z3.BoolVal(a.v is b.v)
        if isinstance(b, PyConst) and isinstance(b.v, bool):
            # "x is True"
            if a.t.kind == 'bool':
                return self.term(a, st) == z3.BoolVal(b.v)
            return z3.BoolVal(False)
        if isinstance(a, NoneV) or isinstance(b, NoneV):
            other = b if isinstance(a, NoneV) else a
            if isinstance(other, Cont) and getattr(other, 'some', None) is not None:
                return neg(other.some)
            if isinstance(other, RefV):
                return other.term == NONE
            if isinstance(other, Sc) and other.t.kind == 'optint':
                return z3.Not(OPTINT.acc('oi_some')(other.term))
            return z3.BoolVal(False)    # containers / scalars are never None
        if isinstance(a, RefV) and isinstance(b, RefV):
            return a.term == b.term
        if isinstance(a, Cont) and isinstance(b, Cont):
            return z3.BoolVal(a.loc.key() == b.loc.key())
        if a.t.kind in ('int', 'optint') and b.t.kind in ('int', 'optint'):
            # enum members modelled by their integer values
            return self.term(a, st, OPTINT) == self.term(b, st, OPTINT)
        raise VCError('is-comparison of %r and %r' % (a, b))

    def equal(self, a, b, st, frame, node):
        if isinstance(a, PyConst) and isinstance(b, PyConst):
            return z3.BoolVal(a.v == b.v)
        if isinstance(a, NoneV) or isinstance(b, NoneV):
            return self.identical(a, b, st)
        if isinstance(a, RefV) and isinstance(b, RefV):
            return self.ref_equal(a, b, st, frame, node)
        if isinstance(a, TupleV) and isinstance(b, TupleV):
            if len(a.items) != len(b.items):
                return z3.BoolVal(False)
            return z3.And(*[self.equal(x, y, st, frame, node) for x, y in zip(a.items, b.items)])
        if isinstance(a, TupleV) and isinstance(b, PyConst) and isinstance(b.v, tuple):
            if len(a.items) != len(b.v):
                return z3.BoolVal(False)
            return z3.And(*[self.equal(x, PyConst(y), st, frame, node) for x, y in zip(a.items, b.v)])
        if a.t.kind == 'bool' and b.t.kind == 'bool':
            return self.term(a, st) == self.term(b, st)
        if is_numk(a.t) and is_numk(b.t):
            x, y, k = self.num2(a, b, st)
            return x == y
        if a.t.kind == 'optint' or b.t.kind == 'optint':
            return self.term(a, st, OPTINT) == self.term(b, st, OPTINT)
        if isinstance(a, Cont) and isinstance(b, Cont):
            if a.t.kind == 'list' and b.t.kind == 'list':
                return self.list_equal(a, b, st)
            return self.term(a, st) == self.term(b, st)
        if a.t.kind == b.t.kind:
            return self.term(a, st) == self.term(b, st)
        if isinstance(a, RefV) or isinstance(b, RefV):
            # e.g. Optional[bytes] field compared with bytes
            return z3.BoolVal(False) if not st.spec else z3.BoolVal(False)
        raise VCError('== between %r and %r' % (a, b))

    def list_equal(self, a, b, st):
        ta, tb = self.term(a, st), self.term(b, st)
        i = z3.Int('i!le')
        la, lb = a.t.acc('len')(ta), b.t.acc('len')(tb)
        aa, ab = a.t.acc('arr')(ta), b.t.acc('arr')(tb)
        if st.spec:
            return z3.And(la == lb, z3.ForAll([i], z3.Implies(z3.And(0 <= i, i < la),
                                                              z3.Select(aa, i) == z3.Select(ab, i))))
        # code mode: introduce a boolean with both directions (skolemised disagreement index)
        r = fresh('leq', z3.BoolSort())
        w = fresh('w', z3.IntSort())
        st.assume(z3.Implies(r, z3.And(la == lb, z3.ForAll([i], z3.Implies(z3.And(0 <= i, i < la),
                                                                          z3.Select(aa, i) == z3.Select(ab, i)),
                                                          patterns=[z3.Select(aa, i)]))))
        st.assume(z3.Implies(z3.Not(r), z3.Or(la != lb, z3.And(0 <= w, w < la,
                                                               z3.Select(aa, w) != z3.Select(ab, w)))))
        return r

    def ref_equal(self, a, b, st, frame, node):
        """a == b on objects: record classes compare by identity tuple (abstract model, licensed by C20);
        other objects by identity."""
        hook = self.ctx.ref_eq_hook
        if hook is not None:
            r = hook(self, a, b, st, frame, node)
            if r is not None:
                return r
        return a.term == b.term

    def contains(self, cont, x, st, frame, node):
        if isinstance(cont, PyConst):
            items = list(cont.v) if not isinstance(cont.v, (str, bytes)) else None
            if items is None:
                if isinstance(cont.v, str):
                    return self.str_contains(cont, x, st)
                raise VCError('in bytes constant')
            if not items:
                return z3.BoolVal(False)
            return z3.Or(*[self.equal(x, PyConst(i), st, frame, node) for i in items])
        if isinstance(cont, TupleV):
            return z3.Or(*[self.equal(x, i, st, frame, node) for i in cont.items])
        if isinstance(cont, Cont):
            if cont.t.kind == 'list':
                n = self.l_len(cont, st)
                arr = self.l_arr(cont, st)
                xt = self.term(x, st, cont.t.args[0])
                i = z3.Int('i!in')
                if st.spec:
                    return z3.Exists([i], z3.And(0 <= i, i < n, z3.Select(arr, i) == xt))
                r = fresh('in', z3.BoolSort())
                w = fresh('w', z3.IntSort())
                st.assume(z3.Implies(r, z3.And(0 <= w, w < n, z3.Select(arr, w) == xt)))
                st.assume(z3.Implies(z3.Not(r), z3.ForAll([i], z3.Implies(z3.And(0 <= i, i < n),
                                                                          z3.Select(arr, i) != xt),
                                                          patterns=[z3.Select(arr, i)])))
                return r
            return self.d_has(cont, x, st)
        if cont.t.kind == 'str':
            return self.str_contains(cont, x, st)
        raise VCError('in %r' % (cont,))

    # ---- attribute / subscript ----------------------------------------------------------
    def ev_Attribute(self, node, st, frame):
        for st1, v in self.ev(node.value, st, frame):
            yield from self.getattr(v, node.attr, st1, frame, node)

    def getattr(self, v, attr, st, frame, node):
        ctx = self.ctx
        if isinstance(v, RefV):
            cls = v.t.cls
            if v.nullable:
                self.pend_raise(st, v.term == NONE, 'AttributeError', frame, node)
                v = RefV(v.term, v.t, False)
            hook = ctx.getattr_hook
            if hook is not None:
                r = hook(self, v, attr, st, frame, node)
                if r is not None:
                    yield st, r
                    return
            fs = ctx.shapes.field(cls, attr)
            if fs is not None:
                yield st, self.read_field(v, fs, st)
                return
            for c in ctx.shapes.mro(cls):
                if 'method:%s.%s' % (c, attr) in ctx.stubs:
                    yield st, FuncV('stubmethod', recv=v, fn=ctx.stubs['method:%s.%s' % (c, attr)])
                    return
            f = ctx.repo.find_method(cls, attr)
            if f is not None:
                if any(isinstance(d, ast.Name) and d.id == 'property' for d in f.node.decorator_list):
                    yield from self.call(FuncV('method', recv=v, name=attr), [], {}, st, frame, node)
                    return
                yield st, FuncV('method', recv=v, name=attr)
                return
            key = 'method:%s.%s' % (cls, attr)
            for c in ctx.shapes.mro(cls):
                if 'method:%s.%s' % (c, attr) in ctx.stubs:
                    yield st, FuncV('stubmethod', recv=v, fn=ctx.stubs['method:%s.%s' % (c, attr)])
                    return
            # the static class has no such attribute but a subclass does (the code relies on an unchecked typing.cast
            # under `if TYPE_CHECKING:`): dynamic lookup - AttributeError unless the object is of that subclass
            owners = [c for c in ctx.shapes.subclasses(cls) if c != cls and ctx.shapes.field(c, attr) is not None
                      and not any(o != c and c in ctx.shapes.subclasses(o) and ctx.shapes.field(o, attr) is not None
                                  for o in ctx.shapes.subclasses(cls) if o != cls)]
            if len(owners) == 1:
                d = owners[0]
                self.pend_raise(st, z3.Not(ctx.shapes.isinstance_term(v.term, d)), 'AttributeError', frame, node)
                yield st, self.read_field(RefV(v.term, ref(d), False), ctx.shapes.field(d, attr), st)
                return
            raise VCError('no field/method %s on %s (line %s)' % (attr, cls, getattr(node, 'lineno', '?')))
        if isinstance(v, Cont):
            yield st, FuncV('contmethod', recv=v, name=attr)
            return
        if isinstance(v, Sc) and v.t.kind == 'ident':
            from .types import Ident, RData
            names = {'kind': (0, INT), 'key': (1, STR), 'type': (2, INT), 'class_': (3, INT)}
            if attr in names:
                i, t = names[attr]
                yield st, Sc(Ident.accessor(0, i)(v.term), t)
                return
            rd = Ident.accessor(0, 4)(v.term)
            for ci in range(RData.num_constructors()):
                for ai in range(RData.constructor(ci).arity()):
                    a = RData.accessor(ci, ai)
                    if a.name() == 'rd_' + attr:
                        tt = {'Str': STR, 'Int': INT, 'Bytes': BYTES, 'OptInt': OPTINT}.get(a.range().name())
                        if tt is None:
                            tt = T('list', [INT])
                        yield st, self.wrap(a(rd), tt)
                        return
        if isinstance(v, (Sc, PyConst)) and v.t.kind in ('str', 'bytes'):
            yield st, FuncV('strmethod', recv=v, name=attr)
            return
        if isinstance(v, ModuleV):
            k2 = v.name + '.' + attr
            if k2 in ctx.stubs:
                yield st, ctx.stubs[k2](self, st, frame)
                return
            if v.name in ctx.repo.modules:
                r = self.lookup_global(v.name, attr, st, frame)
                if r is not None:
                    yield st, r
                    return
            yield st, FuncV('external', name=k2)
            return
        if isinstance(v, ClassV):
            k2 = 'class:%s.%s' % (v.name, attr)
            if k2 in ctx.stubs:
                yield st, ctx.stubs[k2](self, st, frame)
                return
            f = ctx.repo.find_method(v.name, attr)
            if f is not None:
                yield st, FuncV('function', module=f.module, qualname=f.qualname, unbound=True)
                return
            raise VCError('class attribute %s.%s' % (v.name, attr))
        if isinstance(v, FuncV) and v.kind == 'dictconst' and hasattr(v, attr):
            yield st, FuncV('stubmethod', recv=v, fn=getattr(v, attr))
            return
        raise VCError('attribute %s on %r (line %s)' % (attr, v, getattr(node, 'lineno', '?')))

    def read_field(self, v, fs, st):
        if fs.kind == 'derived':
            return fs.fn(self, v, st)
        if fs.kind == 'const':
            f = z3.Function('C_' + fs.fid, Ref, fs.t.sort())
            return self.wrap(f(v.term), fs.t)
        t = fs.t
        if t.is_container:
            c = Cont(FieldLoc(v.term, fs.fid, t.sort()), t)
            if t.kind == 'list' and not st.spec:
                st.assume(t.acc('len')(c.loc.read(st)) >= 0)      # every list has a non-negative length
            if fs.nullable:
                # Optional[container]: presence flag kept in a companion boolean field
                c.some = z3.Select(st.heap_arr(fs.fid + '$some', z3.BoolSort()), v.term)
            return c
        term = z3.Select(st.heap_arr(fs.fid, t.sort()), v.term)
        if t.kind == 'ref':
            r = RefV(term, t, fs.nullable)
            self.assume_type(r, st)
            return r
        return self.wrap(term, t)

    def ev_Subscript(self, node, st, frame):
        for st1, v in self.ev(node.value, st, frame):
            if isinstance(node.slice, ast.Slice):
                yield from self.ev_slice(v, node.slice, st1, frame, node)
                continue
            for st2, k in self.ev(node.slice, st1, frame):
                yield st2, self.subscript(v, k, st2, frame, node)

    def subscript(self, v, k, st, frame, node):
        if isinstance(v, TupleV):
            if isinstance(k, PyConst):
                return v.items[k.v]
            raise VCError('symbolic tuple index')
        if isinstance(v, PyConst) and isinstance(v.v, (tuple, list)) and isinstance(k, PyConst):
            return PyConst(v.v[k.v])
        if isinstance(v, PyConst) and isinstance(v.v, (tuple,)):
            # table lookup by symbolic index (e.g. BYTE_TABLE[value]) is handled by stubs
            raise VCError('symbolic index into constant tuple')
        if isinstance(v, Cont):
            if v.t.kind == 'list':
                return self.l_get(v, k, st, frame, node)
            if v.t.kind in ('dict', 'rdict'):
                self.pend_raise(st, z3.Not(self.d_has(v, k, st)), 'KeyError', frame, node)
                return self.d_item(v, k, st)
        if isinstance(v, (Sc, PyConst)) and v.t.kind in ('str', 'bytes'):
            return self.str_index(v, k, st, frame, node)
        if isinstance(v, FuncV) and v.kind == 'subscriptable':
            return v.fn(self, k, st, frame, node)
        raise VCError('subscript of %r (line %s)' % (v, getattr(node, 'lineno', '?')))

    def ev_slice(self, v, sl, st, frame, node):
        lo = hi = None
        st1 = st
        if sl.lower is not None:
            lo = self.ev1(sl.lower, st1, frame)
        if sl.upper is not None:
            hi = self.ev1(sl.upper, st1, frame)
        if sl.step is not None:
            raise VCError('slice step')
        if isinstance(v, Cont) and v.t.kind == 'list':
            n = self.l_len(v, st1)
            lo_t = self.clamp(self.num(lo, st1)[0], n) if lo is not None else z3.IntVal(0)
            hi_t = self.clamp(self.num(hi, st1)[0], n) if hi is not None else n
            hi_t = z3.If(hi_t < lo_t, lo_t, hi_t)
            yield st1, self.new_cont(v.t, st1, self.l_slice_term(v, lo_t, hi_t, st1))
            return
        if v.t.kind in ('str', 'bytes'):
            yield st1, self.str_slice(v, lo, hi, st1, frame, node)
            return
        raise VCError('slice of %r' % (v,))

    def ev_Starred(self, node, st, frame):
        raise VCError('starred expression in unsupported position')

    def ev_Await(self, node, st, frame):
        for st1, v in self.ev(node.value, st, frame):
            yield from self.do_await(v, st1, frame, node)

    def ev_Lambda(self, node, st, frame):
        yield st, FuncV('lambda', node=node, frame=frame, env=dict(st.locals), bound=dict(st.bound))

    def ev_NamedExpr(self, node, st, frame):
        for st1, v in self.ev(node.value, st, frame):
            st1.locals[node.target.id] = v
            yield st1, v


def neg(x):
    if z3.is_true(x):
        return z3.BoolVal(False)
    if z3.is_false(x):
        return z3.BoolVal(True)
    return z3.Not(x)


def same_terms(a, b):
    if a.keys() != b.keys():
        return False
    return all(a[k].eq(b[k]) for k in a)


def is_numk(t):
    return t.kind in ('int', 'real', 'bool')
