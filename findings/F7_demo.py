"""F7 (property C08, open finding): answers queued for aggregated multicast BEFORE a service is unregistered are still transmitted with
their full TTL AFTER the service has left the registry - the reply queues are never purged on unregistration.
Runs the scenario of contracts/c08.py on the real QueryHandler / MulticastOutgoingQueue / ServiceRegistry (no sockets).
exit 1 = the defect is present."""
import sys
sys.path.insert(0, '/verif')
from contracts.c08 import scenario_queued_answer_outlives_unregistration
bad = False
for delayed in (False, True):
    late = scenario_queued_answer_outlives_unregistration(delayed)
    print('protected queue' if delayed else 'aggregation queue', '-> transmitted after the service left the registry:', late)
    bad = bad or bool(late)
sys.exit(1 if bad else 0)
