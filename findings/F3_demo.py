"""F3 (C02/C15): a chain of > ~1000 compression pointers made DNSIncoming(...) raise RecursionError (not a DECODE_EXCEPTION).
exit 1 = an exception escapes the constructor."""
import sys
from zeroconf._protocol.incoming import DNSIncoming
n = 1100
hdr = b'\x00\x00\x00\x00\x00\x01\x00\x00\x00\x00\x00\x00'
# question name at offset 12 = pointer to 14, which points to 16, ... the last one is a root label
body = bytearray()
for k in range(n):
    target = 12 + 2 * (k + 1)
    body += bytes([0xC0 | (target >> 8), target & 0xFF])
body += b'\x00' + b'\x00\x0c\x00\x01'
try:
    m = DNSIncoming(hdr + bytes(body))
except BaseException as e:     # noqa
    print('escaped:', type(e).__name__)
    sys.exit(1)
print('no exception; valid =', m.valid)
sys.exit(0)
