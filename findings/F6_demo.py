"""F6 (C15): a legacy-unicast query (source port != 5353) whose second question has a label of invalid UTF-8 bytes.  The label decodes
with U+FFFD replacement characters (3 bytes each), the unicast reply echoes the questions, and encoding the echoed name raises
NamePartTooLongException out of datagram_received - into the event loop.  exit 1 = an exception escapes datagram_received."""
import sys
from unittest.mock import MagicMock, patch
from zeroconf import ServiceInfo, Zeroconf, const
from zeroconf._listener import AsyncListener

with patch('zeroconf._core.create_sockets', return_value=(None, [])):
    zc = Zeroconf(interfaces=['127.0.0.1'])
try:
    info = ServiceInfo('_x._tcp.local.', 'inst._x._tcp.local.', port=80, server='h.local.', addresses=[b'\x0a\x00\x00\x01'])
    zc.registry.async_add(info)
    lst = AsyncListener(zc)
    lst.transport = MagicMock()
    bad = bytes([30]) + b'\xff' * 30                      # one label of 30 invalid bytes -> 30 x U+FFFD = 90 UTF-8 bytes
    q1 = b'\x02_x\x04_tcp\x05local\x00' + b'\x00\x0c\x00\x01'
    q2 = bad + b'\x05local\x00' + b'\x00\x0c\x00\x01'
    data = b'\x12\x34\x00\x00\x00\x02\x00\x00\x00\x00\x00\x00' + q1 + q2
    try:
        lst.datagram_received(data, ('1.2.3.4', 40000))
    except BaseException as e:       # noqa
        print('escaped from datagram_received:', type(e).__name__)
        rc = 1
    else:
        print('no exception escaped')
        rc = 0
finally:
    zc.close()
sys.exit(rc)
