"""F8: the refresh wake-up already armed for a later deadline must be re-armed for an earlier one."""
import asyncio, sys, time
from unittest.mock import patch, MagicMock
from zeroconf import DNSPointer, const
from zeroconf._services.browser import QueryScheduler
import zeroconf._services.browser as br

class FakeHandle:
    def __init__(self, when, cb): self._when, self.cb, self.cancelled_ = when, cb, False
    def cancel(self): self.cancelled_ = True
    def when(self): return self._when
class FakeLoop:
    def __init__(self): self.now = 0.0; self.timers = []
    def time(self): return self.now
    def call_at(self, when, cb, *a): h = FakeHandle(when, cb); self.timers.append(h); return h
    def call_later(self, d, cb, *a): return self.call_at(self.now + d, cb)
    def run_until(self, t):
        while True:
            live = [h for h in self.timers if not h.cancelled_ and h._when <= t]
            if not live: break
            h = min(live, key=lambda h: h._when); self.timers.remove(h); self.now = max(self.now, h._when); h.cb()
        self.now = t
loop = FakeLoop()
zc = MagicMock(); zc.done = False
sent = []
class QS(QueryScheduler):
    def async_send_ready_queries(self, first, now, types): sent.append((now, set(types)))
qs = QS(zc, {"_x._tcp.local."}, None, 5353, True, 10000, (20, 120), None)
with patch.object(br, 'current_time_millis', lambda: loop.now * 1000):
    qs.start(loop)
    loop.run_until(20.0)
    p1 = DNSPointer("_x._tcp.local.", const._TYPE_PTR, const._CLASS_IN, 4500, "long._x._tcp.local.", created=20000.0)
    qs.reschedule_ptr_first_refresh(p1)
    loop.run_until(60.0)
    n0 = len(sent)
    p2 = DNSPointer("_x._tcp.local.", const._TYPE_PTR, const._CLASS_IN, 1200, "short._x._tcp.local.", created=60000.0)
    qs.reschedule_ptr_first_refresh(p2)
    loop.run_until(1259.0)   # p2 expires at 1260 s
refresh = [s for s in sent[n0:]]
print("queries between 60 s and 1259 s:", refresh)
assert any(960000.0 <= t <= 970000.0 + 10000 for t, _ in refresh), "no refresh query for the short-lived record at 75% of its TTL"
times = [t for t, _ in sent]
assert all(b - a >= 10000 for a, b in zip(times[4:], times[5:])), "queries closer than the delay"
print("ok")
