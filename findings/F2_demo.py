"""F2 (C01): a 64-byte label was accepted by the encoder; the length byte 0x40 is not a label to any RFC 1035 decoder (the library's
own decoder marks the message invalid).  exit 1 = a 64-byte label is encoded."""
import sys
from zeroconf import DNSOutgoing, DNSQuestion, const
from zeroconf._exceptions import NamePartTooLongException
from zeroconf._protocol.incoming import DNSIncoming
out = DNSOutgoing(const._FLAGS_QR_QUERY)
out.add_question(DNSQuestion('a' * 64 + '._x._tcp.local.', const._TYPE_PTR, const._CLASS_IN))
try:
    pkt = out.packets()[0]
except NamePartTooLongException:
    print('rejected with NamePartTooLongException')
    sys.exit(0)
print('encoded; own decoder says valid =', DNSIncoming(pkt).valid)
sys.exit(1)
