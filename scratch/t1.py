import sys; sys.path.insert(0,'/verif')
import z3
from pyvc.source import Repo
from pyvc.shapes import Shapes
from pyvc.contracts import Registry, Loop
from pyvc.core import Ctx, base_axioms
from pyvc.verify import Executor
from pyvc.solve import discharge
from pyvc.execcont import card_axioms

R = Registry()
R.shape('DNSEntry', {'key':'str','name':'str','type':'int','class_':'int','unique':'bool'})
R.shape('DNSRecord', {'ttl':'real','created':'real'})
R.contract('zeroconf._dns','DNSRecord.is_expired','C05', params={'now':'real'}, returns='bool',
   ensures=['result == (self.created + 1000*self.ttl <= now)'])
R.contract('zeroconf._dns','DNSRecord.get_remaining_ttl','C05', params={'now':'real'}, returns='real',
   ensures=['result == ite(self.created + 1000*self.ttl - now < 0, 0, (self.created + 1000*self.ttl - now)/1000)'])
R.contract('zeroconf._dns','DNSRecord.reset_ttl','C05', params={'other':'DNSRecord'}, 
   modifies=['self.ttl','self.created'],
   ensures=['self.ttl == old(other.ttl)', 'self.created == old(other.created)'])
R.contract('zeroconf._dns','DNSEntry.__init__','C20', params={'name':'str','type_':'int','class_':'int'},
   modifies=['self.name','self.key','self.type','self.class_','self.unique'],
   ensures=['self.key == lower(name)','self.class_ == mod(class_, 32768)', 'self.unique == (mod(div(class_,32768),2) == 1)'])
repo = Repo()
shapes = Shapes(repo, R.shapes)
ctx = Ctx(repo, shapes, R.contracts)
ctx.spec_funcs = R.spec_funcs
ex = Executor(ctx)
for c in R.contracts.values():
    ex.verify_function(c, c.props[0])
ax = base_axioms() + ctx.literal_axioms() + card_axioms()
res = discharge(ctx.obligations, ax, timeout=10)
for r in res:
    print(r.verdict, r.ob.oid, r.solver, round(r.seconds,2), r.ob.note[:60])
