import sys; sys.path.insert(0,'/verif')
from pyvc.driver import Run
r = Run('C20'); r.build()
c = r.R.contracts[('zeroconf._dns','DNSText._eq')]
r.ex.verify_function(c,'C20')
for ob in r.ctx.obligations:
    print(ob.oid, ob.note[:50]); 
    for p in ob.pc: print('   PC', p)
    print('   GOAL', ob.goal)
